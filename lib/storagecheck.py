"""Shared by C11 and C12: TLC enumerates storages with spec/MC_Storage.tla, the harness replays them on string and file lists."""
import json
import os

import vf

CFG = """CONSTANT MaxLines = %d
CONSTANT MaxLists = %d
CONSTANT Long = {%s}
INIT Init
NEXT Next
INVARIANT Emit
INVARIANT Theorems
CHECK_DEADLOCK FALSE
"""


def replay_cases(ctx, recs, noise, tag="s"):
    p = os.path.join(ctx.work, "st-cases-%s.ndjson" % tag)
    vf.write_ndjson(p, recs)
    mm = os.path.join(ctx.work, "st-mismatches-%s.ndjson" % tag)
    tmp = os.path.join(ctx.work, "files")
    os.makedirs(tmp, exist_ok=True)
    s = ctx.vh(["replay-storage", "in=" + p, "out=" + mm, "dir=" + tmp, "noise=%d" % (1 if noise else 0)], timeout=3000)
    return s, vf.read_ndjson(mm)


def run(ctx, configs, noise, only=None):
    ctx.build()
    n = 0
    for (maxlines, maxlists, longs) in configs:
        n += 1
        r = ctx.tlc("MC_Storage", CFG % (maxlines, maxlists, ", ".join(map(str, longs))), timeout=1500)
        recs = [x for x in r.records if "lists" in x]
        s, mism = replay_cases(ctx, recs, noise, str(n))
        ctx.evaluations += s["evaluations"]
        ctx.validated += s["cases"]
        ctx.nontrivial += s["noisy"] if noise else s["retrievals"]
        for smp in s["samples"] or []:
            ctx.sample(smp)
        seen = 0
        for m in mism:
            if only and not only(m):
                continue
            seen += 1
            if seen > 60:
                break
            ctx.report("%s store: %s: expected %s, got %s; lists %s" % (m["store"], m["why"], m["expected"], m["got"],
                                                                         json.dumps(m["case"]["lists"])[:300]),
                       {"reexec": ["replay-storage"], "noise": noise, "input": [m["case"]]}, {"cause": m["cause"], "store": m["store"]})
    ctx.exhaustive = True


def replay(ctx, path):
    ctx.build()
    obj = json.load(open(path))
    s, mism = replay_cases(ctx, obj["input"], obj.get("noise", False), "replay")
    print(json.dumps({"mismatches": [{k: m[k] for k in m if k != "case"} for m in mism[:4]]}, indent=1)[:3000])
    return 1 if mism else 0
