"""spec/ProxySession.tla <-> proxy.Server (used by C20): the exchange around the HTML filter.

spec -> code: for every rule set of the tier TLC explores the step-wise machine (invariants NoLeak, Untouched,
ExceptionKeepsPage, StableWhenHeaderDecides, cache-header rules, agreement with the one-shot Outcome function; liveness
Terminates under weak fairness) and prints the canonical exchanges with their outcome; the harness sends each one through a
real proxy.Server on the loopback interface with a real origin behind it and compares what the origin saw and what the
client got.  code -> spec: seeded random exchanges over the full feature product, four in flight at a time, validated by
Trace_ProxySession."""
import json
import os

import vf

INVS = ["Emit", "TypeOK", "NoLeak", "Decided", "Untouched", "TagNamesThisPage", "ExceptionKeepsPage", "StableWhenHeaderDecides",
        "CondOnlyForStatic", "CondKeptForStatic", "OutcomeAgrees"]

CONFIGS_QUICK = [(["script", "image"], True), (["subdocument", "xmlhttprequest", "other", "websocket"], False)]
CONFIGS_THOROUGH = CONFIGS_QUICK + [([], False), ([], True), (["stylesheet", "font", "media", "ping", "object"], True),
                                    (["subdocument", "script", "stylesheet", "image", "object", "media", "font", "xmlhttprequest",
                                      "websocket", "ping", "other"], False)]


def constants(blocked, docexc):
    return "CONSTANT BlockedTypes = {%s}\nCONSTANT DocException = %s\n" % (
        ", ".join('"%s"' % b for b in blocked), "TRUE" if docexc else "FALSE")


def replay_cases(ctx, blocked, docexc, recs, tag):
    p = os.path.join(ctx.work, "session-cases-%s.ndjson" % tag)
    vf.write_ndjson(p, recs)
    mm = os.path.join(ctx.work, "session-mismatches-%s.ndjson" % tag)
    s = ctx.vh(["replay-session", "blocked=" + ",".join(blocked), "docexc=%d" % (1 if docexc else 0), "in=" + p, "out=" + mm], timeout=1800)
    return s, vf.read_ndjson(mm)


def run(ctx):
    quick = ctx.tier == "quick"
    configs = CONFIGS_QUICK if quick else CONFIGS_THOROUGH
    ctx.extra["session_configs"] = [{"blocked": b, "document_exception": d} for b, d in configs]
    ctx.extra["session_exchanges"] = 0
    ctx.extra["session_trace_events"] = 0
    ctx.tlaps("ProxyProofs")     # StableType, inductive invariant => NoLeak / CondOnlyForStatic, for EVERY rule set (TLAPS)
    for n, (blocked, docexc) in enumerate(configs):
        cfg = constants(blocked, docexc) + "INIT Init\nNEXT Next\n" + "".join("INVARIANT %s\n" % i for i in INVS) + "CHECK_DEADLOCK FALSE\n"
        r = ctx.tlc("MC_ProxySession", cfg, timeout=900)
        if r.violated:
            raise vf.Inconclusive("ProxySession: TLC reports %s violated for rule set %s (log %s)" % (r.violated, blocked, r.log))
        if n == 0:
            # liveness of the machine itself, once
            lr = ctx.tlc("ProxySession", constants(blocked, docexc) + "SPECIFICATION Spec\nPROPERTY Terminates\nCHECK_DEADLOCK FALSE\n", timeout=900)
            if lr.violated:
                raise vf.Inconclusive("ProxySession: liveness %s (log %s)" % (lr.violated, lr.log))
        recs = [x for x in r.records if x.get("kind") in ("CASE", "SCRIPT")]
        s, mism = replay_cases(ctx, blocked, docexc, recs, str(n))
        ctx.evaluations += s["evaluations"]
        ctx.validated += s["evaluations"] - s["mismatches"]
        ctx.nontrivial += s["nontrivial"]
        ctx.extra["session_exchanges"] += s["evaluations"]
        for smp in (s["samples"] or [])[:2]:
            ctx.sample({"exchange": smp})
        seen = set()
        for m in mism:
            c = m["case"]
            k = json.dumps([m["entry"], c.get("ct"), m.get("types"), m["expected"], m["got"]], sort_keys=True)
            if k in seen or len(seen) >= 25:
                continue
            seen.add(k)
            if m["entry"] == "exchange":
                what = "proxy exchange %s, origin answers Content-Type class %r, rules block %s%s (assumed types %s): model %s, proxy %s" % (
                    c["req"], c["ct"], blocked, " + $document exception" if docexc else "", m["types"], m["expected"], m["got"])
            else:
                what = "content-script endpoint %s%s: model %s, proxy %s (the body read as its Content-Encoding says)" % (
                    c["c"], ", server compresses" if m.get("server_compresses") else "", m["expected"], m["got"])
            ctx.report(what, {"reexec": ["replay-session"], "blocked": blocked, "docexc": docexc, "input": [c]},
                       {"cause": "proxy-session", "entry": m["entry"]})
        # code -> spec
        tr = os.path.join(ctx.work, "session-trace-%d.ndjson" % n)
        d = ctx.vh(["drive-session", "blocked=" + ",".join(blocked), "docexc=%d" % (1 if docexc else 0), "n=%d" % (800 if quick else 8000),
                    "out=" + tr], timeout=1800)
        nev, rejects = ctx.validate_trace("Trace_ProxySession", tr, chunk=4000, procs=(2 if quick else 6), constants=constants(blocked, docexc))
        ctx.evaluations += nev
        ctx.validated += nev - len(rejects)
        ctx.nontrivial += d["nontrivial"]
        ctx.extra["session_trace_events"] += nev
        if rejects:
            events = vf.read_ndjson(tr)
            # an exchange the model rejects is first re-executed alone on a fresh proxy; a defect that needs other
            # exchanges before it (state kept in the server) does not show that way, so the whole drive is run once more
            # and the rejections that come back are reported as they are
            tr2 = os.path.join(ctx.work, "session-trace-%d-again.ndjson" % n)
            again = None
            done = set()
            lost = 0
            for rj in rejects:
                e = events[rj["l"] - 1]
                k = json.dumps([e["req"], e["ct"]], sort_keys=True)
                kk = json.dumps([e["ct"], rj["spec"], rj["code"]], sort_keys=True)
                if kk in done or len(done) >= 25:
                    continue
                case = {"kind": "CASE", "req": e["req"], "ct": e["ct"], "exp": dict(rj["spec"], type1="?", type2="?")}
                s2, mm2 = replay_cases(ctx, blocked, docexc, [case], "confirm")
                if not mm2:
                    if again is None:
                        ctx.vh(["drive-session", "blocked=" + ",".join(blocked), "docexc=%d" % (1 if docexc else 0),
                                "n=%d" % (800 if quick else 8000), "out=" + tr2], timeout=1800)
                        n2, rj2 = ctx.validate_trace("Trace_ProxySession", tr2, chunk=4000, procs=(2 if quick else 6),
                                                     constants=constants(blocked, docexc))
                        ev2 = vf.read_ndjson(tr2)
                        again = {json.dumps([ev2[r["l"] - 1]["req"], ev2[r["l"] - 1]["ct"]], sort_keys=True) for r in rj2}
                    if k not in again:
                        lost += 1
                        continue
                done.add(kk)
                ctx.report("proxy exchange %s, origin answers Content-Type class %r, rules block %s%s: model %s, proxy %s%s" % (
                    e["req"], e["ct"], blocked, " + $document exception" if docexc else "", rj["spec"], rj["code"],
                    "" if mm2 else " (only after other exchanges on the same server)"),
                    {"reexec": ["replay-session"], "blocked": blocked, "docexc": docexc, "input": [case]},
                    {"cause": "proxy-session", "entry": "exchange"})
            if lost and not ctx.violations:
                raise vf.Inconclusive("%d rejected proxy exchanges, none reproduced" % lost)

def replay(ctx, obj):
    ctx.build()
    s, mism = replay_cases(ctx, obj["blocked"], obj["docexc"], obj["input"], "replay")
    print(json.dumps({"mismatches": [{k: m.get(k) for k in ("entry", "expected", "got")} for m in mism[:4]]}, indent=1))
    return 1 if mism else 0
