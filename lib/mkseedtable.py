#!/usr/bin/env python3
"""Regenerates seeded/README.md (one row per seeded change: what it is, which checks were run against it, the result)
from seeded/*/meta.json and seeded/*/result.json."""
import glob
import json
import os

VERIF = os.path.dirname(os.path.dirname(os.path.abspath(__file__)))
rows = []
caught = missed = neutral = 0
for d in sorted(glob.glob(os.path.join(VERIF, "seeded", "*", ""))):
    name = os.path.basename(os.path.dirname(d))
    meta = json.load(open(os.path.join(d, "meta.json")))
    rp = os.path.join(d, "result.json")
    res = json.load(open(rp)) if os.path.exists(rp) else {}
    summ = " ".join(meta.get("summary", "").split())[:220].replace("|", "\\|")
    checks = ", ".join("%s: exit %s" % (k, v["exit"]) for k, v in res.get("checks", {}).items())
    ok = res.get("compiles") and res.get("suite_passes_with_change") and res.get("demo_fails_with_change") and res.get("demo_passes_unchanged")
    if meta.get("neutralised"):  # the change no longer changes behaviour on the current tree
        verdict = "neutralised: " + meta["neutralised"]
        neutral += 1
    elif not ok:
        verdict = "not confirmed as a valid seed"
    elif res.get("detected"):
        verdict = "caught"
        caught += 1
    else:
        verdict = "MISSED"
        missed += 1
    rows.append("| `%s` | %s | %s | %s | %s |" % (name, meta.get("round", 1), summ, checks, verdict))
with open(os.path.join(VERIF, "seeded", "README.md"), "w") as f:
    f.write("# Seeded changes\n\nOne directory per change (`patch.diff`, `demo_test.go`, `meta.json`, `result.json` written by `bin/seedtest`). "
            "None of them was ever committed to /repo.  Regenerate with `python3 lib/mkseedtable.py` after `bin/seedall`.\n\n"
            "caught: %d, missed: %d, neutralised: %d\n\n| seed | round | change (agent's summary) | checks run (quick tier) | result |\n|---|---|---|---|---|\n" % (caught, missed, neutral))
    f.write("\n".join(rows) + "\n")
print("caught %d missed %d neutralised %d" % (caught, missed, neutral))
