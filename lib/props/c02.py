"""C02 - DNS engine answer equals the reference resolution over all rules (DESIGN.md section 6/C02)."""
import json
import os

import vf

CFG = """CONSTANT MaxRules = %d
CONSTANT H <- Hreal
INIT Init
NEXT Next
INVARIANT Emit
INVARIANT HostTableOK
INVARIANT AnswerIsRef
INVARIANT Distinct
CHECK_DEADLOCK FALSE
"""


def replay_cases(ctx, pool, recs, tag="d"):
    p = os.path.join(ctx.work, "dns-cases-%s.ndjson" % tag)
    vf.write_ndjson(p, recs)
    mm = os.path.join(ctx.work, "dns-mismatches-%s.ndjson" % tag)
    s = ctx.vh(["replay-dns", "pool=" + pool, "in=" + p, "out=" + mm], timeout=3000)
    return s, vf.read_ndjson(mm)


def run(ctx):
    ctx.rule = ("every set of up to MaxRules entries of a 41-entry pool: hosts lines (IPv4, IPv6, IPv4-mapped, two names with comment, "
                "bare domain, entries for a hostname that genuinely collides under djb2), DNS-applicable network rules (block, exception, "
                "important both ways, $dnsrewrite, $badfilter twin, $dnstype, $client, $ctag, $denyallow, one-sided content type) and "
                "browser-only rules that would match if loaded ($match-case, $~third-party, $domain=~x, @@$document, two-sided content "
                "types) x 40 DNS requests (hostname, sub-domain, colliding name, unrelated, near miss x record type x client x tags); "
                "DNSEngine!RefAnswer gives NetworkRules, class, admissible winners, IPv4/IPv6 host groups and the matched flag. "
                "distinct_nontrivial = (list, request) pairs with a non-empty expected answer")
    ctx.assumptions = ["which of several equal-class rules is reported as the basic rule is not compared (admissible winners)",
                       "host rules are compared as sets of rule texts"]
    ctx.build()
    pool = os.path.join(ctx.work, "dnspool.ndjson")
    ps = ctx.vh(["dns-pool", "out=" + pool])
    ctx.extra["pool"] = ps["note"]
    for pm in ps.get("parse_mismatch") or []:
        ctx.report(pm, {"reexec": ["dns-pool"], "what": pm}, {"cause": "hosts-line-parse"})
    r = ctx.tlc("MC_DNSEngine", CFG % (3 if ctx.tier == "quick" else 4), files={"dnspool.ndjson": pool}, timeout=2400)
    recs = [x for x in r.records if x.get("kind") == "CASE"]
    s, mism = replay_cases(ctx, pool, recs)
    ctx.evaluations += s["evaluations"]
    ctx.validated += s["cases"]
    ctx.nontrivial += s["nontrivial"]
    for smp in s["samples"] or []:
        ctx.sample(smp)
    seen = set()
    for m in mism:
        k = (json.dumps(m.get("lists")), m.get("query"))
        if k in seen:
            continue
        seen.add(k)
        if len(seen) > 60:
            break
        ctx.report("lists %s, request %s: %s: spec %s, code %s" % (m.get("lists"), m.get("query"), m["why"], m.get("expected"), m.get("got")),
                   {"reexec": ["replay-dns"], "input": [m["case"]], "pool": json.load(open(pool))}, {"cause": m["why"].split(":")[0]})
    # ---- code -> spec: hosts file + DNS filter of the repository ----
    tr = os.path.join(ctx.work, "dns-trace.ndjson")
    quick = ctx.tier == "quick"
    d = ctx.vh(["drive-dnslists", "n=%d" % (600 if quick else 30000), "rules=%d" % (4000 if quick else 60000), "out=" + tr], timeout=3000)
    nev, rejects = ctx.validate_trace("Trace_DNSEngine", tr, chunk=3000, procs=(2 if quick else 8))
    ctx.validated += nev - len(rejects)
    ctx.evaluations += nev
    ctx.nontrivial += d["non_empty"]
    ctx.extra["list_entries"] = d["entries"]
    ctx.extra["list_events"] = nev
    ctx.extra["list_events_skipped_badfilter"] = d["skipped_badfilter"]
    if rejects:
        events = vf.read_ndjson(tr)
        for rj in rejects[:30]:
            e = events[rj["l"] - 1]
            ctx.report("real-world lists, hostname %s: reference %s, engine %s" % (e["host"], str(rj["spec"])[:300], str(rj["code"])[:300]),
                       {"reexec": ["drive-dnslists"], "host": e["host"], "seed": ctx.seed}, {"cause": "real-lists"})
    ctx.exhaustive = True


def replay(ctx, path):
    ctx.build()
    obj = json.load(open(path))
    pool = os.path.join(ctx.work, "dnspool.ndjson")
    vf.write_ndjson(pool, [obj["pool"]])
    s, mism = replay_cases(ctx, pool, obj["input"], "replay")
    print(json.dumps({"mismatches": [{k: m.get(k) for k in ("why", "lists", "query", "expected", "got")} for m in mism[:4]]}, indent=1)[:3000])
    return 1 if mism else 0
