"""C13 - query results are a pure function of the lists and the request (DESIGN.md section 6/C13)."""
import json
import os

import vf

MC = """CONSTANT MaxHist = %d
CONSTANT Rules <- RulesC
CONSTANT Queries <- QueriesC
CONSTANT Acc <- AccC
CONSTANT Cand <- CandC
CONSTANT InFile <- InFileC
CONSTANT PoolFields <- PoolFieldsC
SPECIFICATION SpecM
CONSTRAINT Bound
INVARIANT PoolRefilled
INVARIANT Pure
INVARIANT FaultSubset
INVARIANT StillServed
INVARIANT MemoryUnaffected
CHECK_DEADLOCK FALSE
"""


def run(ctx):
    ctx.rule = ("design model: every history of up to MaxHist queries over 3 queries / 4 rules with cache, pooled request record and a "
                "fault at any point (Pure, PoolRefilled); code -> spec: seeded random lists ($client, $ctag, $dnstype, $dnsrewrite, "
                "invalid and lazily compiled regex rules, hosts, cosmetic; string and file stores) with histories of DNS / web / "
                "MatchAll / cosmetic queries that alternate client fields and repeat, each distinct query also asked on a FRESH engine, "
                "derived results (effective rewrites, basic result, cosmetic option) called on old results and old results re-digested; "
                "Trace_History validates every event in order against 'one unknown function F of (lists, query)'. "
                "distinct_nontrivial = queries with a non-empty answer")
    ctx.assumptions = ["answers are compared as projected values (rule texts, classes, flags), never by pointer",
                       "a fresh engine on the same lists is the only oracle"]
    ctx.build()
    quick = ctx.tier == "quick"
    ctx.tlc("MC_UrlFilter", MC % (4 if quick else 6), timeout=900)
    from props import c14
    c14.pool_model(ctx, 2, 2 if quick else 3)      # the pooled request record: every field matching reads is rewritten
    trace = os.path.join(ctx.work, "hist-trace.ndjson")
    tmp = os.path.join(ctx.work, "files")
    os.makedirs(tmp, exist_ok=True)
    nh, hl = (12, 200) if quick else (150, 2000)
    d = ctx.vh(["drive-history", "histories=%d" % nh, "len=%d" % hl, "out=" + trace, "dir=" + tmp], timeout=3000)
    nev, rejects = ctx.validate_histories("Trace_History", trace, procs=8, per_job=(2 if quick else 4))
    ctx.validated += nev - len(rejects)
    ctx.evaluations += d["queries"]
    ctx.nontrivial += d["non_empty"]
    ctx.extra["histories"] = nh
    ctx.extra["distinct_queries"] = d["distinct_queries"]
    for t in d["samples"]:
        ctx.sample(t[:400])
    if rejects:
        events = vf.read_ndjson(trace)
        # re-drive the WHOLE run once more (state may be carried between histories inside the process) and require
        # the same events to be rejected again
        t2 = os.path.join(ctx.work, "hist-trace-again.ndjson")
        ctx.vh(["drive-history", "histories=%d" % nh, "len=%d" % hl, "out=" + t2, "dir=" + tmp], timeout=3000)
        n2, rj2 = ctx.validate_histories("Trace_History", t2, procs=8, per_job=(2 if quick else 4))
        ev2 = vf.read_ndjson(t2)
        again = {(ev2[r["l"] - 1]["h"], ev2[r["l"] - 1]["ev"], ev2[r["l"] - 1]["q"] or ev2[r["l"] - 1]["rid"]) for r in rj2}
        seen = set()
        lost = []
        for rj in rejects[:200]:
            e = events[rj["l"] - 1]
            k = (e["h"], e["ev"], e["q"] or e["rid"])
            if k in seen:
                continue
            seen.add(k)
            if k not in again:
                # state that depends on the scheduler (a sync.Pool) need not misbehave on the same query twice: only
                # the rejections that DO come back are reported; if none does, the run is inconclusive (below)
                lost.append("history %d (%s %s)" % (e["h"], e["ev"], str(k[2])[:80]))
                continue
            ctx.report("history %d, event %s q=%s: answer %s but earlier/fresh answer %s" % (e["h"], e["ev"], e["q"] or e["rid"], e["a"][:300], str(rj["spec"])[:300]),
                       {"reexec": ["drive-history"], "history": e["h"], "histories": nh, "len": hl, "seed": ctx.seed, "event": e, "spec": rj["spec"]},
                       {"cause": e["ev"]})
        ctx.extra["rejections_not_reproduced"] = len(lost)
        if lost and not ctx.violations:
            raise vf.Inconclusive("%d rejected events, none reproduced in a second run, e.g. %s" % (len(lost), lost[0]))


def replay(ctx, path):
    ctx.build()
    obj = json.load(open(path))
    ctx.seed = obj["seed"]
    tmp = os.path.join(ctx.work, "files")
    os.makedirs(tmp, exist_ok=True)
    t2 = os.path.join(ctx.work, "hist-replay.ndjson")
    ctx.vh(["drive-history", "histories=%d" % obj["histories"], "len=%d" % obj["len"], "out=" + t2, "dir=" + tmp])
    n2, rj2 = ctx.validate_histories("Trace_History", t2, procs=1)
    print(json.dumps({"rejected_events": rj2[:5]}, indent=1)[:2000])
    return 1 if rj2 else 0
