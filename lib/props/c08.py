"""C08 - $badfilter disables exactly its twin rules, however many are present (DESIGN.md section 6/C08)."""
import verdictcheck


def run(ctx):
    ctx.rule = ("TLC enumerates every bag of <= MaxBag rules from a pool made of a rule x carrying every list-valued modifier, its "
                "$badfilter twin, 12 near twins differing from x in exactly one modifier value (content type, option, $domain, $ctag, "
                "$client, $denyallow, $dnstype, exception flag, pattern) each with its own twin, and plain/exception/rewrite rules "
                "with twins; model theorems TwinNeutral and OnlyTwins; the harness replays all permutations through the five entry "
                "points. distinct_nontrivial = cases whose expected class is not 'none'")
    ctx.assumptions = ["twins are rendered by appending ',badfilter' to the same text; reordered value lists are neither required nor forbidden to be twins"]
    cfgs = [(3, 1)] if ctx.tier == "quick" else [(4, 0), (3, 2)]      # (4, 2) over the 47-rule pool would be 10^6 cases
    verdictcheck.run(ctx, "badfilter", cfgs, why_filter=lambda m: "outranked" not in m["why"])


replay = verdictcheck.replay
