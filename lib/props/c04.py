"""C04 - a rule matches iff its pattern and every modifier are satisfied (DESIGN.md section 6/C04)."""
import os

import vf

CFG = """CONSTANT MaxSet = %d
CONSTANT PairVals = %d
INIT Init
NEXT Next
INVARIANT Emit
INVARIANT Monotone
INVARIANT AnyPatOK
INVARIANT DomainAxiom
CHECK_DEADLOCK FALSE
"""


def replay_rows(ctx, records, variants=3):
    rows = os.path.join(ctx.work, "rows.ndjson")
    vf.write_ndjson(rows, records)
    mm = os.path.join(ctx.work, "rule-mismatches.ndjson")
    s = ctx.vh(["replay-rule", "in=" + rows, "out=" + mm, "variants=%d" % variants])
    # (a rejected row rule is a mismatch record of its own, cause "rejected-valid-rule")
    return s, vf.read_ndjson(mm)


def run(ctx):
    ctx.rule = ("spec -> code: TLC enumerates every value set (<= MaxSet values, with negations) of each modifier family and "
                "pairs of families, evaluates Rule!Match against a structured universe of web and hostname requests, and each "
                "rule row is replayed in 3 renderings (value orders, spellings) into NewNetworkRule/Match; code -> spec: "
                "grammar-random rules x requests executed on the real code and validated by TLC against Rule!Match. "
                "distinct_nontrivial = (rule, request) pairs whose expected verdict is 'match'")
    ctx.assumptions = ["requests carry sorted tags (API precondition)",
                       "Public Suffix List answers are environment inputs; the abstract PSL of the model is checked against "
                       "golang.org/x/net/publicsuffix on every host used",
                       "derived request fields (hostname, third-party) are C17's subject; here a request whose real third-party flag or "
                       "hostnames differ from what Request.tla derives is reported once per request, then forced to the case's values"]
    ctx.build()
    quick = ctx.tier == "quick"
    r = ctx.tlc("MC_Rule", CFG % ((2, 4) if quick else (3, 7)), timeout=1500)
    rows = [x for x in r.records if x.get("kind") in ("REQS", "ROW")]
    s, mism = replay_rows(ctx, rows)
    ctx.evaluations += s["evaluations"]
    ctx.validated += s["rows"]
    ctx.nontrivial += s["expected_matches"]
    ctx.extra["replayed_rules"] = s["rows"]
    ctx.extra["requests_per_rule"] = s["requests"]
    ctx.extra["env"] = s["env"]
    for t in s["samples"]:
        ctx.sample({"rule": t})
    seen = set()
    for m in mism:
        key = (m["rule_text"], m["request"])
        if key in seen:
            continue
        seen.add(key)
        what = "rule %r on %s: spec says %s, code says %s%s" % (
            m["rule_text"], m["request"], m["expected"], m["got"], (" (panic %s)" % m["panic"]) if m.get("panic") else "")
        inp = [{"kind": "REQS", "reqs": [m["req"]]}]
        if m["cause"] != "request-derivation":
            inp.append({"kind": "ROW", "fam": m["fam"], "rule": m["rule"], "exp": [1 if m["expected"] else 0]})
        ctx.report(what, {"reexec": ["replay-rule"], "input": inp}, {"cause": m["cause"]})
    ctx.exhaustive = True

    # ---- rule TEXT level: syntax trees folded by RuleText!Meaning, rendered literally ----
    rt = ctx.tlc("MC_RuleText", "CONSTANT MaxSet = 2\nCONSTANT PairVals = 4\nCONSTANT MaxOpts = %d\nINIT Init2\nNEXT Next2\n"
                 "INVARIANT Emit2\nINVARIANT OrderFree\nCHECK_DEADLOCK FALSE\n" % (2 if quick else 3), timeout=2400)
    trecs = [x for x in rt.records if x.get("kind") in ("REQS", "TEXT")]
    tp = os.path.join(ctx.work, "ruletext.ndjson")
    vf.write_ndjson(tp, trecs)
    tm = os.path.join(ctx.work, "ruletext-mismatches.ndjson")
    ts = ctx.vh(["replay-ruletext", "in=" + tp, "out=" + tm], timeout=3000)
    ctx.evaluations += ts["evaluations"]
    ctx.validated += ts["texts"]
    ctx.nontrivial += ts["expected_matches"]
    ctx.extra["rule_texts"] = ts["texts"]
    ctx.extra["rule_texts_expected_to_be_rejected"] = ts["errors_expected"]
    for t in ts["samples"][:3]:
        ctx.sample({"rule_text": t})
    reqs_rec = [x for x in trecs if x["kind"] == "REQS"]
    seen_t = set()
    for m in vf.read_ndjson(tm):
        if m["text"] in seen_t:
            continue
        seen_t.add(m["text"])
        if len(seen_t) > 60:
            break
        ctx.report("rule text %r: %s: spec %s, code %s" % (m["text"], m["why"], m.get("expected", m.get("expected_error")), m.get("got", m.get("got_error"))),
                   {"reexec": ["replay-ruletext"], "input": reqs_rec + [m["case"]]}, {"cause": m["cause"]})

    # ---- code -> spec: seeded grammar driver, validated by Trace_Rule ----
    n = 20000 if quick else 1000000
    trace = os.path.join(ctx.work, "rule-trace.ndjson")
    d = ctx.vh(["drive-rule", "n=%d" % n, "out=" + trace])
    if d["panics"]:
        raise vf.Inconclusive("driver saw %d panics without saving them" % d["panics"])
    nev, rejects = ctx.validate_trace("Trace_Rule", trace, procs=(2 if quick else 8))
    ctx.validated += nev - len(rejects)
    ctx.evaluations += nev
    ctx.nontrivial += d["matches"]
    ctx.extra["trace_events"] = nev
    ctx.extra["trace_matches"] = d["matches"]
    for t in d["samples"][:3]:
        ctx.sample({"trace_event": t})
    if rejects:
        events = vf.read_ndjson(trace)
        unreproduced, reproduced = [], 0
        for rj in rejects[:200]:
            e = events[rj["l"] - 1]
            if isinstance(rj["spec"], dict):
                # the logged third-party flag is not the one Request.tla derives: rebuild the request with the derived
                # value stated and let the real constructor disagree again
                req2 = dict(e["req"])
                req2["thirdParty"] = rj["spec"]["thirdParty"]
                inp = [{"kind": "REQS", "reqs": [req2]}]
                s2, mm2 = replay_rows(ctx, inp, variants=1)
                mm2 = [m for m in mm2 if m["cause"] == "request-derivation"]
                if not mm2:
                    raise vf.Inconclusive("third-party rejection of event %d did not reproduce: %s" % (rj["l"], e["text"]))
                detail = ("third-party flag: spec says %s, code says %s" % (mm2[0]["expected"], mm2[0]["got"])
                          if mm2[0]["expected"] != mm2[0]["got"] else "the real request's host names are not the ones of the URLs")
                ctx.report("request %s: %s" % (mm2[0]["request"], detail),
                           {"reexec": ["replay-rule"], "input": inp}, {"cause": "request-derivation"})
                reproduced += 1
                continue
            # re-execute exactly this event from its abstract form against the real code
            # (first as it was written - the order of the values of a list-valued modifier is part of the text - then in
            # two more renderings of the abstract rule)
            inp = [{"kind": "REQS", "reqs": [e["req"]]},
                   {"kind": "ROW", "fam": ["trace"], "rule": e["rule"], "text": e["text"], "exp": [1 if rj["spec"] else 0]}]
            s2, mm2 = replay_rows(ctx, inp, variants=3)
            if not mm2:
                unreproduced.append("event %d: %s" % (rj["l"], e["text"]))
                continue
            m = mm2[0]
            what = "rule %r on %s: spec says %s, code says %s" % (m["rule_text"], m["request"], m["expected"], m["got"])
            ctx.report(what, {"reexec": ["replay-rule"], "input": inp}, {"cause": m["cause"]})
            reproduced += 1
        # a rejection that does not come back when its event is re-executed alone is dropped only if others do come back
        if unreproduced and not reproduced:
            raise vf.Inconclusive("%d trace rejections, none reproduced when re-executed alone, e.g. %s" % (len(unreproduced), unreproduced[0]))


def replay(ctx, path):
    import json
    ctx.build()
    obj = json.load(open(path))
    if obj.get("reexec") == ["replay-ruletext"]:
        tp = os.path.join(ctx.work, "ruletext.ndjson")
        vf.write_ndjson(tp, obj["input"])
        tm = os.path.join(ctx.work, "ruletext-mismatches.ndjson")
        ctx.vh(["replay-ruletext", "in=" + tp, "out=" + tm])
        mm = vf.read_ndjson(tm)
        print(json.dumps({"mismatches": [{k: m.get(k) for k in ("text", "why", "expected", "got")} for m in mm[:3]]}, indent=1))
        return 1 if mm else 0
    s, mism = replay_rows(ctx, obj["input"])
    print(json.dumps({"mismatches": len(mism), "detail": mism[:3]}, indent=1)[:3000])
    return 1 if mism else 0
