"""C15 - cosmetic engine returns exactly the applicable, non-excepted selectors (DESIGN.md section 6/C15)."""
import json
import os

import vf

CFG = "CONSTANT MaxRules = %d\nINIT Init\nNEXT Next\nINVARIANT Emit\nINVARIANT FlagsOK\nINVARIANT SubdomainsCovered\nCHECK_DEADLOCK FALSE\n"


def replay_cases(ctx, recs):
    p = os.path.join(ctx.work, "cos-eng-cases.ndjson")
    vf.write_ndjson(p, recs)
    mm = os.path.join(ctx.work, "cos-eng-mismatches.ndjson")
    s = ctx.vh(["replay-cosmetic", "in=" + p, "out=" + mm], timeout=2400)
    return s, vf.read_ndjson(mm)


def run(ctx):
    ctx.rule = ("every set of <= MaxRules rules of an 18-rule pool (generic, generic with an excluded domain, one/many domains, listed "
                "and excluded sub-domain, wildcard TLD, duplicate selectors, exceptions of each kind) x 7 hostnames (listed, sub-domain, "
                "sub-sub-domain, sibling, second listed, wildcard hit, look-alike) x 8 flag combinations, through CosmeticEngine.Match "
                "and Engine.GetCosmeticResult, in seeded list orders and splits. distinct_nontrivial = (rule set, host) pairs with a "
                "non-empty expected result")
    ctx.assumptions = ["selector sets are compared, not order or multiplicity"]
    ctx.build()
    r = ctx.tlc("MC_CosmeticEngine", CFG % (3 if ctx.tier == "quick" else 6), timeout=1200)
    recs = [x for x in r.records if x.get("kind") in ("POOL", "CASE")]
    s, mism = replay_cases(ctx, recs)
    ctx.evaluations = s["evaluations"]
    ctx.validated = s["cases"]
    ctx.nontrivial = s["nontrivial"]
    ctx.exhaustive = True
    for t in s["samples"]:
        ctx.sample(t)
    # ---- code -> spec: element-hiding rules of the bundled lists, reference bits from CosmeticRule.Match ----
    tr = os.path.join(ctx.work, "cos-trace.ndjson")
    d = ctx.vh(["drive-cosmetic", "n=%d" % (300 if ctx.tier == "quick" else 20000), "out=" + tr], timeout=3000)
    nev, rejects = ctx.validate_trace("Trace_Cosmetic", tr, chunk=150, procs=(2 if ctx.tier == "quick" else 8))
    ctx.validated += nev - len(rejects)
    ctx.evaluations += nev
    ctx.nontrivial += d["with_specific_result"]
    ctx.extra["list_cosmetic_rules"] = d["cosmetic_rules"]
    ctx.extra["list_events"] = nev
    if rejects:
        events = vf.read_ndjson(tr)
        for rj in rejects[:30]:
            e = events[rj["l"] - 1]
            ctx.report("bundled cosmetic rules, hostname %s css=%s gcss=%s: selectors missing %s, selectors in excess %s" % (
                e["host"], e["css"], e["gcss"], str(rj["spec"])[:300], str(rj["code"])[:300]),
                {"reexec": ["drive-cosmetic"], "host": e["host"], "seed": ctx.seed}, {"cause": "real-lists"})
    pool = [x for x in recs if x["kind"] == "POOL"]
    seen = set()
    for m in mism:
        k = (tuple(sorted(m["rules"])), m["host"])
        if k in seen:
            continue
        seen.add(k)
        ctx.report("%s rules %s host %s css=%s gcss=%s: spec generic {%s} specific {%s}, code generic {%s} specific {%s} %s" % (
            m["entry"], m["rules"], m["host"], m["css"], m["gcss"], m["expected_generic"], m["expected_specific"],
            m["got_generic"], m["got_specific"], m["panic"]),
            {"reexec": ["replay-cosmetic"], "input": pool + [m["case"]]}, {"cause": m["cause"]})


def replay(ctx, path):
    ctx.build()
    obj = json.load(open(path))
    s, mism = replay_cases(ctx, obj["input"])
    print(json.dumps({"mismatches": [{k: m[k] for k in m if k != "case"} for m in mism[:4]]}, indent=1)[:3000])
    return 1 if mism else 0
