"""C19 - unreadable rule lists degrade results to a subset, never crash or lie (DESIGN.md section 6/C19)."""
import json
import os

import vf
from props import c13


def run(ctx):
    ctx.rule = ("design model: every history of up to MaxHist queries with the fault at any point (FaultSubset, StillServed, "
                "MemoryUnaffected); code -> spec: file-backed random lists (every fifth history adds a 3000-line slice of the bundled "
                "lists), histories of DNS / web / MatchAll queries with a fault (RuleStorage.Close, or one list's file handle replaced by "
                "a closed descriptor) at a random point k in 0..n, the same history run on a fault-free twin; Trace_Fault validates in "
                "order: no crash, results equal before and a subset after the fault, rules already returned still served. "
                "distinct_nontrivial = queries after the fault that still return rules")
    ctx.assumptions = ["'still served' is required only for rules the faulted engine had returned before the fault (provably materialised)",
                       "log output of failed retrievals is discarded"]
    ctx.build()
    quick = ctx.tier == "quick"
    ctx.tlc("MC_UrlFilter", c13.MC % (4 if quick else 6), timeout=900)
    trace = os.path.join(ctx.work, "fault-trace.ndjson")
    tmp = os.path.join(ctx.work, "files")
    os.makedirs(tmp, exist_ok=True)
    nh, hl = (40, 60) if quick else (1600, 100)
    d = ctx.vh(["drive-fault", "histories=%d" % nh, "len=%d" % hl, "out=" + trace, "dir=" + tmp], timeout=3000)
    nev, rejects = ctx.validate_histories("Trace_Fault", trace, procs=8, per_job=(5 if quick else 25))
    ctx.validated += nev - len(rejects)
    ctx.evaluations += d["queries"]
    ctx.nontrivial += d["served_after_fault"]
    ctx.extra["histories"] = nh
    ctx.extra["queries_after_fault"] = d["after_fault"]
    for t in d["samples"]:
        ctx.sample(t[:300])
    if rejects:
        events = vf.read_ndjson(trace)
        seen = set()
        for rj in rejects[:40]:
            e = events[rj["l"] - 1]
            if e["h"] in seen:
                continue
            seen.add(e["h"])
            t2 = os.path.join(ctx.work, "fault-replay-%d.ndjson" % e["h"])
            ctx.vh(["drive-fault", "histories=%d" % nh, "len=%d" % hl, "only=%d" % e["h"], "out=" + t2, "dir=" + tmp], timeout=3000)
            n2, rj2 = ctx.validate_histories("Trace_Fault", t2, procs=1)
            if not rj2:
                raise vf.Inconclusive("rejection in history %d did not reproduce" % e["h"])
            ctx.report("history %d, query %s: violates '%s': faulted engine %s, fault-free twin %s %s" % (
                e["h"], e["q"], rj["spec"], str(e["got"])[:300], str(e["ref"])[:300], e["kind"][:200]),
                {"reexec": ["drive-fault"], "history": e["h"], "histories": nh, "len": hl, "seed": ctx.seed, "event": e}, {"cause": rj["spec"]})


def replay(ctx, path):
    ctx.build()
    obj = json.load(open(path))
    ctx.seed = obj["seed"]
    tmp = os.path.join(ctx.work, "files")
    os.makedirs(tmp, exist_ok=True)
    t2 = os.path.join(ctx.work, "fault-replay.ndjson")
    ctx.vh(["drive-fault", "histories=%d" % obj["histories"], "len=%d" % obj["len"], "only=%d" % obj["history"], "out=" + t2, "dir=" + tmp])
    n2, rj2 = ctx.validate_histories("Trace_Fault", t2, procs=1)
    print(json.dumps({"rejected_events": rj2[:5]}, indent=1)[:2000])
    return 1 if rj2 else 0
