"""C01 - network engine lookup is equivalent to a linear scan of all rules (DESIGN.md section 6/C01)."""
import json
import os
import random

import vf

CFG = """CONSTANT MaxRules = %d
CONSTANT Dev = FALSE
CONSTANT SubPool = {%s}
CONSTANT H <- Hreal
INIT Init
NEXT Next
INVARIANT Emit
INVARIANT HashesListed
INVARIANT LookupEqualsScan
CHECK_DEADLOCK FALSE
"""


def replay_cases(ctx, pool, recs, tag):
    p = os.path.join(ctx.work, "ni-cases-%s.ndjson" % tag)
    vf.write_ndjson(p, recs)
    mm = os.path.join(ctx.work, "ni-mismatches-%s.ndjson" % tag)
    s = ctx.vh(["replay-netindex", "pool=" + pool, "in=" + p, "out=" + mm], timeout=3000)
    return s, vf.read_ndjson(mm)


def run(ctx):
    ctx.rule = ("spec -> code: the harness finds genuinely colliding djb2 windows and domain names by a birthday search and exports a "
                "59-rule pool (shortcuts of length 0/2/5/6/10 with shared, repeated and colliding windows, an any-URL shortcut, $domain "
                "plain / colliding / sub-domain / wildcard TLD / two values) with 280 queries and the REAL hash of every window; TLC runs "
                "the table model (histogram, shortcut, domain, sequential tables) with those hash values over every insertion sequence "
                "up to MaxRules, checks lookup = scan on the model and emits the expected sets; each sequence is loaded through "
                "RuleStorage + NewNetworkEngine (1 and 2 lists) and texts(MatchAll) is compared with the spec and with the linear "
                "scan by rule.Match. code -> spec: bundled lists x requests.json validated by Trace_NetIndex. "
                "distinct_nontrivial = (insertion sequence, query) pairs with a non-empty expected result + non-empty list queries")
    ctx.assumptions = ["only sets of rule texts are compared: bucket choice, order and multiplicity are free",
                       "rule.Match is the reference the property itself names"]
    ctx.build()
    quick = ctx.tier == "quick"
    pool = os.path.join(ctx.work, "pool.ndjson")
    ps = ctx.vh(["netindex-pool", "out=" + pool])
    ctx.extra["pool"] = ps["note"]
    rnd = random.Random(ctx.seed)
    n = ps["rules"]
    def sub(k):
        return ", ".join(str(i) for i in sorted(rnd.sample(range(1, n + 1), k)))
    plans = [(2, "")] + ([(3, sub(12))] if quick else [(3, sub(26)), (4, sub(9))])
    t = 0
    for maxrules, sp in plans:
        t += 1
        r = ctx.tlc("MC_NetIndex", CFG % (maxrules, sp), files={"pool.ndjson": pool}, timeout=2400)
        recs = [x for x in r.records if x.get("kind") == "CASE"]
        s, mism = replay_cases(ctx, pool, recs, str(t))
        ctx.evaluations += s["evaluations"]
        ctx.validated += s["cases"]
        ctx.nontrivial += s["nontrivial"]
        for smp in s["samples"] or []:
            ctx.sample(smp)
        seen = set()
        for m in mism:
            k = (tuple(sorted(m.get("rules", []))), m.get("query"))
            if k in seen:
                continue
            seen.add(k)
            if len(seen) > 60:
                break
            case = dict(m["case"])
            if "query_no" in m:
                case["exp"] = m["case"]["exp"]
            ctx.report("rules %s query %s: engine {%s} linear scan {%s} spec {%s} %s" % (
                m.get("rules"), m.get("query"), m.get("engine"), m.get("linear_scan"), m.get("spec"), m.get("panic", "")),
                {"reexec": ["replay-netindex"], "input": [case], "pool": json.load(open(pool))}, {"cause": m.get("cause", "other")})
    # ---- code -> spec on the bundled lists ----
    trace = os.path.join(ctx.work, "ni-trace.ndjson")
    d = ctx.vh(["drive-netindex", "n=%d" % (300 if quick else 4000), "rules=%d" % (4000 if quick else 0), "out=" + trace], timeout=3000)
    nev, rejects = ctx.validate_trace("Trace_NetIndex", trace, chunk=1000, procs=(2 if quick else 8))
    ctx.validated += nev - len(rejects)
    ctx.evaluations += nev
    ctx.nontrivial += d["nonempty"]
    ctx.extra["list_rules"] = d["rules"]
    ctx.extra["list_queries"] = nev
    if rejects:
        events = vf.read_ndjson(trace)
        for rj in rejects[:40]:
            e = events[rj["l"] - 1]
            ctx.report("bundled lists, request %r: rules only the linear scan finds %s, rules only the engine reports %s" % (
                e["query"][:200], rj["spec"], rj["code"]), {"reexec": ["drive-netindex"], "event": e}, {"cause": "real-lists"})
    ctx.exhaustive = True


def replay(ctx, path):
    ctx.build()
    obj = json.load(open(path))
    if obj["reexec"] != ["replay-netindex"]:
        return 2
    pool = os.path.join(ctx.work, "pool.ndjson")
    vf.write_ndjson(pool, [obj["pool"]])
    s, mism = replay_cases(ctx, pool, obj["input"], "replay")
    print(json.dumps({"mismatches": [{k: m.get(k) for k in ("rules", "query", "engine", "linear_scan", "spec")} for m in mism[:4]]}, indent=1)[:3000])
    return 1 if mism else 0
