"""C18 - hosts-file lines yield exactly the listed names with the given address (DESIGN.md section 6/C18)."""
import json
import os

import linekindcheck
import vf

CFG = """CONSTANT NamePool = {"n1", "n2", "n3", "n4"}
CONSTANT MaxNames = %d
INIT Init
NEXT Next
INVARIANT Emit
INVARIANT CommentInert
CHECK_DEADLOCK FALSE
"""


def replay_cases(ctx, recs):
    p = os.path.join(ctx.work, "host-cases.ndjson")
    vf.write_ndjson(p, recs)
    mm = os.path.join(ctx.work, "host-mismatches.ndjson")
    s = ctx.vh(["replay-hosts", "in=" + p, "out=" + mm], timeout=2400)
    return s, vf.read_ndjson(mm)


def run(ctx):
    ctx.rule = ("every abstract hosts line: address class (IPv4, IPv6, IPv4-mapped, none) x every sequence of 1..MaxNames distinct names "
                "of a 4-name pool x separator style x 7 comment shapes (with/without a blank before '#', '##' after a blank, several "
                "words, bare '#') x trailing blanks; each is rendered in several spellings and checked through NewRule, NewHostRule "
                "and a DNS engine (listed names found in the right family group; names one character shorter/longer not found). "
                "distinct_nontrivial = concrete lines")
    ctx.assumptions = ["comment text avoids cosmetic markers; 'name##x' without a blank is element-hiding syntax and outside the contract"]
    ctx.build()
    r = ctx.tlc("HostLine", CFG % (2 if ctx.tier == "quick" else 4), timeout=600)
    recs = [x for x in r.records if "line" in x]
    s, mism = replay_cases(ctx, recs)
    ctx.evaluations = s["evaluations"]
    ctx.validated = s["cases"]
    ctx.nontrivial = s["lines"]
    ctx.exhaustive = True
    for t in s["samples"]:
        ctx.sample(t)
    seen = set()
    for m in mism:
        k = (m["line"], m["entry"])
        if k in seen:
            continue
        seen.add(k)
        ctx.report("%s on line %r: %s: spec %s, code %s" % (m["entry"], m["line"], m["why"], m["expected"], m["got"]),
                   {"reexec": ["replay-hosts"], "input": [m["case"]]}, {"cause": m["cause"]})
    # ---- which lines are hosts entries at all, and what the other parsers leave to this one: spec/LineKind.tla ----
    ctx.rule += "; plus the line classification of LineKind.tla (see C12) on every line of <= 3/4 tokens and on random longer lines"
    linekindcheck.run(ctx, 3 if ctx.tier == "quick" else 4, 10000 if ctx.tier == "quick" else 150000)


def replay(ctx, path):
    ctx.build()
    obj = json.load(open(path))
    if obj.get("reexec") == ["replay-linekind"]:
        return linekindcheck.replay(ctx, obj)
    s, mism = replay_cases(ctx, obj["input"])
    print(json.dumps({"mismatches": [{k: m[k] for k in ("line", "entry", "why", "expected", "got")} for m in mism[:4]]}, indent=1))
    return 1 if mism else 0
