"""C17 - request fields agree with the standard URL parser and the Public Suffix List (DESIGN.md section 6/C17)."""
import json
import os

import vf

CFG = "INIT Init\nNEXT Next\nINVARIANT Emit\nINVARIANT ScannerOK\nINVARIANT Symmetric\nCHECK_DEADLOCK FALSE\n"


def replay_cases(ctx, recs):
    p = os.path.join(ctx.work, "req-cases.ndjson")
    vf.write_ndjson(p, recs)
    mm = os.path.join(ctx.work, "req-mismatches.ndjson")
    s = ctx.vh(["replay-request", "in=" + p, "out=" + mm])
    return s, vf.read_ndjson(mm)


def run(ctx):
    ctx.rule = ("spec -> code: 5 schemes x 17 hosts (every kind of PSL rule: normal, two-level, wildcard, exception, private, none, "
                "single label, IPv4) x port x 12 URL tails (path, query, fragment after path/query, colon in path, URL in query, "
                "4 KiB cap) x 8 sources, fields computed by Request!Fields; code -> spec: a sweep over the Public Suffix List "
                "(every wildcard/exception rule and a seeded sample or all rules, 0/1/2 extra labels, mixed case, long URLs) with "
                "net/url and publicsuffix answers logged as environment inputs, validated by Trace_Request. "
                "distinct_nontrivial = requests that are third-party")
    ctx.assumptions = ["URLs inside the stated contract only (no userinfo, no fragment directly after the host, no empty labels)",
                       "hostname requests get lower-case hostnames (documented precondition of FillRequestForHostname)",
                       "net/url and golang.org/x/net/publicsuffix are the reference libraries the property names"]
    ctx.build()
    quick = ctx.tier == "quick"
    r = ctx.tlc("MC_Request", CFG, timeout=900)
    recs = [x for x in r.records if x.get("kind") in ("url", "host")]
    s, mism = replay_cases(ctx, recs)
    ctx.evaluations += s["cases"]
    ctx.validated += s["cases"]
    ctx.nontrivial += s["third_party"]
    for t in s["samples"]:
        ctx.sample(t)
    for m in mism[:200]:
        ctx.report("NewRequest(%r, %r): field %s: spec %s, code %s %s" % (m["url"][:120], m["source"][:80], m["field"], m["expected"], m["got"], m["panic"]),
                   {"reexec": ["replay-request"], "input": [m["case"]]}, {"field": m["field"] or "panic"})
    trace = os.path.join(ctx.work, "req-trace.ndjson")
    d = ctx.vh(["drive-request", "psl=" + os.path.join(vf.VERIF, "data", "psl_rules.txt"), "n=%d" % (1000 if quick else 0), "out=" + trace])
    if d["panics"]:
        ctx.report("panic in NewRequest during the PSL sweep", {"reexec": ["drive-request"]}, {"field": "panic"})
    nev, rejects = ctx.validate_trace("Trace_Request", trace, chunk=8000, procs=(2 if quick else 8))
    ctx.validated += nev - len(rejects)
    ctx.evaluations += nev
    ctx.nontrivial += d["third_party"]
    ctx.extra["trace_events"] = nev
    ctx.extra["psl_rules_swept"] = d["psl_rules"]
    for t in d["samples"][:3]:
        ctx.sample(t)
    if rejects:
        events = vf.read_ndjson(trace)
        for rj in rejects[:100]:
            e = events[rj["l"] - 1]
            u, src = "".join(map(chr, e["url"])), "".join(map(chr, e["src"]))
            case = {"kind": e["kind"], "url": e["url"], "src": e["src"], "host": e["host"], "hostPsl": e["hostPsl"], "srcPsl": e["srcPsl"], "exp": rj["spec"]}
            s2, mm2 = replay_cases(ctx, [case])
            if not mm2:
                raise vf.Inconclusive("trace rejection did not reproduce for %r %r" % (u[:100], src[:100]))
            ctx.report("NewRequest(%r, %r): field %s: spec %s, code %s" % (u[:120], src[:80], mm2[0]["field"], mm2[0]["expected"], mm2[0]["got"]),
                       {"reexec": ["replay-request"], "input": [case]}, {"field": mm2[0]["field"]})
    ctx.exhaustive = True


def replay(ctx, path):
    ctx.build()
    obj = json.load(open(path))
    s, mism = replay_cases(ctx, obj["input"])
    print(json.dumps({"mismatches": [{k: m[k] for k in ("url", "source", "field", "expected", "got")} for m in mism[:4]]}, indent=1)[:3000])
    return 1 if mism else 0
