"""C07 - rule priority is a strict weak order; the winner is never outranked (DESIGN.md section 6/C07)."""
import os

import vf
import verdictcheck

MC = """CONSTANT Full = %s
INIT Init
NEXT Next
INVARIANT Emit
%s
CHECK_DEADLOCK FALSE
"""
TR = """CONSTANT Triples = %s
INIT Init
NEXT Next
INVARIANT Irreflexive
INVARIANT Asymmetric
INVARIANT RankChar
INVARIANT ByClass
INVARIANT BySpecific
INVARIANT ByCount
INVARIANT Transitive
CHECK_DEADLOCK FALSE
"""
LAWS = ("Irreflexive", "Asymmetric", "RankChar", "ByClass", "BySpecific", "ByCount", "Transitive")


def holds(law, o):
    """The law instance TLC rejected, re-evaluated on the relation freshly observed from the real code."""
    if law == "irreflexive":
        return not o["aa"]
    if law == "asymmetric":
        return not (o["ab"] and o["ba"])
    if law == "transitive":
        return not (o["ab"] and o["bc"] and not o["ac"])
    if law == "ties-transitive":
        tie = lambda x, y: not o[x] and not o[y]
        return not (tie("ab", "ba") and tie("bc", "cb") and not tie("ac", "ca"))
    return None   # laws that involve the whole relation or the spec's rank: confirmed by the stable matrix


def run(ctx):
    ctx.rule = ("pool = cartesian product of the features the comparison reads (exception x important x $domain none/include/"
                "exclude x content types x third-party x $dnstype x $ctag x $client x $denyallow): the real IsHigherPriority "
                "is evaluated on EVERY ordered pair and TLC checks irreflexivity, asymmetry, the rank characterisation (equivalent "
                "to strict weak order), the documented criteria, and on the sub-pool every triple; selection is checked by "
                "replaying all permutations of candidate bags. distinct_nontrivial = ordered pairs reported 'higher'")
    ctx.assumptions = ["the code's own relation is tested against the order laws; a different but lawful tie-break does not alarm"]
    ctx.build()
    # unbounded companion: any rank-induced relation is a strict weak order and the selection scan is never outranked (TLAPS)
    ctx.tlaps("OrderLemmas")
    full = ctx.tier != "quick"
    runs = [(False, True)] + ([(True, False)] if full else [])
    for (fullpool, triples) in runs:
        r = ctx.tlc("MC_Priority", MC % (("TRUE", "") if fullpool else ("FALSE", "INVARIANT IntendedSWO")), timeout=600)
        pool = [x for x in r.records if x.get("kind") == "POOL"]
        pp = os.path.join(ctx.work, "prio-pool.ndjson")
        vf.write_ndjson(pp, pool)
        tp = os.path.join(ctx.work, "prio-trace.ndjson")
        s = ctx.vh(["priority-matrix", "in=" + pp, "out=" + tp])
        # the relation must be stable: observe it a second time
        tp2 = os.path.join(ctx.work, "prio-trace2.ndjson")
        ctx.vh(["priority-matrix", "in=" + pp, "out=" + tp2])
        t1 = vf.read_ndjson(tp)[0]
        if t1["rows"] != vf.read_ndjson(tp2)[0]["rows"]:
            raise vf.Inconclusive("IsHigherPriority is not deterministic")
        ctx.evaluations += s["pairs"]
        ctx.nontrivial += s["higher"]
        for t in s["samples"]:
            ctx.sample({"rule": t})
        tr = ctx.tlc("Trace_Priority", TR % ("TRUE" if triples else "FALSE"), files={"trace.ndjson": tp}, cont=True, timeout=900)
        for v in tr.violated:
            if v not in LAWS:
                raise vf.Inconclusive("unexpected TLC violation %s (log %s)" % (v, tr.log))
        rejects = [x for x in tr.records if x.get("kind") == "REJECT"]
        ctx.validated += s["pairs"] - len(rejects)
        ctx.extra["pool_%d" % s["rules"]] = {"pairs": s["pairs"], "higher": s["higher"], "rejected_law_instances": len(rejects)}
        texts = t1["texts"]
        per_law = {}
        for rj in rejects:
            per_law.setdefault(rj["law"], []).append(rj)
        for law, lst in sorted(per_law.items()):
            rj = lst[0]
            a, b = texts[rj["a"] - 1], texts[rj["b"] - 1]
            c = texts[rj["c"] - 1] if rj.get("c") else ""
            lid = lambda k: [1, 2, 3, -4][(k - 1) % 4]      # the list ids priority-matrix gave the pool rules
            args = ["priority-pair", "a=" + a, "b=" + b, "la=%d" % lid(rj["a"]), "lb=%d" % lid(rj["b"])] + (
                ["c=" + c, "lc=%d" % lid(rj["c"])] if c else [])
            o = ctx.vh(args)
            h = holds(law, o)
            if h is True:
                raise vf.Inconclusive("rejected law instance did not reproduce: %s %s" % (law, args))
            what = "%s violated %d times, e.g. a=%r b=%r%s: a>b=%s b>a=%s a>a=%s" % (
                law, len(lst), a, b, (" c=%r" % c) if c else "", o["ab"], o["ba"], o["aa"])
            ctx.report(what, {"reexec": ["priority-pair"], "args": args, "law": law, "observed": o}, {"law": law})
    # selection: the reported rule is never outranked by another candidate (all permutations)
    # (with referrer-level exceptions too: a candidate they disable must not take part in the selection at all, so every
    # disagreement of these replays counts here, not only "outranked")
    verdictcheck.run(ctx, "verdict", [(3, 0), (2, 1), (1, 2)] if not full else [(4, 0), (3, 2)])
    ctx.exhaustive = True


def replay(ctx, path):
    import json
    ctx.build()
    obj = json.load(open(path))
    if obj.get("reexec") == ["replay-verdict"]:
        return verdictcheck.replay(ctx, path)
    o = ctx.vh(obj["args"])
    h = holds(obj["law"], o)
    print(json.dumps({"law": obj["law"], "observed": {k: v for k, v in o.items() if not k.startswith("_")}, "holds": h}))
    return 0 if h else 1
