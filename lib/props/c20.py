"""C20 - proxy HTML injection inserts one tag and preserves every original byte (DESIGN.md section 6/C20)."""
import json
import os

import sessioncheck
import vf

CFG = "CONSTANT Deep = %s\nINIT Init\nNEXT Next\nINVARIANT Emit\nINVARIANT FirstMarker\nCHECK_DEADLOCK FALSE\n"


def replay_cases(ctx, recs):
    p = os.path.join(ctx.work, "px-cases.ndjson")
    vf.write_ndjson(p, recs)
    mm = os.path.join(ctx.work, "px-mismatches.ndjson")
    s = ctx.vh(["replay-proxy", "in=" + p, "out=" + mm], timeout=2400)
    return s, vf.read_ndjson(mm)


def run(ctx):
    ctx.rule = ("bodies of up to 6 segments with real byte lengths: ASCII / high-byte / NUL fillers, near-markers, the four head "
                "markers in lower/upper/mixed case, placed at offsets 16384-9..16384+1 of the original and of the transcoded text, "
                "second markers that must not be used, bodies without markers; Proxy!Result gives the insertion offset; each body is "
                "sent plain and gzip-encoded through filterHTML and compared byte for byte, with declared length and encoding header. "
                "distinct_nontrivial = bodies into which a tag must be injected")
    ctx.assumptions = ["markers inside 16 KiB of the original bytes but beyond 16 KiB of the Latin-1 -> UTF-8 transcoding: either outcome accepted"]
    ctx.build()
    r = ctx.tlc("MC_Proxy", CFG % ("FALSE" if ctx.tier == "quick" else "TRUE"), timeout=600)
    recs = [x for x in r.records if "body" in x]
    s, mism = replay_cases(ctx, recs)
    ctx.evaluations = s["evaluations"]
    ctx.validated = s["cases"]
    ctx.nontrivial = s["injected"]
    ctx.extra["ambiguous_zone_cases"] = s["ambiguous"]
    ctx.exhaustive = True
    for t in s["samples"]:
        ctx.sample(t)
    for m in mism[:100]:
        ctx.report("filterHTML(%s body %s): %s: tag expected at %s, found at %s; declared length %s, real %s" % (
            m["encoding"] or "plain", m["case"]["body"], m["why"], m["expected_at"], m["got_tag_at"], m["declared_len"], m["got_len"]),
            {"reexec": ["replay-proxy"], "input": [m["case"]]}, {"cause": m["why"].split(":")[0]})
    # ---- the exchange around the filter: which responses get filtered at all (spec/ProxySession.tla, real proxy on loopback) ----
    ctx.rule += ("; around the filter: every canonical exchange of ProxySession.tla (request header classes x origin Content-Type x rule "
                 "set) and the content-script endpoint's parameter cases replayed through a real proxy.Server on the loopback interface, "
                 "plus seeded random exchanges validated by Trace_ProxySession")
    sessioncheck.run(ctx)


def replay(ctx, path):
    ctx.build()
    obj = json.load(open(path))
    if obj.get("reexec") == ["replay-session"]:
        return sessioncheck.replay(ctx, obj)
    s, mism = replay_cases(ctx, obj["input"])
    print(json.dumps({"mismatches": mism[:4]}, indent=1)[:3000])
    return 1 if mism else 0
