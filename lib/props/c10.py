"""C10 - parsed $dnsrewrite values always have the published shape (DESIGN.md section 6/C10)."""
import json
import os

import vf

CFG = "INIT Init\nNEXT Next\nINVARIANT Emit\nINVARIANT ExpectedShapesOK\nCHECK_DEADLOCK FALSE\n"


def replay_cases(ctx, recs):
    p = os.path.join(ctx.work, "rv-cases.ndjson")
    vf.write_ndjson(p, recs)
    mm = os.path.join(ctx.work, "rv-mismatches.ndjson")
    s = ctx.vh(["replay-rwvalue", "in=" + p, "out=" + mm])
    return s, vf.read_ndjson(mm)


def run(ctx):
    ctx.rule = ("spec -> code: every abstract value of the grammar (14 short forms; 7 response codes x 13 record types x the value "
                "classes of each type incl. field counts and numeric bounds 0/65535/65536/-1/non-numeric, '.' targets, trailing dots, "
                "63/64-byte names) rendered in several spellings, outcome and shape compared with RewriteValue!Expected; "
                "code -> spec: grammar values with byte mutations parsed by the real code, every accepted value validated by TLC "
                "against ShapeOK; parsing twice must agree. distinct_nontrivial = accepted values")
    ctx.assumptions = ["outcome classes are compared only on the unambiguous spellings chosen by the renderer; mutated values are held to ShapeOK and determinism only"]
    ctx.build()
    quick = ctx.tier == "quick"
    r = ctx.tlc("MC_RewriteValue", CFG, timeout=300)
    recs = [x for x in r.records if x.get("form") in ("short", "normal")]
    s, mism = replay_cases(ctx, recs)
    ctx.evaluations += s["evaluations"]
    ctx.validated += s["cases"]
    ctx.nontrivial += s["accepted"]
    for t in s["samples"]:
        ctx.sample(t)
    seen = set()
    for m in mism:
        if m["value"] in seen:
            continue
        seen.add(m["value"])
        cause = "panic" if m["panic"] else ("nondeterministic" if not m["deterministic"] else
                 ("accepted-malformed" if m["expected_error"] and m["ok"] else ("rejected-valid" if m["ok"] is False else "wrong-shape")))
        ctx.report("$dnsrewrite=%r: spec %s, code ok=%s %s %s" % (m["value"], "error" if m["expected_error"] else m["expected"], m["ok"], m["got"], m["panic"]),
                   {"reexec": ["replay-rwvalue"], "input": [m["case"]]}, {"cause": cause})
    trace = os.path.join(ctx.work, "rv-trace.ndjson")
    d = ctx.vh(["drive-rwvalue", "n=%d" % (40000 if quick else 3000000), "out=" + trace], timeout=3000)
    if d["panics"] or d["nondeterministic"]:
        log = open(os.path.join(ctx.work, "vh-drive-rwvalue-n=%d.log" % (40000 if quick else 3000000))).read()
        for line in log.splitlines():
            if line.startswith("PANIC") or line.startswith("NONDETERMINISTIC"):
                ctx.report(line[:300], {"reexec": ["drive-rwvalue"], "line": line}, {"cause": line.split()[0].lower()})
    nev, rejects = ctx.validate_trace("Trace_RewriteValue", trace, chunk=50000, procs=(2 if quick else 8))
    ctx.validated += nev - len(rejects)
    ctx.evaluations += nev
    ctx.nontrivial += d["accepted"]
    ctx.extra["trace_events"] = nev
    ctx.extra["trace_distinct_shapes"] = d["distinct_shapes"]
    if rejects:
        events = vf.read_ndjson(trace)
        for rj in rejects[:50]:
            e = events[rj["l"] - 1]
            v = "".join(map(chr, e["v"]))
            ctx.report("$dnsrewrite=%r accepted with shape %s which violates the published contract" % (v, e["shape"]),
                       {"reexec": ["drive-rwvalue"], "value": v, "shape": e["shape"]}, {"cause": "wrong-shape"})
    ctx.exhaustive = True


def replay(ctx, path):
    ctx.build()
    obj = json.load(open(path))
    if obj["reexec"] == ["replay-rwvalue"]:
        s, mism = replay_cases(ctx, obj["input"])
        print(json.dumps({"mismatches": mism[:4]}, indent=1))
        return 1 if mism else 0
    return 2
