"""C14 - engines can be queried concurrently: race-free and sequentially consistent (DESIGN.md section 6/C14)."""
import json
import os

import vf

CFG = """SPECIFICATION Spec
CONSTANTS G = {%s}
 Idx = {%s}
 UseFileLock = %s
 UseCacheLock = %s
 UseRuleLock = %s
 Warm = {}
 Follow = FALSE
 TraceSched <- NoTrace
 TraceWant <- NoTrace
VIEW View
INVARIANT Correct
INVARIANT BufDiscipline
INVARIANT SeekReadAtomic
INVARIANT CacheDiscipline
INVARIANT RegexDiscipline
CHECK_DEADLOCK FALSE
"""
TRACE_MOD = """---- MODULE MC_ConcTrace ----
EXTENDS Concurrency
TraceSchedC == << %s >>
TraceWantC == << %s >>
====
"""
TRACE_CFG = """SPECIFICATION Spec
CONSTANTS G = {%s}
 Idx = {10, 20}
 UseFileLock = TRUE
 UseCacheLock = TRUE
 UseRuleLock = TRUE
 Warm = {}
 Follow = TRUE
 TraceSched <- TraceSchedC
 TraceWant <- TraceWantC
VIEW TraceView
INVARIANT NotReplayed
CHECK_DEADLOCK FALSE
"""

POOL_CFG = """SPECIFICATION Spec
CONSTANTS G = {%s}
 Rounds = %d
 EarlyPut = %s
 PartialFill = %s
INVARIANT Exclusive
INVARIANT ReadsOwn
CHECK_DEADLOCK FALSE
"""


def pool_model(ctx, g, rounds):
    """spec/RequestPool.tla: the faithful pool protocol holds; both attack variants must violate ReadsOwn."""
    ctx.tlc("RequestPool", POOL_CFG % (", ".join(str(i) for i in range(1, g + 1)), rounds, "FALSE", "FALSE"), timeout=900)
    for name, flags in (("EarlyPut", ("TRUE", "FALSE")), ("PartialFill", ("FALSE", "TRUE"))):
        r = ctx.tlc("RequestPool", POOL_CFG % ("1, 2", 2, *flags), timeout=300, expect_violation=True)
        if not r.violated:
            raise vf.Inconclusive("pool variant %s violates nothing: the pool model's invariants are vacuous" % name)
        ctx.extra.setdefault("pool_variants", {})[name] = r.violated[0]


def gset(n):
    return ", ".join(str(i) for i in range(1, n + 1))


def run(ctx):
    ctx.rule = ("(1) TLC: every interleaving of 2 (quick) / 3 (thorough) goroutines x 2 indexes of the PlusCal lock model "
                "(cache RW lock, file mutex + seek + read, per-rule mutex + lazy compile) with all locks, and each lock-removed "
                "variant must violate an invariant (attack schedules); (2) real engines under the Go race detector: 2..32 goroutines, "
                "string and file stores, cold caches, random and bundled lists, yield points perturbed, every answer compared with "
                "the sequential answer; (3) gate runs: goroutines are held inside each yield window so that another one may enter it "
                "(the attack schedules), answers compared, and the logged yield events of every run are validated by TLC as a behaviour "
                "of the lock model. distinct_nontrivial = concurrent queries + validated gate traces")
    ctx.assumptions = ["the Go race detector observes the executions the harness provokes; races on kernel state (the file offset) are "
                       "invisible to it and are covered by the gate runs and their trace validation",
                       "a time-out alone is never a verdict"]
    quick = ctx.tier == "quick"
    # ---- (1) the model ----
    g = 2 if quick else 3
    ctx.tlc("Concurrency", CFG % (gset(g), "10, 20", "TRUE", "TRUE", "TRUE"), timeout=1200)
    if not quick:
        ctx.tlc("Concurrency", CFG % (gset(3), "10, 20, 30", "TRUE", "TRUE", "TRUE"), timeout=2400)
        # four goroutines: 4.3e7 distinct states, about five minutes on 16 cores
        ctx.tlc("Concurrency", CFG % (gset(4), "10, 20", "TRUE", "TRUE", "TRUE"), timeout=3000, heap="24g")
    attacks = {}
    for name, flags in (("NoFileLock", ("FALSE", "TRUE", "TRUE")), ("NoCacheLock", ("TRUE", "FALSE", "TRUE")), ("NoRuleLock", ("TRUE", "TRUE", "FALSE"))):
        r = ctx.tlc("Concurrency", CFG % (gset(2), "10, 20", *flags), timeout=300, expect_violation=True)
        if not r.violated:
            raise vf.Inconclusive("lock-removed variant %s violates nothing: the model's invariants are vacuous" % name)
        attacks[name] = r.violated[0]
    ctx.extra["attack_variants"] = attacks
    pool_model(ctx, 2 if quick else 3, 2)
    # ---- (2) race detector ----
    ctx.build(race=True)
    ctx.build()
    tmp = os.path.join(ctx.work, "files")
    os.makedirs(tmp, exist_ok=True)
    s = ctx.vh(["conc-race", "rounds=%d" % (6 if quick else 120), "dir=" + tmp], race=True, timeout=3000,
               env={"GORACE": "halt_on_error=0 exitcode=0"}, check=False)
    if s.get("_crashed"):
        # the run did not get to its summary: the Go runtime aborts the process on some races ("fatal error: concurrent
        # map writes" and the like) - that is the library crashing under concurrent queries, not a harness problem
        err = s["_stderr"]
        fatal = [l for l in err.splitlines() if l.startswith("fatal error:")]
        if fatal or "WARNING: DATA RACE" in err:
            what = fatal[0] if fatal else "data race"
            at = err.index(fatal[0]) if fatal else err.index("WARNING: DATA RACE")
            ctx.report("the process is aborted while engines are queried concurrently: %s" % what,
                       {"reexec": ["conc-race"], "report": err[at:at + 3000], "seed": ctx.seed}, {"cause": "fatal-concurrency-error"})
            raise vf.Violated(what)
        raise vf.Inconclusive("conc-race ended without a summary (rc=%s): %s" % (s["_rc"], err[-1500:]))
    races = s["_stderr"].count("WARNING: DATA RACE")
    ctx.evaluations += s["queries"]
    ctx.nontrivial += s["queries"]
    ctx.validated += s["queries"] - s["wrong"]
    ctx.extra["race_rounds"] = s["rounds"]
    ctx.extra["race_reports"] = races
    if races:
        first = s["_stderr"][s["_stderr"].index("WARNING: DATA RACE"):][:3000]
        ctx.report("the Go race detector reports %d data race(s) while engines are queried concurrently" % races,
                   {"reexec": ["conc-race"], "report": first, "seed": ctx.seed}, {"cause": "data-race"})
    if s["wrong"]:
        ctx.report("%d concurrent answers differ from the sequential answers, e.g. %s" % (s["wrong"], s["wrong_samples"][:2]),
                   {"reexec": ["conc-race"], "samples": s["wrong_samples"], "seed": ctx.seed}, {"cause": "wrong-answer"})
    # ---- (3) gate runs + trace validation ----
    gp = os.path.join(ctx.work, "gate.ndjson")
    gs = ctx.vh(["conc-gate", "runs=%d" % (15 if quick else 400), "out=" + gp, "dir=" + tmp], timeout=3000)
    ctx.extra["window_overlaps_observed"] = gs["overlaps"]
    runs = vf.read_ndjson(gp)
    jobs, keys = [], []
    seen = set()
    for gr in runs:
        wrongs = [p for p in range(gr["g"]) if gr["answers"][p] != gr["expect"][p]]
        if wrongs:
            ctx.report("gate run holding goroutines at %s: goroutine %d asked for %r and got %r" % (
                gr["hold"], wrongs[0] + 1, gr["expect"][wrongs[0]], gr["answers"][wrongs[0]]),
                {"reexec": ["conc-gate"], "run": gr, "seed": ctx.seed}, {"cause": "wrong-answer"})
        key = json.dumps([gr["sched"], gr["want"]])
        if key in seen:
            continue
        seen.add(key)
        sched = ", ".join('<<%d, "%s">>' % (p, l) for p, l in gr["sched"])
        mod = TRACE_MOD % (sched, ", ".join(map(str, gr["want"])))
        jobs.append(dict(module="MC_ConcTrace", cfg=TRACE_CFG % gset(gr["g"]), files={"MC_ConcTrace.tla": mod},
                         timeout=600, expect_violation=True))
        keys.append(gr)
    res = ctx.tlc_parallel(jobs, procs=8) if jobs else []
    for gr, r in zip(keys, res):
        ctx.evaluations += 1
        if "NotReplayed" in r.violated:
            ctx.validated += 1          # some behaviour of the lock model performs exactly these yield events
            ctx.nontrivial += 1
        else:
            ctx.report("the yield events of a real execution are not a behaviour of the lock protocol: %s (hold at %s)" % (gr["sched"], gr["hold"]),
                       {"reexec": ["conc-gate"], "run": gr, "seed": ctx.seed}, {"cause": "trace-not-allowed"})
    ctx.extra["distinct_gate_traces"] = len(keys)
    if keys:
        ctx.sample({"gate_trace": keys[0]["sched"], "want": keys[0]["want"]})
    ctx.sample({"race_round": s["rounds"][0]})


def replay(ctx, path):
    print("concurrency findings are re-driven by seed: VERIF_SEED=<seed in the replay file> bin/check C14 %s" % ctx.tier)
    return 2
