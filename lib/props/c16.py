"""C16 - exception modifiers only ever switch cosmetic options off (DESIGN.md section 6/C16)."""
import json
import os

import vf

CFG = """INIT Init
NEXT Next
INVARIANT Emit
INVARIANT Antitone
INVARIANT UnionOfParts
INVARIANT CTypeIrrelevant
INVARIANT ReferrerIrrelevant
CHECK_DEADLOCK FALSE
"""


def replay_cases(ctx, recs):
    p = os.path.join(ctx.work, "cos-cases.ndjson")
    vf.write_ndjson(p, recs)
    mm = os.path.join(ctx.work, "cos-mismatches.ndjson")
    s = ctx.vh(["replay-cosopt", "in=" + p, "out=" + mm])
    return s, vf.read_ndjson(mm)


def run(ctx):
    ctx.rule = ("all 2^9 subsets of {elemhide, generichide, jsinject, document, urlblock, genericblock, content, extension, important} "
                "x 4 content-type modifiers (none, subdocument, script, ~image) on an exception rule, plus blocking and absent basic rules; Verdict!CosmeticOption gives the expected option; each "
                "case is replayed in two modifier orders through GetCosmeticOption, Engine.MatchRequest and Engine.GetCosmeticResult. "
                "distinct_nontrivial = cases whose expected option is not 'everything enabled'")
    ctx.build()
    ctx.tlaps("OrderLemmas")      # Antitone / NeverReEnables proved for every modifier set and every Disabled (TLAPS)
    r = ctx.tlc("MC_Cosmetic", CFG, timeout=300)
    recs = [x for x in r.records if "option" in x]
    s, mism = replay_cases(ctx, recs)
    ctx.evaluations = s["evaluations"]
    ctx.validated = s["cases"]
    ctx.nontrivial = s["nontrivial"]
    ctx.exhaustive = True
    for t in s["samples"]:
        ctx.sample(t)
    seen = set()
    for m in mism:
        k = (m["entry"], m["rule"])
        if k in seen:
            continue
        seen.add(k)
        ctx.report("%s on %r: spec %s, code %s" % (m["entry"], m["rule"], m["expected"], m["got"]),
                   {"reexec": ["replay-cosopt"], "input": [m["case"]]},
                   {"cause": "option-re-enabled" if len(m["got"] or []) > len(m["expected"] or []) else "option-lost"})


def replay(ctx, path):
    ctx.build()
    obj = json.load(open(path))
    s, mism = replay_cases(ctx, obj["input"])
    print(json.dumps({"mismatches": mism[:4]}, indent=1))
    return 1 if mism else 0
