"""C11 - every scanned rule can be retrieved by its index from any backing store (DESIGN.md section 6/C11)."""
import storagecheck


def run(ctx):
    ctx.rule = ("every storage of up to MaxLists lists (ids MinInt32, MaxInt32, 0; ignore-cosmetic on the second) with up to MaxLines "
                "lines in total drawn from 30+ line types: network/host/cosmetic rules, comments, blank and blanks-only lines, rejected "
                "lines, LF / CRLF / no final newline, padding, bodies of 4095, 4096, 4097 and 9000 bytes so that line ends fall before, "
                "on and after the 4 KiB buffer boundaries; Storage.tla gives the scan sequence with (list id, byte offset) indexes and "
                "proves RoundTrip/Injective on the model; each storage is built as in-memory AND file-backed lists, scanned, every index "
                "retrieved cold and warm, and engines built on both stores are compared. distinct_nontrivial = retrievals performed")
    ctx.assumptions = ["the reference parse of a line is the real rules.NewRule (as the property states); kind, text and list id are compared",
                       "retrieval during an open scan of the same file-backed list is outside the quantifier (DESIGN.md section 8)"]
    if ctx.tier == "quick":
        cfgs = [(2, 3, [4095, 4096, 4097, 9000]), (3, 1, [4096])]
    else:
        cfgs = [(3, 2, [4096, 9000]), (2, 3, [4095, 4096, 4097, 9000])]
    storagecheck.run(ctx, cfgs, noise=False)
    # ---- code -> spec: random byte contents validated by Trace_Storage ----
    import os
    import vf
    trace = os.path.join(ctx.work, "st-trace.ndjson")
    tmp = os.path.join(ctx.work, "files")
    os.makedirs(tmp, exist_ok=True)
    d = ctx.vh(["drive-storage", "n=%d" % (400 if ctx.tier == "quick" else 6000), "out=" + trace, "dir=" + tmp], timeout=3000)
    nev, rejects = ctx.validate_trace("Trace_Storage", trace, chunk=400, procs=(2 if ctx.tier == "quick" else 8))
    ctx.validated += nev - len(rejects)
    ctx.evaluations += nev
    ctx.nontrivial += d["rules_scanned"]
    ctx.extra["trace_storages"] = nev
    if rejects:
        events = vf.read_ndjson(trace)
        for rj in rejects[:30]:
            e = events[rj["l"] - 1]
            ctx.report("%s-backed storage from random bytes: scan/retrieval differs from the line-by-line reference parse: expected %s, scanned %s %s" % (
                e["store"], str(rj["spec"])[:300], str(rj["code"])[:300], e.get("note", "")[:200]),
                {"reexec": ["drive-storage"], "event": e, "seed": ctx.seed}, {"cause": "random-bytes", "store": e["store"]})


    scan_sessions(ctx)


SS_CFG = """CONSTANT L <- %s
CONSTANT Scanners = {a, b}
CONSTANT MaxGets = %d
CONSTANT SharedOffset = %s
SPECIFICATION Spec
INVARIANT Isolation
INVARIANT Complete
INVARIANT RetrievedRight
INVARIANT Emit
%s
CHECK_DEADLOCK FALSE
"""


def scan_sessions(ctx):
    """ScanSession.tla: scanners and retrievals of one list interleaved.  TLC checks the intended design (every reader has a
    position of its own) and refutes the named deviation FileOffsetShared; the schedules are replayed on a list in memory and
    on the same list in a file.  Readers open at the same time are outside C11's quantifier: what the replay finds is
    recorded in the evidence as an observation and never decides the verdict."""
    import os
    import vf
    quick = ctx.tier == "quick"
    lst, gets = ("List4", 1) if quick else ("List6", 2)
    r = ctx.tlc("MC_ScanSession", SS_CFG % (lst, gets, "FALSE", "PROPERTY Terminates"), timeout=1500, workers=4)
    recs = [x for x in r.records if x.get("kind") == "SCHEDULE"]
    p = os.path.join(ctx.work, "scan-schedules.ndjson")
    vf.write_ndjson(p, recs)
    tmp = os.path.join(ctx.work, "files")
    os.makedirs(tmp, exist_ok=True)
    s = ctx.vh(["replay-scansession", "in=" + p, "dir=" + tmp], timeout=3000)
    dev = ctx.tlc("MC_ScanSession", SS_CFG % (lst, gets, "TRUE", ""), timeout=600, workers=1, expect_violation=True)
    ctx.extra["scan_sessions"] = {
        "note": "observation outside the quantifier of C11 (readers of one list open at the same time); never part of the verdict",
        "schedules": s["schedules"],
        "intended_design_invariants": "Isolation, Complete, RetrievedRight, Terminates hold (TLC, %d states)" % r.distinct,
        "deviation_FileOffsetShared_refuted_by_TLC": dev.violated[:2],
        "memory_list_deviates_on": s["memory_list_deviates"],
        "file_list_deviates_on": s["file_list_deviates"],
        "memory_samples": s["memory_samples"],
        "file_samples": (s["file_samples"] or [])[:2],
    }


replay = storagecheck.replay
