"""C11 - every scanned rule can be retrieved by its index from any backing store (DESIGN.md section 6/C11)."""
import storagecheck


def run(ctx):
    ctx.rule = ("every storage of up to MaxLists lists (ids MinInt32, MaxInt32, 0; ignore-cosmetic on the second) with up to MaxLines "
                "lines in total drawn from 30+ line types: network/host/cosmetic rules, comments, blank and blanks-only lines, rejected "
                "lines, LF / CRLF / no final newline, padding, bodies of 4095, 4096, 4097 and 9000 bytes so that line ends fall before, "
                "on and after the 4 KiB buffer boundaries; Storage.tla gives the scan sequence with (list id, byte offset) indexes and "
                "proves RoundTrip/Injective on the model; each storage is built as in-memory AND file-backed lists, scanned, every index "
                "retrieved cold and warm, and engines built on both stores are compared. distinct_nontrivial = retrievals performed")
    ctx.assumptions = ["the reference parse of a line is the real rules.NewRule (as the property states); kind, text and list id are compared",
                       "retrieval during an open scan of the same file-backed list is outside the quantifier (DESIGN.md section 8)"]
    if ctx.tier == "quick":
        cfgs = [(2, 3, [4095, 4096, 4097, 9000]), (3, 1, [4096])]
    else:
        cfgs = [(3, 3, [4095, 4096, 4097, 9000])]
    storagecheck.run(ctx, cfgs, noise=False)


replay = storagecheck.replay
