"""C03 - compiled basic patterns accept exactly the documented mask language (DESIGN.md section 6/C03)."""
import progcheck


def run(ctx):
    ctx.level = "model_checking"
    ctx.rule = ("every mask pattern of 1..n tokens over a 14-token alphabet (all regex metacharacters, pipes, *, ^, /) "
                "x match-case, plus seeded random longer patterns (and the bundled lists' patterns in the thorough tier); "
                "per pattern TLC explores the product of the real compiled regexp program with the reference mask automaton "
                "over the whole printable alphabet; distinct_nontrivial = distinct (pattern, match-case) pairs that compiled")
    ctx.assumptions = ["regexp/syntax Parse+Simplify+Compile of re.String() is the program package regexp runs",
                       "syntax.Inst.MatchRune", "printable ASCII alphabet 33..126"]
    if ctx.tier == "quick":
        args = ["exh=3", "rnd=1500"]
        chunks, procs = 8, 8
    else:
        args = ["exh=4", "rnd=15000", "lists=1", "listlimit=12000"]
        chunks, procs = 32, 8
    progcheck.run(ctx, "MaskEquiv", "Equivalent", "mask", args, chunks, procs)
    ctx.exhaustive = True
    # the language is the one Match decides on real requests too: patterns instantiated into URLs (mixed case, long), the
    # answer of the real rule compared with Mask!Accepts
    progcheck.request_side(ctx, "")


def replay(ctx, path):
    return progcheck.replay(ctx, path, "mask")
