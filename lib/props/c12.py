"""C12 - parsing and matching never crash; comments and rejected lines are inert (DESIGN.md section 6/C12)."""
import os

import json

import linekindcheck
import storagecheck
import vf


def run(ctx):
    ctx.rule = ("code -> spec: grammar lines, real-list lines and byte mutations of both are parsed (NewRule), parsed network rules are "
                "matched against a request universe, batches of 40 lines are loaded into Engine/DNSEngine and queried; every call is an "
                "event validated by Trace_Lines (trichotomy nothing/rule/error, text = trimmed line, list id kept, no crash outcome); "
                "spec -> code: MC_Storage storages replayed with their noise lines removed and with the other line ending - scan and "
                "engine answers must not change. distinct_nontrivial = storages containing noise lines + parse events yielding a rule")
    ctx.assumptions = ["Trace_Lines: 'rejected' is whatever the real NewRule rejects; the exact classification is the subject of LineKind.tla "
                       "(blank = space or tab; which fields are address literals is decided by net/netip and handed to the model)"]
    quick = ctx.tier == "quick"
    storagecheck.run(ctx, [(2, 2, [4096, 9000]), (3, 1, [])] if quick else [(3, 2, [4096, 9000])], noise=True,
                     only=lambda m: m["store"] in ("denoised", "other-eol") or "panic" in m["why"])
    trace = os.path.join(ctx.work, "lines-trace.ndjson")
    n = 20000 if quick else 400000
    d = ctx.vh(["drive-lines", "n=%d" % n, "out=" + trace], timeout=3000)
    nev, rejects = ctx.validate_trace("Trace_Lines", trace, chunk=25000, procs=(2 if quick else 8))
    ctx.validated += nev - len(rejects)
    ctx.evaluations += nev
    ctx.nontrivial += d["counts"].get("parse-rule", 0)
    ctx.extra["trace_counts"] = d["counts"]
    for t in d["samples"][:4]:
        ctx.sample(t)
    if rejects:
        events = vf.read_ndjson(trace)
        seen = set()
        for rj in rejects[:100]:
            e = events[rj["l"] - 1]
            line = bytes(e["line"]).decode("latin-1")
            key = (e["ev"], e["outcome"], e.get("detail", "")[:60])
            if key in seen:
                continue
            seen.add(key)
            ctx.report("%s of line %r: outcome %s %s (text %r)" % (e["ev"], line[:200], e["outcome"], e.get("detail", "")[:300],
                                                                    bytes(e["text"]).decode("latin-1")[:100]),
                       {"reexec": ["drive-lines"], "event": e}, {"cause": e["outcome"], "ev": e["ev"]})
    # ---- what a line IS: spec/LineKind.tla against rules.NewRule (comment / cosmetic / hosts entry / network rule candidate) ----
    ctx.rule += ("; classification: every line of <= %d tokens of a 20-token alphabet with LineKind!Meaning replayed into NewRule (and, "
                 "every 7th, through a RuleScanner), plus random longer lines validated by Trace_LineKind" % (3 if quick else 4))
    linekindcheck.run(ctx, 3 if quick else 4, 20000 if quick else 300000)


def replay(ctx, path):
    obj = json.load(open(path))
    if obj.get("reexec") == ["replay-linekind"]:
        return linekindcheck.replay(ctx, obj)
    return storagecheck.replay(ctx, path)
