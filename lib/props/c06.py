"""C06 - verdict follows the documented precedence, whatever the rule order (DESIGN.md section 6/C06)."""
import verdictcheck


def run(ctx):
    ctx.rule = ("TLC enumerates every bag of <= MaxBag rules of a 27-rule pool covering exception x important x $domain-specific x "
                "document-level modifiers x $dnsrewrite x $badfilter twins x $stealth, with every set of <= MaxSrc referrer rules "
                "of an 11-rule pool; Verdict.tla gives class and admissible winners; the harness replays ALL permutations through "
                "NewMatchingResult/GetDNSBasicRule and seeded permutations x splits into 1-3 lists through Engine, NetworkEngine "
                "and DNSEngine. distinct_nontrivial = cases whose expected class is not 'none'")
    ctx.assumptions = ["$stealth is not combined with document-level modifiers (role of such a referrer rule is not fixed by the property)",
                       "class and admissible winners are compared, not the identity of the winner among equals"]
    cfgs = [(3, 1), (2, 2)] if ctx.tier == "quick" else [(4, 1), (3, 2)]      # (4, 2) would be 10^6 cases: an hour of replay
    verdictcheck.run(ctx, "verdict", cfgs, why_filter=lambda m: "outranked" not in m["why"])
    verdictcheck.trace(ctx, 6000 if ctx.tier == "quick" else 400000)


replay = verdictcheck.replay
