"""C05 - the shortcut pre-check never rejects a request the rule accepts (DESIGN.md section 6/C05)."""
import json
import os

import progcheck
import vf


def run(ctx):
    ctx.level = "model_checking"
    ctx.rule = ("mask patterns (exhaustive small + random) and regular-expression rules (exhaustive piece sequences, seeded "
                "grammar-random, every regex rule of the bundled lists) that have a shortcut; per rule TLC explores the product "
                "of the real compiled program with the KMP automaton of 'lower(url) contains shortcut' over the printable "
                "alphabet; distinct_nontrivial = distinct compiled (pattern, match-case) pairs with a non-empty shortcut")
    ctx.assumptions = ["regexp/syntax Parse+Simplify+Compile of re.String() is the program package regexp runs",
                       "syntax.Inst.MatchRune", "printable ASCII alphabet 33..126"]
    if ctx.tier == "quick":
        args = ["exh=3", "rnd=800", "regexexh=2", "regexrnd=300", "lists=1"]
        chunks, procs = 8, 8
    else:
        args = ["exh=4", "rnd=8000", "regexexh=3", "regexrnd=6000", "lists=1", "listmask=1", "listlimit=8000"]
        chunks, procs = 32, 8
    progcheck.run(ctx, "ShortcutSound", "Sound", "sc", args, chunks, procs)
    progcheck.request_side(ctx, "")


def replay(ctx, path):
    return progcheck.replay(ctx, path, "sc")
