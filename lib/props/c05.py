"""C05 - the shortcut pre-check never rejects a request the rule accepts (DESIGN.md section 6/C05)."""
import json
import os

import progcheck
import vf


def run(ctx):
    ctx.level = "model_checking"
    ctx.rule = ("mask patterns (exhaustive small + random) and regular-expression rules (exhaustive piece sequences, seeded "
                "grammar-random, every regex rule of the bundled lists) that have a shortcut; per rule TLC explores the product "
                "of the real compiled program with the KMP automaton of 'lower(url) contains shortcut' over the printable "
                "alphabet; distinct_nontrivial = distinct compiled (pattern, match-case) pairs with a non-empty shortcut")
    ctx.assumptions = ["regexp/syntax Parse+Simplify+Compile of re.String() is the program package regexp runs",
                       "syntax.Inst.MatchRune", "printable ASCII alphabet 33..126"]
    if ctx.tier == "quick":
        args = ["exh=3", "rnd=800", "regexexh=2", "regexrnd=300", "lists=1"]
        chunks, procs = 8, 8
    else:
        args = ["exh=4", "rnd=8000", "regexexh=3", "regexrnd=6000", "lists=1", "listmask=1", "listlimit=8000"]
        chunks, procs = 32, 8
    progcheck.run(ctx, "ShortcutSound", "Sound", "sc", args, chunks, procs)
    ev0, val0, non0 = ctx.evaluations, ctx.validated, ctx.nontrivial
    # ---- code -> spec: the request side (the two fields of a real request are one text; long and mixed-case URLs) ----
    tr = os.path.join(ctx.work, "shortcut-trace.ndjson")
    d = ctx.vh(["drive-shortcut", "n=%d" % (300 if ctx.tier == "quick" else 6000), "out=" + tr], timeout=3000)
    if d["panics"]:
        raise vf.Inconclusive("drive-shortcut saw %d panics" % d["panics"])
    nev, rejects = ctx.validate_trace("Trace_Shortcut", tr, chunk=(3000 if ctx.tier == "quick" else 6000), procs=(2 if ctx.tier == "quick" else 8))
    ctx.evaluations, ctx.validated, ctx.nontrivial = ev0 + nev, val0 + nev - len(rejects), non0 + d["matches"]
    ctx.extra["request_events"] = nev
    ctx.extra["request_events_accepting"] = d["matches"]
    ctx.extra["request_events_over_4KiB"] = d["long_urls"]
    for t in d["samples"][:3]:
        ctx.sample({"request_event": t})
    ctx.rule += ("; request side: every sampled pattern instantiated into 7 URLs (plain, mixed/upper case, match behind / across / before "
                 "the 4 KiB cut, long tail) -> NewRequest -> Match with and without the shortcut, validated by Trace_Shortcut")
    if rejects:
        events = vf.read_ndjson(tr)
        done = set()
        for rj in rejects:
            e = events[rj["l"] - 1]
            k = (e["text"], e["variant"], rj["why"])
            if k in done or len(done) > 60:
                continue
            done.add(k)
            ctx.report("rule %r on a %d-byte URL (%s): %s: spec %s, code %s" % (e["text"], e["url_len"], e["variant"], rj["why"], rj["spec"], rj["code"]),
                       {"reexec": ["drive-shortcut"], "event": e, "seed": ctx.seed}, {"cause": "request-side", "kind": rj["why"]})


def replay(ctx, path):
    obj = json.load(open(path))
    if obj.get("reexec") == ["drive-shortcut"]:
        ctx.build()
        tr = os.path.join(ctx.work, "shortcut-trace.ndjson")
        e = obj["event"]
        os.environ["VERIF_SEED"] = str(obj.get("seed", 1))
        ctx.vh(["drive-shortcut", "n=%d" % (300 if ctx.tier == "quick" else 6000), "out=" + tr], timeout=3000)
        nev, rejects = ctx.validate_trace("Trace_Shortcut", tr, chunk=6000, procs=4)
        events = vf.read_ndjson(tr)
        hit = [rj for rj in rejects if events[rj["l"] - 1]["text"] == e["text"] and events[rj["l"] - 1]["variant"] == e["variant"]]
        print(json.dumps({"rejected_again": len(hit), "all_rejects": len(rejects)}))
        return 1 if hit else 0
    return progcheck.replay(ctx, path, "sc")
