"""C09 - effective DNS rewrites apply every matching exception, in any order (DESIGN.md section 6/C09)."""
import json
import os
import random

import vf

CFG = """CONSTANT Core = {%s}
CONSTANT MaxLen = %d
INIT Init
NEXT Next
INVARIANT Emit
INVARIANT NoException
INVARIANT PositionFree
INVARIANT LoopAgrees
INVARIANT ImportantSafe
CHECK_DEADLOCK FALSE
"""
NV = 18           # values in MC_Rewrites!Vals; symbol k = 4*(value-1) + 1 + important + 2*exception
EMPTY = 18


def sym(v, important, exc):
    return 4 * (v - 1) + 1 + (1 if important else 0) + (2 if exc else 0)


def core(rnd):
    """8-symbol core: a rewrite, its exception, an important variant, an empty-valued exception, a structured value and its
    exception, plus two seeded others."""
    v = rnd.choice([1, 2, 4, 5, 6, 7, 8, 9, 16])
    st = rnd.choice([10, 11, 12, 14])
    c = {sym(v, False, False), sym(v, False, True), sym(v, True, False), sym(EMPTY, rnd.random() < 0.5, True),
         sym(st, False, False), sym(st, False, True)}
    if v == 1:
        c.add(sym(3, False, True))      # the long spelling of the same A value
    if v == 16:
        c.add(sym(17, False, True))     # the long spelling of the same mixed-case canonical name
    if st == 14:
        c.add(sym(15, False, False))    # the same binding for another target: the exception must leave it alone
    while len(c) < 8:
        c.add(sym(rnd.randint(1, NV - 1), rnd.random() < 0.3, rnd.random() < 0.4))
    return sorted(c)


def replay_cases(ctx, recs, tag):
    p = os.path.join(ctx.work, "rw-cases-%s.ndjson" % tag)
    vf.write_ndjson(p, recs)
    mm = os.path.join(ctx.work, "rw-mismatches-%s.ndjson" % tag)
    s = ctx.vh(["replay-rewrites", "in=" + p, "out=" + mm], timeout=3000)
    return s, vf.read_ndjson(mm)


def run(ctx):
    ctx.rule = ("spec -> code: every sequence of distinct symbols up to MaxLen over seeded 8-symbol core alphabets (a rewrite, its "
                "exception, an important variant, an empty-valued exception, a structured MX/SRV/HTTPS value with its exception) "
                "and up to length 2/3 over the full 70-symbol alphabet (18 values x important x exception), replayed through "
                "DNSResult.DNSRewrites directly and through the DNS engine; code -> spec: seeded random lists up to length 20 "
                "validated by Trace_Rewrites. distinct_nontrivial = cases where at least one rule is filtered out")
    ctx.assumptions = ["'empty-valued' is defined on the parsed value ($dnsrewrite= and NOERROR parse alike)",
                       "$badfilter on rewrite rules belongs to C08"]
    ctx.build()
    quick = ctx.tier == "quick"
    rnd = random.Random(ctx.seed)
    full = ",".join(str(k) for k in range(1, 4 * NV + 1))
    plans = [(",".join(map(str, core(rnd))), 5 if quick else 6) for _ in range(1 if quick else 6)]
    plans.append((full, 2 if quick else 3))
    n = 0
    for cs, maxlen in plans:
        n += 1
        r = ctx.tlc("MC_Rewrites", CFG % (cs, maxlen), timeout=1500)
        recs = [x for x in r.records if x.get("kind") in ("ALPHABET", "CASE")]
        s, mism = replay_cases(ctx, recs, str(n))
        ctx.evaluations += s["evaluations"]
        ctx.validated += s["cases"]
        ctx.nontrivial += s["nontrivial"]
        for smp in s["samples"] or []:
            ctx.sample(smp)
        alpha = [x for x in recs if x["kind"] == "ALPHABET"]
        seen = set()
        for m in mism:
            k = (tuple(m["list"]),)
            if k in seen:
                continue
            seen.add(k)
            ctx.report("%s: list %s: spec %s, code %s %s" % (m["entry"], m["list"], m["expected"], m["got"], m["panic"]),
                       {"reexec": ["replay-rewrites"], "input": alpha + [m["case"]]}, {"cause": m["cause"]})
    # ---- code -> spec ----
    trace = os.path.join(ctx.work, "rw-trace.ndjson")
    d = ctx.vh(["drive-rewrites", "n=%d" % (6000 if quick else 400000), "out=" + trace])
    nev, rejects = ctx.validate_trace("Trace_Rewrites", trace, procs=(2 if quick else 8))
    ctx.validated += nev - len(rejects)
    ctx.evaluations += nev
    ctx.nontrivial += d["nontrivial"]
    ctx.extra["trace_events"] = nev
    for smp in d["samples"]:
        ctx.sample(smp)
    if rejects:
        events = vf.read_ndjson(trace)
        seen = set()
        for rj in rejects[:100]:
            e = events[rj["l"] - 1]
            k = tuple(e["list"])
            if k in seen:
                continue
            seen.add(k)
            ctx.report("%s: list %s: spec keeps positions %s of DNSRewritesAll, code keeps %s" % (e["entry"], e["list"], rj["spec"], rj["code"]),
                       {"reexec": ["drive-rewrites"], "list": e["list"], "entry": e["entry"], "spec_positions": rj["spec"]},
                       {"cause": "trace"})
    ctx.exhaustive = True


def replay(ctx, path):
    ctx.build()
    obj = json.load(open(path))
    if obj["reexec"] == ["replay-rewrites"]:
        s, mism = replay_cases(ctx, obj["input"], "replay")
        print(json.dumps({"mismatches": [{k: m[k] for k in ("entry", "list", "expected", "got")} for m in mism[:4]]}, indent=1))
        return 1 if mism else 0
    print("trace replays are re-driven by the seeded driver: VERIF_SEED=%d bin/check C09 %s" % (ctx.seed, ctx.tier))
    return 2
