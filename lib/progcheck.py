"""Shared driver of C03 (mask language equivalence) and C05 (shortcut soundness):
export compiled programs from the real code, let TLC explore the product automata,
confirm every TLC witness on the real code."""
import json
import os

import vf

CFG = """INIT Init
NEXT Next
VIEW View
INVARIANT %s
INVARIANT PartitionOK
CHECK_DEADLOCK FALSE
"""


def run(ctx, module, inv, mode, export_args, chunks, procs=4, timeout=1500):
    ctx.build()
    prefix = os.path.join(ctx.work, "cases")
    s = ctx.vh(["export-progs", "kind=" + mode, "out=" + prefix, "chunks=%d" % chunks] + export_args)
    ncases = s["cases"]
    if ncases == 0:
        raise vf.Inconclusive("exporter produced no cases")
    ctx.extra["programs"] = ncases
    ctx.extra["export_status"] = s["status"]
    ctx.extra["export_skipped"] = s["skipped"]
    jobs = []
    for i in range(chunks):
        p = "%s-%d.ndjson" % (prefix, i)
        if os.path.getsize(p) == 0:
            continue
        jobs.append(dict(module=module, cfg=CFG % inv, files={"cases.ndjson": p}, cont=True, timeout=timeout))
    runs = ctx.tlc_parallel(jobs, procs=procs)
    diffs = {}
    for r in runs:
        for rec in r.records:
            if rec.get("kind") == "BADPARTITION":
                raise vf.Inconclusive("exporter proposed a wrong alphabet partition for case %s" % rec.get("id"))
            if rec.get("kind") == "DIFF":
                old = diffs.get(rec["id"])
                if old is None or len(rec["w"]) < len(old["w"]):
                    diffs[rec["id"]] = rec
        for v in r.violated:
            if v not in ("Equivalent", "Sound", "PartitionOK"):
                raise vf.Inconclusive("unexpected TLC violation %s (log %s)" % (v, r.log))
    dpath = os.path.join(ctx.work, "diffs.ndjson")
    vf.write_ndjson(dpath, [diffs[k] for k in sorted(diffs)])
    cpath = os.path.join(ctx.work, "confirm.ndjson")
    cs = ctx.vh(["confirm-progs", "mode=" + mode, "kind=" + mode, "diffs=" + dpath, "out=" + cpath, "all=" + prefix + "-all.ndjson"] + export_args)
    confirms = vf.read_ndjson(cpath)
    if cs["unfaithful"]:
        bad = [c for c in confirms if not c["model_faithful"]][:3]
        raise vf.Inconclusive("Pike model disagrees with the real regexp on %d witnesses, e.g. %s" % (cs["unfaithful"], bad))
    ctx.evaluations = ncases
    ctx.validated = ncases          # every exported program was decided against the spec
    ctx.extra["disagreements_checked"] = len(confirms)
    allc = vf.read_ndjson(prefix + "-all.ndjson")
    ctx.nontrivial = len({c["pats"] + ("#mc" if c["mc"] else "") for c in allc if c["status"] == "ok"})
    kinds = {}
    for c in allc:
        kinds[c["kind"]] = kinds.get(c["kind"], 0) + 1
    ctx.extra["rules_by_kind"] = kinds
    for c in allc[:: max(1, len(allc) // 8)][:8]:
        ctx.sample({"rule": c["rule"], "status": c["status"], "shortcut": "".join(map(chr, c["sc"]))})
    lost = []
    for c in confirms:
        if not c["confirmed"]:
            if c.get("panic") or c["status"] == "panic":
                continue
            # a defect that makes the corpus itself unstable (a pooled buffer: the same rule gets another shortcut in
            # the confirmation run) loses some witnesses; the ones that do reproduce are reported, and only if none
            # does is the run inconclusive
            lost.append(c)
            continue
        sig = {"cause": c.get("cause", ""), "kind": c["kind"]}
        if mode == "mask":
            what = "pattern %r (rule %r): %s on %r" % (c["pattern"], c["rule"], c.get("cause"), c["witness"])
        else:
            what = "rule %r shortcut %r: pattern accepts %r but lower-cased URL lacks the shortcut (%s)" % (
                c["rule"], c["shortcut"], c["witness"], c.get("cause"))
        ctx.report(what, {"check": module, "case": c}, sig)
    ctx.extra["witnesses_not_reproduced"] = len(lost)
    if lost and not ctx.violations:
        raise vf.Inconclusive("TLC witness did not reproduce on the real code: %s" % json.dumps(lost[0]))
    return confirms


def replay(ctx, path, mode):
    """Re-executes one reported witness (a confirm record) on a freshly parsed rule."""
    ctx.build()
    obj = json.load(open(path))
    cp = os.path.join(ctx.work, "case.json")
    with open(cp, "w") as f:
        json.dump(obj["case"], f)
    r = ctx.vh(["replay-prog", "mode=" + mode, "in=" + cp])
    print(json.dumps(r, indent=1))
    return 1 if r["violates_again"] else 0
