"""Shared driver of C03 (mask language equivalence) and C05 (shortcut soundness):
export compiled programs from the real code, let TLC explore the product automata,
confirm every TLC witness on the real code."""
import json
import os

import vf

CFG = """INIT Init
NEXT Next
VIEW View
INVARIANT %s
INVARIANT PartitionOK
CHECK_DEADLOCK FALSE
"""


def run(ctx, module, inv, mode, export_args, chunks, procs=4, timeout=1500):
    ctx.build()
    prefix = os.path.join(ctx.work, "cases")
    s = ctx.vh(["export-progs", "kind=" + mode, "out=" + prefix, "chunks=%d" % chunks] + export_args)
    ncases = s["cases"]
    if ncases == 0:
        raise vf.Inconclusive("exporter produced no cases")
    ctx.extra["programs"] = ncases
    ctx.extra["export_status"] = s["status"]
    ctx.extra["export_skipped"] = s["skipped"]
    jobs = []
    for i in range(chunks):
        p = "%s-%d.ndjson" % (prefix, i)
        if os.path.getsize(p) == 0:
            continue
        jobs.append(dict(module=module, cfg=CFG % inv, files={"cases.ndjson": p}, cont=True, timeout=timeout))
    runs = ctx.tlc_parallel(jobs, procs=procs)
    diffs = {}
    for r in runs:
        for rec in r.records:
            if rec.get("kind") == "BADPARTITION":
                raise vf.Inconclusive("exporter proposed a wrong alphabet partition for case %s" % rec.get("id"))
            if rec.get("kind") == "DIFF":
                old = diffs.get(rec["id"])
                if old is None or len(rec["w"]) < len(old["w"]):
                    diffs[rec["id"]] = rec
        for v in r.violated:
            if v not in ("Equivalent", "Sound", "PartitionOK"):
                raise vf.Inconclusive("unexpected TLC violation %s (log %s)" % (v, r.log))
    dpath = os.path.join(ctx.work, "diffs.ndjson")
    vf.write_ndjson(dpath, [diffs[k] for k in sorted(diffs)])
    cpath = os.path.join(ctx.work, "confirm.ndjson")
    cs = ctx.vh(["confirm-progs", "mode=" + mode, "kind=" + mode, "diffs=" + dpath, "out=" + cpath, "all=" + prefix + "-all.ndjson"] + export_args)
    confirms = vf.read_ndjson(cpath)
    if cs["unfaithful"]:
        bad = [c for c in confirms if not c["model_faithful"]][:3]
        raise vf.Inconclusive("Pike model disagrees with the real regexp on %d witnesses, e.g. %s" % (cs["unfaithful"], bad))
    ctx.evaluations = ncases
    ctx.validated = ncases          # every exported program was decided against the spec
    ctx.extra["disagreements_checked"] = len(confirms)
    allc = vf.read_ndjson(prefix + "-all.ndjson")
    ctx.nontrivial = len({c["pats"] + ("#mc" if c["mc"] else "") for c in allc if c["status"] == "ok"})
    kinds = {}
    for c in allc:
        kinds[c["kind"]] = kinds.get(c["kind"], 0) + 1
    ctx.extra["rules_by_kind"] = kinds
    for c in allc[:: max(1, len(allc) // 8)][:8]:
        ctx.sample({"rule": c["rule"], "status": c["status"], "shortcut": "".join(map(chr, c["sc"]))})
    lost = []
    for c in confirms:
        if not c["confirmed"]:
            if c.get("panic") or c["status"] == "panic":
                continue
            # a defect that makes the corpus itself unstable (a pooled buffer: the same rule gets another shortcut in
            # the confirmation run) loses some witnesses; the ones that do reproduce are reported, and only if none
            # does is the run inconclusive
            lost.append(c)
            continue
        sig = {"cause": c.get("cause", ""), "kind": c["kind"]}
        if mode == "mask":
            what = "pattern %r (rule %r): %s on %r" % (c["pattern"], c["rule"], c.get("cause"), c["witness"])
        else:
            what = "rule %r shortcut %r: pattern accepts %r but lower-cased URL lacks the shortcut (%s)" % (
                c["rule"], c["shortcut"], c["witness"], c.get("cause"))
        ctx.report(what, {"check": module, "case": c}, sig)
    ctx.extra["witnesses_not_reproduced"] = len(lost)
    if lost and not ctx.violations:
        raise vf.Inconclusive("TLC witness did not reproduce on the real code: %s" % json.dumps(lost[0]))
    return confirms


def replay(ctx, path, mode):
    """Re-executes one reported witness (a confirm record) on a freshly parsed rule."""
    ctx.build()
    obj = json.load(open(path))
    if obj.get("reexec") == ["drive-shortcut"]:
        tr = os.path.join(ctx.work, "shortcut-trace.ndjson")
        e = obj["event"]
        ctx.seed = obj.get("seed", 1)
        ctx.vh(["drive-shortcut", "n=%d" % (300 if ctx.tier == "quick" else 6000), "out=" + tr], timeout=3000)
        nev, rejects = ctx.validate_trace("Trace_Shortcut", tr, chunk=6000, procs=4)
        events = vf.read_ndjson(tr)
        hit = [rj for rj in rejects if events[rj["l"] - 1]["text"] == e["text"] and events[rj["l"] - 1]["variant"] == e["variant"]]
        print(json.dumps({"rejected_again": len(hit), "all_rejects": len(rejects)}))
        return 1 if hit else 0
    cp = os.path.join(ctx.work, "case.json")
    with open(cp, "w") as f:
        json.dump(obj["case"], f)
    r = ctx.vh(["replay-prog", "mode=" + mode, "in=" + cp])
    print(json.dumps(r, indent=1))
    return 1 if r["violates_again"] else 0


def request_side(ctx, prop_note):
    """code -> spec, the request side: every sampled pattern instantiated into 7 URLs (plain, mixed/upper case, match behind /
    across / before the 4 KiB cut, long tail) -> NewRequest -> Match with and without the shortcut, validated by
    Trace_Shortcut (the two answers agree, URLLowerCase is the lower-cased URL, short URLs: the answer is Mask!Accepts)."""
    ev0, val0, non0 = ctx.evaluations, ctx.validated, ctx.nontrivial
    # ---- code -> spec: the request side (the two fields of a real request are one text; long and mixed-case URLs) ----
    tr = os.path.join(ctx.work, "shortcut-trace.ndjson")
    d = ctx.vh(["drive-shortcut", "n=%d" % (300 if ctx.tier == "quick" else 6000), "out=" + tr], timeout=3000)
    if d["panics"]:
        raise vf.Inconclusive("drive-shortcut saw %d panics" % d["panics"])
    nev, rejects = ctx.validate_trace("Trace_Shortcut", tr, chunk=(3000 if ctx.tier == "quick" else 6000), procs=(2 if ctx.tier == "quick" else 8))
    ctx.evaluations, ctx.validated, ctx.nontrivial = ev0 + nev, val0 + nev - len(rejects), non0 + d["matches"]
    ctx.extra["request_events"] = nev
    ctx.extra["request_events_accepting"] = d["matches"]
    ctx.extra["request_events_over_4KiB"] = d["long_urls"]
    for t in d["samples"][:3]:
        ctx.sample({"request_event": t})
    ctx.rule += (prop_note + "; request side: every sampled pattern instantiated into 7 URLs (plain, mixed/upper case, match behind / across / before "
                 "the 4 KiB cut, long tail) -> NewRequest -> Match with and without the shortcut, validated by Trace_Shortcut")
    if rejects:
        events = vf.read_ndjson(tr)
        done = set()
        for rj in rejects:
            e = events[rj["l"] - 1]
            k = (e["text"], e["variant"], rj["why"])
            if k in done or len(done) > 60:
                continue
            done.add(k)
            ctx.report("rule %r on a %d-byte URL (%s): %s: spec %s, code %s" % (e["text"], e["url_len"], e["variant"], rj["why"], rj["spec"], rj["code"]),
                       {"reexec": ["drive-shortcut"], "event": e, "seed": ctx.seed}, {"cause": "request-side", "kind": rj["why"]})


