#!/usr/bin/env python3
"""Regenerates MANIFEST.json from the table below (one source of truth for the registered checks)."""
import json
import os

VERIF = os.path.dirname(os.path.dirname(os.path.abspath(__file__)))
TITLES = {}
for line in open(os.path.join(VERIF, "properties.jsonl")):
    p = json.loads(line)
    TITLES[p["id"]] = p["title"]

# id -> (category, technique, level text, level note, design ref)
CHECKS = {
 "C03": ("model_checking",
         "TLC product-automaton equivalence: exported regexp/syntax program x TLA+ mask-language NFA, per pattern, all strings",
         "Per pattern, TLC explores the determinised product of the regexp program the implementation really compiled (exported through the verif hook) with the reference automaton of the documented mask language written in TLA+ (spec/Mask.tla), over the whole printable alphabet; the invariant 'same accept verdict in every reachable product state' is language equality for ALL strings, exhaustively for every pattern of up to 3 (quick) / 4 (thorough) tokens x match-case and for seeded random and real-list patterns. Every witness and every crash is re-executed on the real rule before it is reported.",
         "Trusted: regexp/syntax (the parser/compiler package regexp itself uses) and Inst.MatchRune; alphabet 33..126; TLC. The reference for || and ^ is the documented constant, patterns equal to '', '|', '||', '*' are read as 'any address'.",
         "6/C03"),
 "C05": ("model_checking",
         "TLC product-automaton emptiness: exported regexp/syntax program x KMP automaton of the rule's shortcut, per rule, all strings",
         "Per rule (mask and regular-expression rules, including every regex rule of the bundled lists) TLC explores the product of the really compiled program with the Knuth-Morris-Pratt automaton of 'lower(url) contains shortcut' (spec/ShortcutSound.tla); the invariant 'accepted => shortcut seen' is emptiness of L(pattern) minus 'contains shortcut' for ALL strings. Witnesses are confirmed on the real Match/regexp before being reported.",
         "Trusted: regexp/syntax, Inst.MatchRune, alphabet 33..126, TLC. Programs above 400 instructions are skipped and counted.",
         "6/C05"),
 "C04": ("model_checking",
         "TLC-enumerated rule x request rows of the TLA+ Match conjunction replayed into NetworkRule.Match; TLC trace validation of grammar-random executions",
         "The specification (spec/Rule.tla, Domains.tla, Mask.tla) states Match as the conjunction of the mask pattern on the proper target and every modifier. TLC enumerates every value set of each modifier family and pairs of families against a structured request universe and checks monotonicity/axioms; every row is replayed into the real parser and Match in three renderings (value orders, spellings). In the other direction a seeded grammar driver (any subset of modifiers, 1-6 values, IPv4/IPv6/CIDR/quoted clients) runs the real code and TLC validates every event against the same operator.",
         "Trusted: TLC; the renderer (abstract rule -> text), cross-checked against the parsed rule's exported accessors; PSL answers and derived request fields are logged environment inputs; mask patterns only (regex rules are Go regexp semantics).",
         "6/C04"),
 "C06": ("model_checking",
         "TLC enumeration of bags of matching rules with the TLA+ verdict meaning; every permutation and split replayed through the five API entry points",
         "spec/Verdict.tla defines the verdict class on BAGS (badfilter removal, rewrite/stealth exclusion, referrer-level urlblock/genericblock, class precedence) and, separately, the implementation's left-to-right scan; TLC enumerates every bag of up to 3 (quick) / 4 (thorough) rules of a feature-complete pool with every set of up to 2 referrer rules, checks that the scan agrees with the bag meaning for every permutation, and emits class and admissible winners; the harness replays all permutations through NewMatchingResult and GetDNSBasicRule and seeded permutations x list splits through Engine.MatchRequest, NetworkEngine.Match and DNSEngine.MatchRequest.",
         "Trusted: TLC, the renderer (pool rules are cross-checked against the parsed rule's accessors and must all match the replay request). Class and admissible winners are compared, never the identity among equals. $stealth is not combined with document-level modifiers.",
         "6/C06"),
 "C08": ("model_checking",
         "TLC enumeration of bags with $badfilter twins and near twins (TwinNeutral / OnlyTwins theorems); all permutations replayed through the five entry points",
         "Verdict!RemoveBadfilter and Rule!Twin state that a $badfilter rule disables exactly the rules equal to it apart from that modifier. TLC enumerates bags from a pool made of a rule carrying every list-valued modifier, its twin, twelve near twins (one differing modifier value each) with their own twins, and plain/exception/rewrite rules with twins, checks TwinNeutral and OnlyTwins on the model and emits the verdicts; the harness replays every permutation through NewMatchingResult, GetDNSBasicRule and the engines.",
         "Trusted: TLC, the renderer. Twins are produced by appending ',badfilter' to the same text.",
         "6/C08"),
 "C07": ("model_checking",
         "complete observed priority relation (all ordered pairs of a feature-product pool) validated by TLC against the strict-weak-order laws and the documented criteria; selection replayed over all permutations",
         "spec/MC_Priority.tla builds the pool as the cartesian product of every feature the comparison reads (288 rules quick, 1728 thorough) and checks that the intended rank-induced relation is a strict weak order; the harness evaluates the real IsHigherPriority on EVERY ordered pair (including (a,a)) and spec/Trace_Priority.tla checks irreflexivity, asymmetry, the rank characterisation R(a,b) <=> outdeg(a) > outdeg(b) (equivalent to 'strict weak order'), class-first / specific-over-generic / more-modifiers-higher, and on the 288-pool transitivity and transitivity of ties on all 23.9 M triples directly. The 'winner is never outranked' half replays every permutation of every candidate bag (MC_Verdict) through the five entry points and compares the reported rule with all candidates using the code's own relation.",
         "Trusted: TLC, the renderer. The code's own relation is tested against the laws; a different lawful tie-break does not alarm.",
         "6/C07"),
 "C16": ("model_checking",
         "TLC enumeration of all 2^9 exception-modifier subsets with the TLA+ CosmeticOption meaning (antitone theorem); replay through GetCosmeticOption and the engine",
         "Verdict!CosmeticOption states the option as All minus the union of what each modifier disables; TLC enumerates all 512 subsets plus the blocking and absent basic rule, checks the antitone and union-of-parts theorems, and every case is replayed in two modifier orders through NewMatchingResult.GetCosmeticOption, Engine.MatchRequest and Engine.GetCosmeticResult (decoding the option through the selectors actually returned). Exhaustive in both tiers.",
         "Trusted: TLC; the rule text is the modifier list itself.",
         "6/C16"),
 "C09": ("model_checking",
         "TLC enumeration of all sequences of distinct rewrite symbols with the TLA+ Effective/Disables meaning; replay into DNSRewrites directly and through the DNS engine; TLC trace validation of random long lists",
         "spec/Rewrites.tla defines Disables by cases and Effective with a quantifier over all positions (so the position of an exception cannot matter), plus the two-pass algorithm and, as a named deviation, the index-skipping loop of the pinned tree. TLC enumerates every sequence of distinct symbols up to length 5 (quick) / 6 (thorough) over seeded 8-symbol cores and up to length 2/3 over the full 70-symbol alphabet (18 values x important x exception), checks NoException, PositionFree, LoopAgrees and ImportantSafe, and each sequence is replayed through DNSResult.DNSRewrites (direct construction, exact order) and DNSEngine.MatchRequest; compared as sequences of rule texts against Effective of what DNSRewritesAll returned. Random lists up to length 20 with values outside the table are validated by Trace_Rewrites.",
         "Trusted: TLC; the symbol table is cross-checked against the parsed DNSRewrite fields and the value partition against reflect.DeepEqual. Empty-valued is defined on the parsed value.",
         "6/C09"),
 "C10": ("model_checking",
         "TLC enumeration of the abstract $dnsrewrite value grammar with expected outcome/shape replayed into the parser; TLC trace validation of ShapeOK on mutated values",
         "spec/RewriteValue.tla states the published contract (ShapeOK) and the expected outcome of every abstract value of the grammar (short forms, response code x record type x value class with field counts and numeric bounds). TLC enumerates all of them, checks that every expected shape satisfies ShapeOK, and the harness parses 1-6 spellings of each with the real NewNetworkRule comparing error/shape/dynamic type; a seeded driver with byte mutations records every parse (twice, for determinism) and TLC validates ShapeOK on every accepted value.",
         "Trusted: TLC; the table from value classes to spellings. Mutated values are held to ShapeOK, determinism and crash-freedom only.",
         "6/C10"),
 "C17": ("model_checking",
         "TLC enumeration of contract URLs x PSL rule kinds with the TLA+ hostname scanner and eTLD+1 meaning replayed into NewRequest; TLC trace validation of a Public Suffix List sweep with net/url and publicsuffix answers as logged environment inputs",
         "spec/Request.tla gives the hostname scanner over URL characters, the 4 KiB cap, lower-casing, registrable domain and third-party from PSL answers (Domains.tla). TLC enumerates scheme x host (one of every PSL rule kind, single label, IPv4) x port x tail x source, proves on the model that the scanner recovers the host of every contract URL and that third-party is symmetric, and every case is replayed into NewRequest/NewRequestForHostname/ExtractHostname. A sweep over the real Public Suffix List (all wildcard and exception rules, sampled or all others, with 0/1/2 extra labels, mixed case, >4 KiB URLs) is validated by Trace_Request, with net/url's hostname and publicsuffix's answers logged as environment inputs.",
         "Trusted: TLC, net/url, golang.org/x/net/publicsuffix (the reference libraries the property names); the model's abstract PSL is checked against the real list on every host used.",
         "6/C17"),
 "C18": ("model_checking",
         "TLC enumeration of abstract hosts(5) lines (address class x names x separators x comment shapes x trailing blanks) with the TLA+ line meaning; replay through NewRule, NewHostRule and the DNS engine",
         "spec/HostLine.tla defines the rule a hosts line yields (address, listed names, family group, name matching) and checks that comment, separators and trailing blanks are inert; TLC enumerates every abstract line (up to 2 names quick / 3 thorough from a 4-name pool) and each is rendered in several spellings and checked through NewRule, NewHostRule and DNSEngine.Match (listed names in the right IPv4/IPv6 group; names one character shorter or longer not found).",
         "Trusted: TLC, the table from abstract line parts to text. Comment text avoids cosmetic markers (outside the contract).",
         "6/C18"),
 "C20": ("model_checking",
         "TLC enumeration of segment-encoded bodies around the 16 KiB boundary with the TLA+ injection-offset meaning; byte-exact replay through filterHTML (plain and gzip) via the verif hook",
         "spec/Proxy.tla models a body as segments with real integer lengths and defines the inspected prefix (16 KiB of the Latin-1 -> UTF-8 transcoding), the first in-window marker and the resulting insertion offset; TLC enumerates fillers of ASCII/high/NUL bytes, near-markers, the four markers in three letter cases, at every offset from 16384-9 to 16384+1 of both the original and the transcoded text, with second markers and marker-free bodies, and checks FirstMarker; the harness renders the bytes, sends them plain and gzip-encoded through the real filterHTML and compares output bytes, declared length and encoding header.",
         "Trusted: TLC, the byte renderer, compress/gzip. In the ambiguous zone (marker within 16 KiB of the original but beyond 16 KiB of the transcoding) either outcome is accepted; byte preservation and length are always required.",
         "6/C20"),
 "C15": ("model_checking",
         "TLC enumeration of rule sets x hostnames x option flags with the TLA+ cosmetic meaning (sub-domain and wildcard-TLD semantics, exceptions); replay through CosmeticEngine.Match and Engine.GetCosmeticResult",
         "spec/Cosmetic.tla defines which element-hiding rules apply to a hostname (listed domains and their sub-domains, wildcard TLD through PSL answers, excluded domains), which are cancelled by an applicable exception with the same selector, and how the CSS / generic-CSS flags filter and file the selectors. TLC enumerates every set of up to 3 (quick) / 5 (thorough) rules of an 18-rule pool on 10 hostnames and checks FlagsOK and SubdomainsCovered; each set is loaded in seeded order/splits into the real engines and all 8 flag combinations are compared as selector sets.",
         "Trusted: TLC, the renderer (cross-checked against NewCosmeticRule's fields); the model's PSL is checked against the real list on every host.",
         "6/C15"),
 "C11": ("model_checking",
         "TLC enumeration of storages (lists x line types x 4 KiB boundary lengths) with the TLA+ scan/index/retrieval meaning (RoundTrip, Injective theorems); replay on in-memory and file-backed lists",
         "spec/Storage.tla abstracts a line to what determines byte offsets and meaning (kind, body length, padding, end-of-line), defines the scan sequence with (list id, byte offset) indexes and retrieval by index, and TLC proves RoundTrip, Injective and DistinctIds on every enumerated storage; line bodies of 4095/4096/4097/9000 bytes put the newline before, on and after the read-buffer boundaries. Each storage is rendered to real bytes (the reference parse of every line is the real NewRule), built as StringRuleList AND as FileRuleList on real temp files with ids MinInt32/MaxInt32/0, scanned, every yielded index decoded and retrieved cold and warm, and engines on both stores compared.",
         "Trusted: TLC, the byte renderer (self-checked: rendered sizes must equal the model's, every line must parse to the stated kind). Index pairs are projected from the int64 by the documented layout (id in the high, offset in the low 32 bits).",
         "6/C11"),
 "C12": ("model_checking",
         "TLC trace validation of parse / match / engine events from a seeded mutation driver against the parse trichotomy (no crash outcome); TLC-enumerated storages replayed with noise lines removed and line endings switched",
         "spec/Lines.tla allows exactly three outcomes of parsing a line (nothing / rule with text = trimmed line and the given list id / error); a panic anywhere is an outcome the specification does not have. A seeded driver parses grammar lines, real-list lines and byte mutations of both, matches every parsed network rule against a request universe and loads batches into Engine and DNSEngine which are then queried; TLC validates every event (Trace_Lines). Storage!NoiseInert states that comment, blank and rejected lines do not change what a scan delivers; every MC_Storage storage is replayed against its denoised and its other-line-ending variant, comparing scans and engine answers.",
         "Trusted: TLC; strings.TrimSpace is logged as environment input. Breadth of crash hunting comes from the drivers, not from the model.",
         "6/C12"),
 "C01": ("model_checking",
         "TLC model of the three lookup tables run with REAL djb2 values (genuine collisions found by birthday search) over all insertion sequences, lookup = scan invariant; replay through RuleStorage + NetworkEngine against rule.Match; TLC trace validation on bundled lists",
         "spec/NetIndex.tla models the histogram, shortcut, domain and sequential tables, AddRule's eligibility/least-used-window policy and MatchAll's probing with the rule re-check; the hash is a parameter instantiated with the real djb2 values exported by the harness, which include two pairs of genuinely colliding 5-character windows and a pair of colliding domain names. TLC explores every insertion sequence of up to 2 rules of the 59-rule pool and up to 3-4 of seeded sub-pools, checks LookupEqualsScan against 280 queries on the model and emits the expected sets; every sequence is loaded through RuleStorage and NewNetworkEngine (one and two lists) and texts(MatchAll) is compared with the specification and with the linear scan by rule.Match. The bundled real-world lists x requests.json are validated by Trace_NetIndex.",
         "Trusted: TLC, rule.Match as the reference the property names, the pool renderer (shortcut and permitted domains cross-checked on the parsed rule).",
         "6/C01"),
 "C02": ("model_checking",
         "TLC enumeration of rule/hosts-entry sets with the TLA+ reference resolution (host-level filter, Rule!Match, DNS verdict, hashed host table with REAL colliding hostnames); replay through NewDNSEngine/MatchRequest",
         "spec/DNSEngine.tla defines the reference answer over ALL entries of the lists (DNS-applicable rules that match via Rule!Match and Rule!HostLevel, Verdict!DNSClass, hosts entries naming the host split by family, matched flag) and the hashed host table with its name re-check; TLC enumerates every set of up to 3 (quick) / 4 (thorough) entries of a 41-entry pool against 48 requests, with the real djb2 values of the hostnames (two of which genuinely collide), checks HostTableOK and emits the answers; every set is loaded in seeded order/splits into the real DNSEngine and NetworkRules, the class and admissibility of the basic rule, both host groups and the matched flag are compared.",
         "Trusted: TLC, the renderer (cross-checked against the parsed rules). Which of several equal-class rules is reported is not compared.",
         "6/C02"),
 "C13": ("model_checking",
         "TLC trace validation of long real query histories against 'one unknown pure function of (lists, query)' (unlogged variable inferred by TLC), fresh-engine twin answers and re-digested old results; exhaustive TLC design model of cache/pool/fault histories",
         "spec/UrlFilter.tla is the design model of the hidden state (rule cache, pooled request record refilled field by field, faults); TLC checks Pure and PoolRefilled over every history of up to 4 (quick) / 6 (thorough) queries. The binding is Trace_History.tla: a seeded driver runs histories of 200 (quick) / 2000 (thorough) DNS, web, MatchAll and cosmetic queries with alternating client name / IP / tags / record type against long-lived engines over random lists (string and file stores, lazily compiled and invalid regex rules), asks every distinct query on a fresh engine as well, calls DNSRewrites / GetBasicResult / GetCosmeticOption on old results and re-digests old result objects; TLC validates every event in order, inferring the unlogged function F on first observation and rejecting any later or fresh answer that differs, any changed result object and any derived result that is not a function of its result.",
         "Trusted: TLC; answers are projected to rule texts, classes and flags. A fresh engine on the same lists is the only oracle.",
         "6/C13"),
 "C19": ("model_checking",
         "exhaustive TLC design model of fault points (FaultSubset, StillServed, MemoryUnaffected); TLC trace validation of faulted real histories against a fault-free twin and the linear-scan oracle",
         "The design model (spec/UrlFilter.tla) is checked over every history with the fault at any point. Trace_Fault.tla validates real histories in order: file-backed random lists (every fifth with a 3000-line slice of the bundled lists), a fault at a random point (RuleStorage.Close, or one list's file handle replaced by a closed descriptor), queries through DNSEngine.MatchRequest and NetworkEngine.MatchAll on the faulted engine and on a fault-free twin, plus the rules that truly match by a linear scan with the rules' own Match. Allowed: no crash; every returned rule truly matches; both engines agree before the fault; afterwards the matching network rules are a subset of the twin's and those already returned before the fault are still returned.",
         "Trusted: TLC, rule.Match / HostRule.Match as the oracle the property names. 'Still served' is required only for rules the faulted engine had returned before the fault.",
         "6/C19"),
 "C14": ("model_checking",
         "exhaustive TLC check of a PlusCal lock-protocol model (all interleavings; lock-removed variants give attack schedules); real engines under the Go race detector with perturbed yield hooks; gate-forced window overlaps whose logged yield events TLC validates as behaviours of the model",
         "spec/Concurrency.tla (PlusCal, one label per critical-section step of RetrieveRule / FileRuleList.RetrieveRule / preparePattern) is checked exhaustively for 2 (quick) / 3 (thorough) goroutines x 2 indexes: torn seek/read, buffer, cache and lazy-compile lockset disciplines and 'every goroutine gets the rule at its index'; each lock-removed variant must violate an invariant. Binding: (a) the real engines are queried by 2-32 goroutines (string and file stores, cold caches) in a -race build with the verif yield hooks perturbing the four windows, every answer compared with the sequential answer and every race report counted; (b) gate runs hold a goroutine inside each yield window so that a second one may enter it - the attack schedules - and compare answers (this also covers the kernel file offset, which the race detector cannot see); (c) the yield events logged in every gate run are fed back to TLC (Follow = TRUE): the execution is accepted iff some behaviour of the lock model performs exactly those events.",
         "Trusted: TLC, pcal, the Go race detector on the executions provoked. The sync.Pool fragment is exercised by the race runs only.",
         "6/C14"),
}

NOT_YET = "check not built yet in this session (see DESIGN.md section 6 for the planned TLA+ decision procedure)"


def main():
    checks = []
    for pid in sorted(CHECKS):
        cat, tech, text, note, ref = CHECKS[pid]
        checks.append({
            "property_id": pid,
            "quick_cmd": "bin/check %s quick" % pid,
            "thorough_cmd": "bin/check %s thorough" % pid,
            "evidence_file": "/verif/evidence/%s.json" % pid,
            "replay_cmd_template": "bin/check %s --replay {path}" % pid,
            "engine": "tlc+vh",
            "level_claimed": {"category": cat, "text": text, "design_ref": "DESIGN.md section " + ref},
            "level_note": note,
            "technique": tech,
        })
    na = [{"property_id": pid, "reason": NOT_YET} for pid in sorted(TITLES) if pid not in CHECKS]
    m = {
        "version": 1,
        "setup_cmd": "bin/setup",
        "hooks": {
            "guard": "verif",
            "enable": "go build -tags verif (the harness module /verif/harness replaces github.com/AdguardTeam/urlfilter with /repo)",
            "baseline_off_cmd": "cd /repo && GOFLAGS=-mod=mod GOPROXY=off go test -vet=off -count=1 ./...",
            "source_commits": HOOK_COMMITS,
            "add_only": True,
        },
        "engines": [
            {"name": "tlc+vh", "path": "/verif/bin/check",
             "serves_properties": sorted(CHECKS),
             "kind_free_text": "explicit TLA+ specification (spec/*.tla) checked by TLC; bound to the Go code by (a) replay of TLC-enumerated cases through the harness /verif/harness (vh), (b) TLC validation of traces / compiled programs recorded from the real code"},
        ],
        "checks": checks,
        "not_applicable": na,
        "notes": "Verdict rule, tiers, seeds and known findings: DESIGN.md sections 3.4 and 10. Fix commits in /repo are listed in known_findings.json.",
    }
    with open(os.path.join(VERIF, "MANIFEST.json"), "w") as f:
        json.dump(m, f, indent=1)
        f.write("\n")


HOOK_COMMITS = ["3eebe24", "bcdc3eb", "6111039", "0113d15", "6c37c29", "1a02646"]

if __name__ == "__main__":
    main()
