"""Common machinery for /verif/bin/check.

Verdict rule (DESIGN.md section 3.4):
  exit 0  every TLC run finished as intended, every case replayed equal, every trace accepted
  exit 1  + "VIOLATION property=<id> replay=<path>": a concrete input stored in <path>, re-executed
          against the real code, shows an observation the specification forbids
  exit 2  anything else (TLC error on the intended model, time-out, unparsable output, dead driver,
          a rejection that does not reproduce)
"""
import json
import os
import re
import shutil
import subprocess
import sys
import time

VERIF = os.path.dirname(os.path.dirname(os.path.abspath(__file__)))
REPO = os.environ.get("VERIF_REPO", "/repo")
SPEC = os.path.join(VERIF, "spec")
OUT = os.path.join(VERIF, "out")
EVID = os.path.join(VERIF, "evidence")
NCPU = os.cpu_count() or 4

import threading
_lock = threading.Lock()

GOENV = dict(os.environ, GOFLAGS="-mod=mod", GOPROXY="off", GOSUMDB="off", GOTOOLCHAIN="local")


class Violated(Exception):
    """A violation has been reported and the check cannot go on (e.g. the pool every case needs does not parse)."""


class Inconclusive(Exception):
    """Machinery problem: exit 2, never a verdict."""


class TLCRun:
    def __init__(self):
        self.generated = 0
        self.distinct = 0
        self.records = []     # JSON records printed with PrintT(ToJson(..))
        self.errors = []      # "Error:" lines other than deadlock
        self.violated = []    # names of violated invariants / properties
        self.finished = False
        self.log = ""
        self.wall = 0.0
        self.coverage_zero = []


class Ctx:
    def __init__(self, prop, tier, seed):
        self.prop = prop
        self.tier = tier
        self.seed = seed
        self.t0 = time.time()
        self.work = os.path.join(OUT, "work", "%s-%s-%d" % (prop, tier, os.getpid()))
        shutil.rmtree(self.work, ignore_errors=True)
        os.makedirs(self.work, exist_ok=True)
        # work directories of runs that ended inconclusively are kept for inspection: drop them after two hours
        try:
            wroot = os.path.dirname(self.work)
            for d in os.listdir(wroot):
                pth = os.path.join(wroot, d)
                if pth != self.work and time.time() - os.path.getmtime(pth) > 7200:
                    shutil.rmtree(pth, ignore_errors=True)
        except OSError:
            pass
        os.makedirs(os.path.join(OUT, "replay"), exist_ok=True)
        self.states = 0
        self.transitions = 0
        self.tlc_runs = []
        self.validated = 0          # replayed cases + accepted trace events
        self.evaluations = 0
        self.nontrivial = 0
        self.samples = []
        self.violations = []        # (path, what)
        self.known = []             # (what)
        self.notes = {}
        self.assumptions = []
        self.rule = ""
        self.exhaustive = False
        self.level = "model_checking"
        self.n_tlc = 0
        self.vh_path = None
        self.known_findings = load_known(prop)
        self.extra = {}

    # ------------------------------------------------------------------ harness
    def build(self, race=False):
        """Build the Go harness against the repository's current working tree with the verif tag.

        The repository is /repo; VERIF_REPO=<dir> points the build at another checkout (used only to try
        seeded changes in scratch worktrees side by side - registered checks always run against /repo)."""
        name = "vh-race" if race else "vh"
        hdir = os.path.join(VERIF, "harness")
        if os.path.abspath(REPO) != "/repo":
            out = os.path.join(self.work, "bin", name)
            scratch = os.path.join(self.work, "harness")
            if not os.path.exists(scratch):
                shutil.copytree(hdir, scratch)
                gm = os.path.join(scratch, "go.mod")
                with open(gm) as f:
                    t = f.read()
                with open(gm, "w") as f:
                    f.write(t.replace("=> /repo", "=> " + os.path.abspath(REPO)))
            hdir = scratch
        else:
            out = os.path.join(OUT, "bin", name)
        os.makedirs(os.path.dirname(out), exist_ok=True)
        gosum = os.path.join(hdir, "go.sum")
        shutil.copy(os.path.join(REPO, "go.sum"), gosum)
        cmd = ["go", "build", "-tags", "verif"] + (["-race"] if race else []) + ["-o", out, "./cmd/vh"]
        env = dict(GOENV, VERIF_REPO=REPO)
        p = subprocess.run(cmd, cwd=hdir, env=env, capture_output=True, text=True)
        if p.returncode != 0:
            raise Inconclusive("harness build failed:\n" + p.stdout + p.stderr)
        if race:
            self.vh_race = out
        else:
            self.vh_path = out
        return out

    def vh(self, args, timeout=1800, race=False, env=None, check=True):
        """Run the harness; it prints one JSON summary object as its last stdout line."""
        exe = self.vh_race if race else self.vh_path
        e = dict(GOENV)
        e["VERIF_REPO"] = REPO
        e["VERIF_SEED"] = str(self.seed)
        e["VERIF_TIER"] = self.tier
        if env:
            e.update(env)
        t = time.time()
        try:
            p = subprocess.run([exe] + [str(a) for a in args], cwd=self.work, env=e,
                               capture_output=True, text=True, timeout=timeout)
        except subprocess.TimeoutExpired:
            raise Inconclusive("harness timed out: vh %s" % " ".join(map(str, args)))
        logp = os.path.join(self.work, "vh-%s.log" % "-".join(str(a).replace("/", "_") for a in args[:2]))
        with open(logp, "a") as f:
            f.write(p.stdout[-200000:])
            f.write("\n--- stderr ---\n")
            f.write(p.stderr[-200000:])
        if p.returncode == 3 and "SPEC-REJECTED:" in (p.stderr or ""):
            msg = [l for l in p.stderr.splitlines() if l.startswith("SPEC-REJECTED:")][0][len("SPEC-REJECTED:"):].strip()
            self.report("the real parser refuses a rule the specification gives a meaning to: " + msg,
                        {"reexec": [str(a) for a in args[:1]], "what": msg}, {"cause": "parser-rejects-valid-rule"})
            raise Violated(msg)
        if p.returncode != 0 and check:
            raise Inconclusive("harness failed (rc=%d): vh %s\n%s" % (
                p.returncode, " ".join(map(str, args)), (p.stderr or p.stdout)[-3000:]))
        last = None
        for line in reversed(p.stdout.strip().splitlines()):
            line = line.strip()
            if line.startswith("{"):
                try:
                    last = json.loads(line)
                    break
                except ValueError:
                    continue
        if last is None and check:
            raise Inconclusive("harness printed no summary: vh %s\n%s" % (" ".join(map(str, args)), p.stdout[-2000:]))
        if last is None:
            last = {"_crashed": True}       # only reachable with check=False
        last["_wall"] = time.time() - t
        # head and tail: a runtime abort prints its reason first and then every goroutine's stack
        last["_stderr"] = p.stderr if len(p.stderr) <= 30000 else p.stderr[:8000] + "\n...\n" + p.stderr[-20000:]
        last["_rc"] = p.returncode
        return last

    # ------------------------------------------------------------------ TLC
    def tlc(self, module, cfg, files=None, workers=None, timeout=600, cont=False,
            simulate=None, depth=None, extra_modules=(), coverage=False, expect_violation=False,
            heap=None, dfs=False):
        """Run TLC on spec/<module>.tla with the given cfg text in a scratch directory.

        files: {name: path or text-bytes} copied next to the spec (trace / case inputs).
        Returns a TLCRun.  Raises Inconclusive on time-out or a TLC-level error
        (parse error, evaluation error) - those are never verdicts.
        """
        with _lock:
            self.n_tlc += 1
            n_this = self.n_tlc
        d = os.path.join(self.work, "tlc-%d-%s" % (n_this, module))
        os.makedirs(d, exist_ok=True)
        copy_specs(d)
        for name, src in (files or {}).items():
            dst = os.path.join(d, name)
            if isinstance(src, (bytes, bytearray)):
                with open(dst, "wb") as f:
                    f.write(src)
            elif os.path.exists(src):
                if os.path.abspath(src) != os.path.abspath(dst):
                    shutil.copy(src, dst)
            else:
                with open(dst, "w") as f:
                    f.write(src)
        with open(os.path.join(d, module + ".cfg"), "w") as f:
            f.write(cfg)
        w = workers or min(NCPU, 16)
        cmd = ["timeout", str(timeout), "java", "-XX:+UseParallelGC", "-XX:ParallelGCThreads=%d" % max(2, min(w, 8)), "-Xss64m"]
        # TLC would otherwise take 25 % of the machine's RAM per JVM; several run side by side
        cmd.append("-Xmx" + (heap or ("6g" if w >= 8 else "3g")))
        if dfs:
            cmd.append("-Dtlc2.tool.queue.IStateQueue=StateDeque")
        cmd += ["-cp", "/opt/veriftools/tla/tla2tools.jar:/opt/veriftools/tla/CommunityModules-deps.jar",
                "tlc2.TLC", "-workers", str(w), "-metadir", os.path.join(d, "meta"),
                "-noGenerateSpecTE", "-config", module + ".cfg"]
        if cont:
            cmd.append("-continue")
        if coverage:
            cmd += ["-coverage", "1"]
        if simulate:
            cmd += ["-simulate", simulate]
            if depth:
                cmd += ["-depth", str(depth)]
            cmd += ["-seed", str(self.seed)]
        cmd.append(module + ".tla")
        t = time.time()
        logp = os.path.join(d, "tlc.log")
        with open(logp, "w") as lf:
            p = subprocess.run(cmd, cwd=d, stdout=lf, stderr=subprocess.STDOUT)
        r = TLCRun()
        r.wall = time.time() - t
        r.log = logp
        r.dir = d
        parse_tlc_log(logp, r)
        shutil.rmtree(os.path.join(d, "meta"), ignore_errors=True)
        if p.returncode == 124:
            raise Inconclusive("TLC timed out after %ss on %s (log %s)" % (timeout, module, logp))
        with _lock:
            self.states += r.distinct
            self.transitions += r.generated
        self.tlc_runs.append({"module": module, "generated": r.generated, "distinct": r.distinct,
                              "wall_s": round(r.wall, 2), "violated": r.violated[:5],
                              "records": len(r.records)})
        if r.errors:
            raise Inconclusive("TLC error on %s: %s (log %s)" % (module, r.errors[:3], logp))
        if not r.finished and not simulate:
            raise Inconclusive("TLC did not finish on %s (rc=%d, log %s)" % (module, p.returncode, logp))
        if r.violated and not expect_violation and not cont:
            raise Inconclusive("model-level invariant %s violated on the intended-design model %s (log %s)"
                               % (r.violated, module, logp))
        return r

    def tlaps(self, module, timeout=600):
        """Check the TLAPS proofs of spec/<module>.tla with tlapm; returns (obligations, proved)."""
        d = os.path.join(self.work, "tlaps-" + module)
        os.makedirs(d, exist_ok=True)
        copy_specs(d)
        p = subprocess.run(["timeout", str(timeout), "tlapm", "--threads", str(min(NCPU, 8)), "--cleanfp", module + ".tla"],
                           cwd=d, capture_output=True, text=True)
        out = p.stdout + p.stderr
        with open(os.path.join(d, "tlapm.log"), "w") as f:
            f.write(out)
        m = re.search(r"All (\d+) obligations? proved", out)
        if not m:
            raise Inconclusive("tlapm did not prove every obligation of %s: %s" % (module, out[-600:]))
        n = int(m.group(1))
        self.extra.setdefault("tlaps", {})[module] = {"obligations": n, "discharged": n}
        return n, n

    def tlc_parallel(self, jobs, procs=4):
        """Run several TLC jobs (dicts of tlc() keyword arguments) side by side."""
        from concurrent.futures import ThreadPoolExecutor
        procs = max(1, min(procs, len(jobs)))
        w = max(2, NCPU // procs)
        def one(j):
            j = dict(j)
            j.setdefault("workers", w)
            return self.tlc(**j)
        with ThreadPoolExecutor(max_workers=procs) as ex:
            futs = [ex.submit(one, j) for j in jobs]
            return [f.result() for f in futs]

    def validate_trace(self, module, trace_path, inv="Allowed", chunk=20000, procs=4, timeout=1200,
                       trace_name="trace.ndjson", extra_files=None, constants=""):
        """Code -> spec: TLC checks every event of an ndjson trace against spec/<module>.tla.

        Independent events (parallel form): returns the list of REJECT records with a global, 1-based
        event index in field "l".  The trace is split into chunks checked by several TLC processes.
        """
        with open(trace_path) as f:
            lines = f.readlines()
        jobs, offs = [], []
        cfg = constants + "INIT Init\nNEXT Next\nINVARIANT %s\nCHECK_DEADLOCK FALSE\n" % inv
        for i in range(0, len(lines), chunk):
            files = {trace_name: "".join(lines[i:i + chunk]).encode()}
            files.update(extra_files or {})
            jobs.append(dict(module=module, cfg=cfg, files=files, cont=True, timeout=timeout))
            offs.append(i)
        runs = self.tlc_parallel(jobs, procs=procs)
        rejects = []
        for off, r in zip(offs, runs):
            for v in r.violated:
                if v != inv:
                    raise Inconclusive("unexpected TLC violation %s on %s (log %s)" % (v, module, r.log))
            for rec in r.records:
                if rec.get("kind") == "REJECT":
                    rec = dict(rec)
                    rec["l"] = rec["l"] + off
                    rejects.append(rec)
            if r.violated and not any(rec.get("kind") == "REJECT" for rec in r.records):
                raise Inconclusive("TLC reports %s violated without a REJECT record (log %s)" % (inv, r.log))
        return len(lines), rejects

    def validate_histories(self, module, trace_path, procs=4, timeout=1200, per_job=40):
        """Code -> spec for DEPENDENT events: the trace is a concatenation of histories, each starting with a
        "reset" event; histories are distributed over several single-worker TLC processes, each validating its
        events strictly in order.  A history is accepted iff TLC consumed it to the end without a REJECT record.
        Returns (number of events, list of REJECT records with global 1-based index "l")."""
        with open(trace_path) as f:
            lines = f.readlines()
        starts = [i for i, ln in enumerate(lines) if '"ev":"reset"' in ln]
        if not starts or starts[0] != 0:
            raise Inconclusive("history trace does not start with a reset event")
        bounds = starts + [len(lines)]
        groups, cur, cur_start = [], 0, 0
        for k in range(len(starts)):
            cur += 1
            if cur == per_job or k == len(starts) - 1:
                groups.append((bounds[cur_start], bounds[k + 1]))
                cur, cur_start = 0, k + 1
        cfg = "INIT Init\nNEXT Next\nCHECK_DEADLOCK FALSE\n"
        jobs = [dict(module=module, cfg=cfg, files={"trace.ndjson": "".join(lines[a:b]).encode()}, workers=1, timeout=timeout)
                for (a, b) in groups]
        runs = self.tlc_parallel(jobs, procs=procs)
        rejects = []
        for (a, b), r in zip(groups, runs):
            if r.distinct != (b - a) + 1:
                raise Inconclusive("TLC consumed %d of %d events of %s (log %s)" % (r.distinct - 1, b - a, module, r.log))
            for rec in r.records:
                if rec.get("kind") == "REJECT":
                    rec = dict(rec)
                    rec["l"] = rec["l"] + a
                    rejects.append(rec)
        return len(lines), rejects

    # ------------------------------------------------------------------ verdict pieces
    def sample(self, s):
        if len(self.samples) < 12:
            self.samples.append(s)

    def report(self, what, replay_obj, signature=None):
        """A confirmed disagreement between the real code and the specification."""
        sig = signature or {}
        for kf in self.known_findings:
            if kf.get("status") == "known" and sig_matches(kf.get("signature", {}), sig):
                w = kf.get("what", what)
                if w not in [k for k in self.known]:
                    self.known.append(w)
                return False
        n = len(self.violations) + 1
        rdir = os.path.join(OUT, "replay") if os.path.abspath(REPO) == "/repo" else os.path.join(self.work + "-replay")
        os.makedirs(rdir, exist_ok=True)
        path = os.path.join(rdir, "%s-%s-%d.json" % (self.prop, self.tier, n))
        replay_obj = dict(replay_obj)
        replay_obj["property"] = self.prop
        replay_obj["what"] = what
        replay_obj["signature"] = sig
        with open(path, "w") as f:
            json.dump(replay_obj, f, indent=1, sort_keys=True)
        self.violations.append((path, what))
        return True

    def finish(self):
        wall = time.time() - self.t0
        cov = {
            "states": self.states,
            "transitions": self.transitions,
            "traces_validated_against_impl": self.validated,
            "samples": self.samples or ["(none)"],
            "evaluations": self.evaluations,
            "distinct_nontrivial": self.nontrivial,
            "rule": self.rule,
            "exhaustive": self.exhaustive,
            "tlc_runs": self.tlc_runs,
            "known_findings_hit": len(self.known),
        }
        cov.update(self.extra)
        ev = {
            "property_id": self.prop,
            "tier": self.tier,
            "seed": self.seed,
            "level": self.level,
            "coverage": cov,
            "assumptions": self.assumptions,
            "wall_s": round(wall, 2),
            "violations": len(self.violations),
        }
        evdir = EVID if os.path.abspath(REPO) == "/repo" else self.work + "-evidence"
        os.makedirs(evdir, exist_ok=True)
        with open(os.path.join(evdir, self.prop + ".json"), "w") as f:
            json.dump(ev, f, indent=1)
            f.write("\n")
        for w in self.known:
            print("KNOWN-FINDING: property=%s %s" % (self.prop, w))
        for path, what in self.violations[:50]:
            print("VIOLATION property=%s replay=%s  # %s" % (self.prop, path, what))
        print("%s %s seed=%d: states=%d transitions=%d validated=%d evaluations=%d nontrivial=%d violations=%d known=%d wall=%.1fs"
              % (self.prop, self.tier, self.seed, self.states, self.transitions, self.validated,
                 self.evaluations, self.nontrivial, len(self.violations), len(self.known), wall))
        if not os.environ.get("VERIF_KEEP"):
            shutil.rmtree(self.work, ignore_errors=True)
        return 1 if self.violations else 0


_S_RE = re.compile(r'\bStr\("((?:[^"\\]|\\.)*)"\)')


def expand_S(text):
    """Str("abc") -> <<97, 98, 99>> (TLA+ strings are atomic; see spec/Chars.tla)."""
    def rep(m):
        raw = m.group(1).replace('\\"', '"').replace("\\\\", "\\")
        return "<<" + ", ".join(str(ord(c)) for c in raw) + ">>"
    out = []
    for line in text.split("\n"):
        if line.startswith("Str(str) =="):
            out.append(line)
        else:
            out.append(_S_RE.sub(rep, line))
    return "\n".join(out)


def copy_specs(d):
    for f in os.listdir(SPEC):
        if f.endswith(".tla"):
            with open(os.path.join(SPEC, f)) as src:
                text = src.read()
            with open(os.path.join(d, f), "w") as dst:
                dst.write(expand_S(text))


def sig_matches(known_sig, sig):
    """A known finding matches when every key it lists has the same value in the observed signature."""
    if not known_sig:
        return False
    for k, v in known_sig.items():
        if sig.get(k) != v:
            return False
    return True


def load_known(prop):
    p = os.path.join(VERIF, "known_findings.json")
    if not os.path.exists(p):
        return []
    with open(p) as f:
        data = json.load(f)
    return [k for k in data.get("findings", []) if k.get("property") == prop]


_gen_re = re.compile(r"^(\d+) states generated, (\d+) distinct states found")
_sim_re = re.compile(r"(\d+) states checked")
_inv_re = re.compile(r"Invariant (\S+) is violated")
_prop_re = re.compile(r"(?:Temporal|Action) property (\S+) (?:is|was) violated")


def parse_tlc_log(path, r):
    with open(path, errors="replace") as f:
        for line in f:
            line = line.rstrip("\n")
            if line.startswith('"{') or line.startswith('"['):
                try:
                    r.records.append(json.loads(json.loads(line)))
                except ValueError:
                    r.errors.append("unparsable record: " + line[:200])
                continue
            m = _gen_re.match(line)
            if m:
                r.generated = int(m.group(1))
                r.distinct = int(m.group(2))
                continue
            m = _inv_re.search(line)
            if m:
                r.violated.append(m.group(1).rstrip("."))
                continue
            m = _prop_re.search(line)
            if m:
                r.violated.append(m.group(1).rstrip("."))
                continue
            if line.startswith("Finished in") or "Model checking completed" in line:
                r.finished = True
                continue
            if "The number of states generated" in line or "states checked" in line:
                m = _sim_re.search(line)
                if m and not r.generated:
                    r.generated = int(m.group(1))
                    r.distinct = r.distinct or int(m.group(1))
            if line.startswith("Error:") or "*** Errors:" in line or "Parsing or semantic analysis failed" in line \
                    or "java.lang." in line or line.startswith("Fatal"):
                if "Deadlock reached" in line:
                    r.violated.append("Deadlock")
                elif "is violated" in line or "was violated" in line:
                    pass
                elif "The behavior up to this point is" in line or "The following behavior constitutes" in line:
                    pass
                elif "Evaluating invariant" in line and "failed" in line:
                    r.errors.append(line)
                else:
                    r.errors.append(line)
            if ": 0" in line and line.rstrip().endswith(": 0") and "line " in line:
                r.coverage_zero.append(line.strip())


def write_ndjson(path, records):
    with open(path, "w") as f:
        for rec in records:
            f.write(json.dumps(rec, separators=(",", ":")))
            f.write("\n")


def read_ndjson(path):
    out = []
    with open(path) as f:
        for line in f:
            line = line.strip()
            if line:
                out.append(json.loads(line))
    return out
