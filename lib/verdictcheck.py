"""Shared driver of C06 / C08 (and the selection half of C07): TLC enumerates bags of matching rules with
spec/MC_Verdict.tla, the harness replays them through the five entry points."""
import json
import os

import vf

CFG = """CONSTANT MaxBag = %d
CONSTANT MaxSrc = %d
CONSTANT PoolKind = "%s"
INIT Init
NEXT Next
INVARIANT Emit
INVARIANT PoolDistinct
INVARIANT ScanOK
INVARIANT TwinNeutral
INVARIANT OnlyTwins
CHECK_DEADLOCK FALSE
"""


def replay_cases(ctx, records, tag="v"):
    cases = os.path.join(ctx.work, "verdict-cases-%s.ndjson" % tag)
    vf.write_ndjson(cases, records)
    mm = os.path.join(ctx.work, "verdict-mismatches-%s.ndjson" % tag)
    s = ctx.vh(["replay-verdict", "in=" + cases, "out=" + mm], timeout=3000)
    return s, vf.read_ndjson(mm)


def run(ctx, pool, configs, why_filter=None):
    ctx.build()
    n = 0
    for (maxbag, maxsrc) in configs:
        n += 1
        r = ctx.tlc("MC_Verdict", CFG % (maxbag, maxsrc, pool), timeout=2400)
        recs = [x for x in r.records if x.get("kind") in ("POOL", "CASE")]
        s, mism = replay_cases(ctx, recs, "%s%d" % (pool, n))
        ctx.evaluations += s["evaluations"]
        ctx.validated += s["cases"]
        ctx.nontrivial += s["nontrivial"]
        ctx.extra.setdefault("by_entry", {})
        for k, v in s["by_entry"].items():
            ctx.extra["by_entry"][k] = ctx.extra["by_entry"].get(k, 0) + v
        for smp in s["samples"] or []:
            ctx.sample(smp)
        seen = set()
        for m in mism:
            if why_filter and not why_filter(m):
                continue
            key = (m["entry"], tuple(sorted(m["rules"] or [])), tuple(sorted(m["source_rules"] or [])), m["why"][:20])
            if key in seen:
                continue
            seen.add(key)
            what = "%s: rules %s referrer rules %s: spec %s, code %s %s (%s)" % (
                m["entry"], m["rules"] or [], m["source_rules"] or [], m["expected"], m["got"], m["got_rule"], m["why"])
            c = m["case"]
            pool_rec = {"kind": "POOL", "main": c.pop("main"), "src": c.pop("src")}
            ctx.report(what, {"reexec": ["replay-verdict"], "input": [pool_rec, c], "lists": m.get("lists")},
                       {"cause": m["cause"], "entry": m["entry"]})
    ctx.exhaustive = True


def trace(ctx, n):
    """code -> spec: random bags of up to 12 rules (+ twins) and up to 3 referrer rules, validated by Trace_Verdict."""
    tr = os.path.join(ctx.work, "verdict-trace.ndjson")
    d = ctx.vh(["drive-verdict", "n=%d" % n, "out=" + tr], timeout=3000)
    nev, rejects = ctx.validate_trace("Trace_Verdict", tr, chunk=5000, procs=(2 if ctx.tier == "quick" else 8))
    ctx.validated += nev - len(rejects)
    ctx.evaluations += nev
    ctx.nontrivial += d["nontrivial"]
    ctx.extra["trace_events"] = nev
    for smp in d["samples"] or []:
        ctx.sample(smp)
    if rejects:
        events = vf.read_ndjson(tr)
        for rj in rejects[:40]:
            e = events[rj["l"] - 1]
            ctx.report("%s on rules %s referrer rules %s: spec %s, code %s" % (e["entry"], e["texts"], e["src_texts"], rj["spec"], rj["code"]),
                       {"reexec": ["drive-verdict"], "event": e, "seed": ctx.seed}, {"cause": "random-bag", "entry": e["entry"]})


def replay(ctx, path):
    ctx.build()
    obj = json.load(open(path))
    s, mism = replay_cases(ctx, obj["input"], "replay")
    print(json.dumps({"mismatches": len(mism), "detail": [{k: m[k] for k in ("entry", "rules", "source_rules", "expected", "got", "why")} for m in mism[:5]]}, indent=1))
    return 1 if mism else 0
