"""spec/LineKind.tla <-> rules.NewRule (used by C12 and C18): what a line of a filter list is.

spec -> code: every line of at most MaxTok tokens (20-token alphabet: a one-letter, a two-letter and a dotted name, a
digit, an IPv4 and an IPv6 literal, blank and tab, '#', '@', '$', '?', '%', ',', '~', '!', '*', '|', '.', '-') with
LineKind!Meaning; the laws TrimInert, HostCommentInert, CommentStable are invariants of that model.  The set of address
literals among all possible fields is computed by the harness with net/netip.  code -> spec: seeded random lines over a
richer alphabet validated by Trace_LineKind (which fields are addresses is logged as environment input)."""
import json
import os

import vf

CFG = """CONSTANT MaxTok = %d
CONSTANT IPv4Lits <- V4
CONSTANT IPv6Lits <- V6
INIT Init
NEXT Next
VIEW View
INVARIANT Emit
INVARIANT Laws
CHECK_DEADLOCK FALSE
"""


def replay_cases(ctx, recs, tag="k"):
    p = os.path.join(ctx.work, "linekind-cases-%s.ndjson" % tag)
    vf.write_ndjson(p, recs)
    mm = os.path.join(ctx.work, "linekind-mismatches-%s.ndjson" % tag)
    s = ctx.vh(["replay-linekind", "in=" + p, "out=" + mm], timeout=1800)
    return s, vf.read_ndjson(mm)


def run(ctx, max_tok, n_trace):
    env = os.path.join(ctx.work, "linekind-env.ndjson")
    es = ctx.vh(["linekind-env", "max=%d" % max_tok, "out=" + env])
    r = ctx.tlc("MC_LineKind", CFG % max_tok, files={"linekind-env.ndjson": env}, timeout=2400)
    if r.violated:
        raise vf.Inconclusive("LineKind: TLC reports %s violated (log %s)" % (r.violated, r.log))
    recs = [x for x in r.records if x.get("kind") == "LINE"]
    s, mism = replay_cases(ctx, recs)
    ctx.evaluations += s["evaluations"]
    ctx.validated += s["cases"] - s["mismatches"]
    ctx.nontrivial += sum(v for k, v in s["by_kind"].items() if k not in ("network", "nothing"))
    ctx.extra["linekind_lines"] = s["cases"]
    ctx.extra["linekind_by_kind"] = s["by_kind"]
    ctx.extra["linekind_address_literals"] = es
    for t in (s["samples"] or [])[:3]:
        ctx.sample({"line_meaning": t})
    seen = set()
    for m in mism:
        k = (m["why"][:30], m["expected"], (m["got"] or {}).get("kind"))
        if k in seen and len(seen) > 40:
            continue
        seen.add(k)
        if len(seen) > 60:
            break
        ctx.report("line %r: %s: the specification says %s, NewRule gives %s" % (m["line"], m["why"], m["expected"], m["got"]),
                   {"reexec": ["replay-linekind"], "input": [m["case"]]}, {"cause": "line-kind", "kind": m["expected"]})
    # code -> spec
    tr = os.path.join(ctx.work, "linekind-trace.ndjson")
    d = ctx.vh(["drive-linekind", "n=%d" % n_trace, "out=" + tr], timeout=1800)
    if d["panics"]:
        pass  # logged as kind "PANIC ...", rejected by the trace specification below
    nev, rejects = ctx.validate_trace("Trace_LineKind", tr, chunk=20000, procs=(2 if ctx.tier == "quick" else 8))
    ctx.evaluations += nev
    ctx.validated += nev - len(rejects)
    ctx.extra["linekind_trace_events"] = nev
    ctx.extra["linekind_trace_by_kind"] = d["by_kind"]
    if rejects:
        events = vf.read_ndjson(tr)
        done = set()
        for rj in rejects:
            e = events[rj["l"] - 1]
            line = bytes(e["line"]).decode("latin-1")
            k = (rj["spec"]["kind"], e["kind"])
            if k in done and len(done) > 20:
                continue
            done.add(k)
            if len(done) > 40:
                break
            case = {"kind": "LINE", "line": e["line"], "exp": rj["spec"]}
            s2, mm2 = replay_cases(ctx, [case], "confirm")
            if not mm2:
                raise vf.Inconclusive("rejected line-kind event did not reproduce: %r" % line)
            ctx.report("line %r: the specification says %s, NewRule gives %s" % (line, rj["spec"]["kind"], rj["code"]),
                       {"reexec": ["replay-linekind"], "input": [case]}, {"cause": "line-kind", "kind": rj["spec"]["kind"]})


def replay(ctx, obj):
    ctx.build()
    s, mism = replay_cases(ctx, obj["input"], "replay")
    print(json.dumps({"mismatches": [{k: m.get(k) for k in ("line", "why", "expected", "got")} for m in mism[:4]]}, indent=1))
    return 1 if mism else 0
