package main

// C11 / C12: storage scanning, index and retrieval; inert noise lines.

import (
	"fmt"
	"math/rand"
	"os"
	"path/filepath"
	"reflect"
	"runtime"
	"strings"
	"sync"

	"github.com/AdguardTeam/urlfilter"
	"github.com/AdguardTeam/urlfilter/filterlist"
	"github.com/AdguardTeam/urlfilter/rules"
)

type stLine struct {
	Kind string `json:"kind"`
	Body int    `json:"body"`
	PadL int    `json:"padL"`
	PadR int    `json:"padR"`
	Eol  string `json:"eol"`
}

type stList struct {
	ID    string   `json:"id"`
	Ic    bool     `json:"ic"`
	Lines []stLine `json:"lines"`
}

type stScan struct {
	List string `json:"list"`
	Line int    `json:"line"`
	Kind string `json:"kind"`
	Idx  []any  `json:"idx"`
}

type stCase struct {
	Lists []stList `json:"lists"`
	Scan  []stScan `json:"scan"`
	Sizes []int    `json:"sizes"`
}

var listIDs = map[string]int{"min": -2147483648, "max": 2147483647, "zero": 0, "neg": -5, "pos": 7}

func fillTo(prefix, suffix string, n int, ch byte) (string, error) {
	k := n - len(prefix) - len(suffix)
	if k < 0 {
		return "", fmt.Errorf("body %d too short for %q..%q", n, prefix, suffix)
	}
	return prefix + strings.Repeat(string(ch), k) + suffix, nil
}

// lineText renders the trimmed text of a line: unique per (list, line), exactly body bytes long.
func lineText(l stLine, li, k int) (string, error) {
	tag := fmt.Sprintf("%d%d", li, k)
	switch l.Kind {
	case "net":
		return fillTo("||r"+tag+".t/", "^", l.Body, 'x')
	case "host":
		return fillTo("0.0.0.0 h"+tag+".te", "st", l.Body, 'o')
	case "cos":
		return fillTo("e.org##.c"+tag, "", l.Body, 'z')
	case "comment":
		return fillTo("! c"+tag, "", l.Body, '-')
	case "bad":
		return fillTo("||b"+tag, "^$nosuchmod", l.Body, 'y')
	case "blank":
		return "", nil
	}
	return "", fmt.Errorf("unknown kind %q", l.Kind)
}

// isNilRule is true for a nil interface and for an interface holding a nil pointer (NewRule returns the latter
// together with an error, and the storage may hand such a value out again).
func isNilRule(r rules.Rule) bool {
	if r == nil {
		return true
	}
	v := reflect.ValueOf(r)
	return v.Kind() == reflect.Ptr && v.IsNil()
}

func kindOfRule(r rules.Rule, err error) string {
	if err != nil {
		return "bad"
	}
	if isNilRule(r) {
		return "none"
	}
	switch r.(type) {
	case *rules.NetworkRule:
		return "net"
	case *rules.HostRule:
		return "host"
	case *rules.CosmeticRule:
		return "cos"
	}
	return "none"
}

type renderedList struct {
	id      int
	ic      bool
	content string
	texts   []string // trimmed text per line
}

func renderLists(c *stCase, denoise bool, swapEol bool) ([]renderedList, error) {
	var out []renderedList
	for li, L := range c.Lists {
		rl := renderedList{id: listIDs[L.ID], ic: L.Ic}
		var sb strings.Builder
		for k, l := range L.Lines {
			t, err := lineText(l, li+1, k+1)
			if err != nil {
				return nil, err
			}
			rl.texts = append(rl.texts, t)
			// renderer self-check: the reference parse (the real NewRule) sees the kind the case states
			r, perr := rules.NewRule(t, rl.id)
			got := kindOfRule(r, perr)
			want := l.Kind
			if want == "comment" || want == "blank" {
				want = "none"
			}
			if got != want {
				return nil, fmt.Errorf("renderer: %q parses as %s, case says %s", t, got, l.Kind)
			}
			if denoise && (l.Kind == "comment" || l.Kind == "blank" || l.Kind == "bad") {
				continue
			}
			sb.WriteString(strings.Repeat(" ", l.PadL/2) + strings.Repeat("\t", l.PadL-l.PadL/2))
			sb.WriteString(t)
			sb.WriteString(strings.Repeat("\t", l.PadR/2) + strings.Repeat(" ", l.PadR-l.PadR/2))
			eol := l.Eol
			if swapEol && eol == "lf" {
				eol = "crlf"
			} else if swapEol && eol == "crlf" {
				eol = "lf"
			}
			if denoise && eol == "none" {
				eol = "lf"
			}
			switch eol {
			case "lf":
				sb.WriteString("\n")
			case "crlf":
				sb.WriteString("\r\n")
			}
		}
		rl.content = sb.String()
		out = append(out, rl)
	}
	return out, nil
}

func makeStorage(rls []renderedList, file bool, dir string) (*filterlist.RuleStorage, func(), error) {
	var ls []filterlist.RuleList
	var files []string
	for i, rl := range rls {
		if file {
			p := filepath.Join(dir, fmt.Sprintf("list-%d-%d.txt", os.Getpid(), i))
			if err := os.WriteFile(p, []byte(rl.content), 0o600); err != nil {
				return nil, nil, err
			}
			files = append(files, p)
			fl, err := filterlist.NewFileRuleList(rl.id, p, rl.ic)
			if err != nil {
				return nil, nil, err
			}
			ls = append(ls, fl)
		} else {
			ls = append(ls, &filterlist.StringRuleList{ID: rl.id, RulesText: rl.content, IgnoreCosmetic: rl.ic})
		}
	}
	st, err := filterlist.NewRuleStorage(ls)
	cleanup := func() {
		if st != nil {
			_ = st.Close()
		}
		for _, f := range files {
			os.Remove(f)
		}
	}
	return st, cleanup, err
}

type scanned struct {
	kind, text string
	id         int
	idx        int64
}

func scanStorage(st *filterlist.RuleStorage) (out []scanned, pv string) {
	pv = safeCall(func() {
		sc := st.NewRuleStorageScanner()
		for sc.Scan() {
			r, idx := sc.Rule()
			out = append(out, scanned{kind: kindOfRule(r, nil), text: r.Text(), id: r.GetFilterListID(), idx: idx})
		}
	})
	return
}

func engineAnswers(st *filterlist.RuleStorage, rls []renderedList) (string, string) {
	var sb strings.Builder
	pv := safeCall(func() {
		d := urlfilter.NewDNSEngine(st)
		e := urlfilter.NewEngine(st)
		for li, rl := range rls {
			for k := range rl.texts {
				tag := fmt.Sprintf("%d%d", li+1, k+1)
				for _, host := range []string{"h" + tag + ".te", "r" + tag + ".t"} {
					for _, h := range []string{host, strings.Replace(host, ".te", ".teo", 1), host + "st"} {
						res, ok := d.Match(h)
						fmt.Fprintf(&sb, "%s:%v:%d:%d:%s;", h, ok, len(res.HostRulesV4), len(res.HostRulesV6), strings.Join(textsOf(res.NetworkRules), ","))
					}
				}
				q := rules.NewRequest("http://r"+tag+".t/"+strings.Repeat("x", 20), "", rules.TypeScript)
				mr := e.MatchRequest(q)
				fmt.Fprintf(&sb, "web%s:%s;", tag, classOf(mr.GetBasicResult()))
			}
		}
		cr := e.GetCosmeticResult("e.org", rules.CosmeticOptionAll)
		fmt.Fprintf(&sb, "cos:%s", setStr(cr.ElementHiding.Specific))
	})
	return sb.String(), pv
}

// vh replay-storage in=<cases.ndjson> out=<mismatches.ndjson> dir=<tmpdir> noise=0|1
func cmdReplayStorage(args []string) error {
	m := argMap(args)
	recs, err := readND[stCase](m["in"])
	if err != nil {
		return err
	}
	out, err := newNDWriter(m["out"])
	if err != nil {
		return err
	}
	defer out.close()
	dir := m["dir"]
	noise := argInt(m, "noise", 0) == 1
	evals, mism, yielded, noisy := 0, 0, 0, 0
	var samples []map[string]any
	var mu sync.Mutex
	var firstErr error
	workers := runtime.NumCPU()
	if workers > 12 {
		workers = 12
	}
	var wg sync.WaitGroup
	next := make(chan int, 64)
	go func() {
		for ci := range recs {
			next <- ci
		}
		close(next)
	}()
	for w := 0; w < workers; w++ {
		wg.Add(1)
		wdir := filepath.Join(dir, fmt.Sprintf("w%d", w))
		_ = os.MkdirAll(wdir, 0o700)
		go func(dir string) {
			defer wg.Done()
			for ci := range next {
				if err := func() error {
					c := &recs[ci]
					rls, err := renderLists(c, false, false)
					if err != nil {
						return err
					}
					bad := func(store, why string, exp, got any) {
						mu.Lock()
						defer mu.Unlock()
						mism++
						cause := "other"
						for _, L := range c.Lists {
							for _, l := range L.Lines {
								if l.Body > 4000 {
									cause = "line-longer-than-read-buffer"
								}
							}
						}
						out.write(map[string]any{"store": store, "why": why, "expected": exp, "got": got, "cause": cause, "case": c})
					}
					for li, rl := range rls {
						if len(rl.content) != c.Sizes[li] {
							return fmt.Errorf("renderer: list %d has %d bytes, the case says %d", li, len(rl.content), c.Sizes[li])
						}
					}
					var perStore [2][]scanned
					var perStoreAns [2]string
					for si, store := range []string{"string", "file"} {
						mu.Lock()
						evals++
						mu.Unlock()
						st, cleanup, err := makeStorage(rls, store == "file", dir)
						if err != nil {
							return err
						}
						sc, pv := scanStorage(st)
						perStore[si] = sc
						if pv != "" {
							bad(store, "panic while scanning: "+pv, nil, nil)
							cleanup()
							continue
						}
						// scan sequence == reference
						if len(sc) != len(c.Scan) {
							bad(store, "number of scanned rules", len(c.Scan), len(sc))
						}
						seen := map[int64]int{}
						for n := 0; n < len(sc) && n < len(c.Scan); n++ {
							e := c.Scan[n]
							li := -1
							for i, L := range c.Lists {
								if L.ID == e.List {
									li = i
								}
							}
							wantText := rls[li].texts[e.Line-1]
							wantID := listIDs[e.List]
							wantOff := int(e.Idx[1].(float64))
							g := sc[n]
							gotID, gotOff := int(int32(g.idx>>32)), int(uint32(g.idx))
							switch {
							case g.kind != e.Kind || g.text != wantText || g.id != wantID:
								bad(store, fmt.Sprintf("scanned rule %d", n+1), fmt.Sprintf("%s %.40q id=%d", e.Kind, wantText, wantID), fmt.Sprintf("%s %.40q id=%d", g.kind, g.text, g.id))
							case gotID != wantID || gotOff != wantOff:
								bad(store, fmt.Sprintf("index of rule %d", n+1), fmt.Sprintf("(%d,%d)", wantID, wantOff), fmt.Sprintf("(%d,%d) raw %d", gotID, gotOff, g.idx))
							}
							if prev, dup := seen[g.idx]; dup {
								bad(store, "index not injective", nil, fmt.Sprintf("rules %d and %d share index %d", prev+1, n+1, g.idx))
							}
							seen[g.idx] = n
						}
						// retrieval: cold cache on a fresh storage, then warm
						st2, cleanup2, err := makeStorage(rls, store == "file", dir)
						if err != nil {
							return err
						}
						for pass := 0; pass < 2; pass++ {
							for n, g := range sc {
								mu.Lock()
								yielded++
								mu.Unlock()
								var r rules.Rule
								var rerr error
								pv := safeCall(func() { r, rerr = st2.RetrieveRule(g.idx) })
								switch {
								case pv != "":
									bad(store, "panic in RetrieveRule: "+pv, nil, nil)
								case rerr != nil || isNilRule(r):
									bad(store, fmt.Sprintf("RetrieveRule of scanned rule %d (pass %d)", n+1, pass), g.text[:min(40, len(g.text))], fmt.Sprint(rerr))
								case kindOfRule(r, nil) != g.kind || r.Text() != g.text || r.GetFilterListID() != g.id:
									bad(store, fmt.Sprintf("RetrieveRule of scanned rule %d (pass %d)", n+1, pass), fmt.Sprintf("%s %.40q id=%d", g.kind, g.text, g.id),
										fmt.Sprintf("%s %.40q id=%d", kindOfRule(r, nil), r.Text(), r.GetFilterListID()))
								}
							}
						}
						ans, pv := engineAnswers(st2, rls)
						if pv != "" {
							bad(store, "panic in engine: "+pv, nil, nil)
						}
						perStoreAns[si] = ans
						cleanup2()
						cleanup()
					}
					// String and File are indistinguishable
					if fmt.Sprint(perStore[0]) != fmt.Sprint(perStore[1]) {
						bad("string-vs-file", "scan sequences differ", len(perStore[0]), len(perStore[1]))
					}
					if perStoreAns[0] != perStoreAns[1] {
						bad("string-vs-file", "engine answers differ", perStoreAns[0], perStoreAns[1])
					}
					if noise {
						// C12: without the noise lines, and with the other line ending, nothing changes
						hasNoise := false
						for _, L := range c.Lists {
							for _, l := range L.Lines {
								if l.Kind == "comment" || l.Kind == "blank" || l.Kind == "bad" {
									hasNoise = true
								}
							}
						}
						mu.Lock()
						if hasNoise {
							noisy++
						}
						mu.Unlock()
						for _, variant := range []string{"denoised", "other-eol"} {
							mu.Lock()
							evals++
							mu.Unlock()
							rl2, err := renderLists(c, variant == "denoised", variant == "other-eol")
							if err != nil {
								return err
							}
							vfile := (ci+len(variant))%2 == 0 // alternate the backing store; compare with the original on the same store
							st3, cleanup3, err := makeStorage(rl2, vfile, dir)
							if err != nil {
								return err
							}
							vi := 0
							if vfile {
								vi = 1
							}
							sc3, pv := scanStorage(st3)
							if pv != "" {
								bad(variant, "panic while scanning: "+pv, nil, nil)
							}
							a, b := []string{}, []string{}
							for _, g := range perStore[vi] {
								a = append(a, fmt.Sprintf("%s|%s|%d", g.kind, g.text, g.id))
							}
							for _, g := range sc3 {
								b = append(b, fmt.Sprintf("%s|%s|%d", g.kind, g.text, g.id))
							}
							if strings.Join(a, "\n") != strings.Join(b, "\n") {
								bad(variant, "scanned rules change", len(a), len(b))
							}
							ans3, pv := engineAnswers(st3, rls)
							if pv != "" || ans3 != perStoreAns[vi] {
								bad(variant, "engine answers change "+pv, perStoreAns[vi], ans3)
							}
							cleanup3()
						}
					}
					mu.Lock()
					if len(samples) < 4 && len(c.Scan) >= 2 && ci%397 == 9 {
						samples = append(samples, map[string]any{"lists": c.Lists, "scan": c.Scan})
					}
					mu.Unlock()
					return nil
				}(); err != nil {
					mu.Lock()
					if firstErr == nil {
						firstErr = err
					}
					mu.Unlock()
				}
			}
		}(wdir)
	}
	wg.Wait()
	if firstErr != nil {
		return firstErr
	}
	summary(map[string]any{"cases": len(recs), "evaluations": evals, "mismatches": mism, "retrievals": yielded, "noisy": noisy, "samples": samples})
	return nil
}

func init() {
	register("replay-storage", cmdReplayStorage)
}

// ---- code -> spec: random byte contents ----

type stRefLine struct {
	Off  int    `json:"off"`
	Kind string `json:"kind"`
}

type stRefList struct {
	ID    string      `json:"id"`
	Ic    bool        `json:"ic"`
	Lines []stRefLine `json:"lines"`
}

type stScanEv struct {
	List string `json:"list"`
	Off  int    `json:"off"`
	Kind string `json:"kind"`
	Same bool   `json:"same"`
	Raw  string `json:"raw"`
}

type stRetrEv struct {
	Ok   bool   `json:"ok"`
	Kind string `json:"kind"`
	Same bool   `json:"same"`
}

type stEvent struct {
	Store string      `json:"store"`
	Lists []stRefList `json:"lists"`
	Scan  []stScanEv  `json:"scan"`
	Retr  []stRetrEv  `json:"retr"`
	Panic bool        `json:"panic"`
	Note  string      `json:"note"`
}

func rndContent(rnd *rand.Rand) string {
	var sb strings.Builder
	if rnd.Intn(4) == 0 {
		sb.WriteString("\xef\xbb\xbf")
	}
	n := rnd.Intn(12)
	if rnd.Intn(6) == 0 {
		// a long run of short neighbouring lines: whatever block of the file a retrieval reads, some line straddles its end
		n = 250 + rnd.Intn(200)
	}
	for i := 0; i < n; i++ {
		var line string
		k := rnd.Intn(11)
		if n > 100 && rnd.Intn(8) != 0 {
			k = 2
		}
		switch k {
		case 9:
			// a '#' in front of what looks like a cosmetic marker: the marker is searched at the first '#' only
			line = []string{"0.0.0.0 legacy" + fmt.Sprint(i) + ".example #old##entry", "||page" + fmt.Sprint(i) + ".example/p#top##anchor",
				"! see http://x.example/#@#y", "||q" + fmt.Sprint(i) + ".example/#/path#@#frag"}[rnd.Intn(4)]
		case 10:
			line = "0.0.0.0 host-" + fmt.Sprintf("%04d", i) + ".example.org"
		case 0:
			line = ""
		case 1:
			line = "! comment \u0085  "
		case 2:
			line = "0.0.0.0 h" + fmt.Sprint(i) + ".example"
		case 3:
			line = "||n" + fmt.Sprint(i) + ".example^" + strings.Repeat("x", []int{0, 0, 4090, 4096, 9000, 0, 0, 4090, 4096, 9000, 65530, 70000}[rnd.Intn(12)])
		case 4:
			line = "e.org##.c" + fmt.Sprint(i)
		case 5:
			line = mutateBytes(rnd, grammarLines[rnd.Intn(len(grammarLines))])
		case 6:
			line = "||nul\x00" + fmt.Sprint(i) + ".example^"
		case 7:
			line = "\u0085||nel" + fmt.Sprint(i) + ".example^ "
		default:
			line = grammarLines[rnd.Intn(len(grammarLines))]
		}
		line = strings.ReplaceAll(line, "\n", "")
		sb.WriteString(line)
		switch rnd.Intn(6) {
		case 0:
			sb.WriteString("\r\n")
		case 1:
			sb.WriteString("\r") // a lone CR does not end a line
		case 2:
			if i == n-1 {
				break // no final newline
			}
			sb.WriteString("\n")
		default:
			sb.WriteString("\n")
		}
	}
	return sb.String()
}

// vh drive-storage n=<storages> out=<trace.ndjson> dir=<tmpdir>
func cmdDriveStorage(args []string) error {
	m := argMap(args)
	n := argInt(m, "n", 500)
	out, err := newNDWriter(m["out"])
	if err != nil {
		return err
	}
	defer out.close()
	rnd := rand.New(rand.NewSource(seed()*19 + 6))
	idNames := []string{"min", "max", "zero", "neg", "pos"}
	rulesSeen, concurrentRetr := 0, 0
	for out.n < 2*n {
		nl := 1 + rnd.Intn(3)
		perm := rnd.Perm(len(idNames))
		var rls []renderedList
		var ref []stRefList
		for i := 0; i < nl; i++ {
			content := rndContent(rnd)
			if out.n == 0 && i == 0 {
				// the first storage of a run has a list with more than 16 MiB in front of its rules: an offset inside a
				// list is a 32-bit number
				content = strings.Repeat("! "+strings.Repeat("padding ", 512)+"\n", 4200) + "||beyond.example^\n0.0.0.0 far.example\nfar.example##.sel\n||last.example^$script"
			}
			rl := renderedList{id: listIDs[idNames[perm[i]]], ic: rnd.Intn(3) == 0, content: content}
			rls = append(rls, rl)
			// the reference parse, line by line, by the real NewRule
			r := stRefList{ID: idNames[perm[i]], Ic: rl.ic, Lines: []stRefLine{}}
			off := 0
			for off < len(content) {
				end := strings.IndexByte(content[off:], '\n')
				var raw string
				if end < 0 {
					raw = content[off:]
					end = len(content) - off
				} else {
					raw = content[off : off+end]
					end++
				}
				rule, perr := rules.NewRule(raw, rl.id)
				k := kindOfRule(rule, perr)
				r.Lines = append(r.Lines, stRefLine{Off: off, Kind: k})
				off += end
			}
			ref = append(ref, r)
		}
		nameOf := map[int]string{}
		for k, v := range listIDs {
			nameOf[v] = k
		}
		for _, store := range []string{"string", "file"} {
			ev := stEvent{Store: store, Lists: ref, Scan: []stScanEv{}, Retr: []stRetrEv{}}
			st, cleanup, err := makeStorage(rls, store == "file", m["dir"])
			if err != nil {
				return err
			}
			sc, pv := scanStorage(st)
			if pv != "" {
				ev.Panic, ev.Note = true, pv
			}
			contentOf := map[int]string{}
			for _, rl := range rls {
				contentOf[rl.id] = rl.content
			}
			for _, g := range sc {
				id, off := int(int32(g.idx>>32)), int(uint32(g.idx))
				c := contentOf[id]
				same := false
				if off <= len(c) {
					end := strings.IndexByte(c[off:], '\n')
					if end < 0 {
						end = len(c) - off
					}
					same = strings.TrimSpace(c[off:off+end]) == g.text && g.id == id
				}
				ev.Scan = append(ev.Scan, stScanEv{List: nameOf[id], Off: off, Kind: g.kind, Same: same, Raw: fmt.Sprint(g.idx)})
				rulesSeen++
			}
			st2, cleanup2, err := makeStorage(rls, store == "file", m["dir"])
			if err != nil {
				return err
			}
			for _, g := range sc {
				var r rules.Rule
				var rerr error
				pv := safeCall(func() { r, rerr = st2.RetrieveRule(g.idx) })
				e := stRetrEv{Ok: pv == "" && rerr == nil && !isNilRule(r)}
				if e.Ok {
					e.Kind = kindOfRule(r, nil)
					e.Same = r.Text() == g.text && r.GetFilterListID() == g.id
				}
				ev.Retr = append(ev.Retr, e)
			}
			cleanup2()
			cleanup()
			out.write(ev)
			if store == "file" && len(sc) > 0 {
				// the same retrievals from 6 goroutines on a cold storage: an answer that differs from the sequential one
				// replaces it, and the event is logged again for the specification to judge
				st3, cleanup3, err := makeStorage(rls, true, m["dir"])
				if err != nil {
					return err
				}
				evc := ev
				evc.Store = "file-concurrent"
				evc.Retr = append([]stRetrEv{}, ev.Retr...)
				var mu sync.Mutex
				differs := false
				concurrently(len(sc), 6, seed()+int64(out.n), func(_, i int) {
					g := sc[i]
					var r rules.Rule
					var rerr error
					pv := safeCall(func() { r, rerr = st3.RetrieveRule(g.idx) })
					e := stRetrEv{Ok: pv == "" && rerr == nil && !isNilRule(r)}
					if e.Ok {
						e.Kind = kindOfRule(r, nil)
						e.Same = r.Text() == g.text && r.GetFilterListID() == g.id
					}
					if e != ev.Retr[i] {
						mu.Lock()
						evc.Retr[i], differs = e, true
						mu.Unlock()
					}
				})
				cleanup3()
				concurrentRetr += 6 * len(sc)
				if differs {
					evc.Note = "concurrent retrieval from 6 goroutines differs from the sequential one"
					out.write(evc)
				}
			}
		}
	}
	summary(map[string]any{"events": out.n, "rules_scanned": rulesSeen, "concurrent_retrievals": concurrentRetr})
	return nil
}

func init() {
	register("drive-storage", cmdDriveStorage)
}
