package main

// C02: DNS engine answer versus the reference resolution of spec/DNSEngine.tla.

import (
	"fmt"
	"math/rand"
	"sort"
	"strings"
	"sync"

	"github.com/AdguardTeam/urlfilter"
	"github.com/AdguardTeam/urlfilter/filterutil"
	"github.com/AdguardTeam/urlfilter/rules"
	"github.com/miekg/dns"
)

type dnsEntry struct {
	Kind  string  `json:"kind"`
	Text  string  `json:"text"`
	Rule  *aRule  `json:"rule,omitempty"`
	Fam   string  `json:"fam,omitempty"`
	Names []aHost `json:"names,omitempty"`
}

type dnsPool struct {
	Entries []dnsEntry `json:"entries"`
	Queries []aReq     `json:"queries"`
	Hashes  []niHash   `json:"hashes"`
	Note    string     `json:"note"`
}

func emptyRule(pat string) *aRule {
	return &aRule{Pat: bytesToInts(pat), Third: "none", Mcase: "none", PermTypes: []string{}, RestTypes: []string{}, PermDom: []aHost{},
		RestDom: []aHost{}, Denyallow: []aHost{}, PermDns: []string{}, RestDns: []string{}, PermTag: [][]int{}, RestTag: [][]int{},
		PermCli: []aCli{}, RestCli: []aCli{}, DocOpts: []string{}, Misc: []string{}, Rewrite: [][]int{}}
}

// vh dns-pool out=<dnspool.ndjson>
func cmdDNSPool(args []string) error {
	m := argMap(args)
	rnd := rand.New(rand.NewSource(seed()))
	dc := findCollisions("", ".com", 9, "abcdefghijklmnopqrstuvwxyz0123456789", 1, rnd)
	if len(dc) < 1 {
		return fmt.Errorf("no colliding hostnames found")
	}
	h, coll := dc[0][0], dc[0][1]
	sub, other := "sub."+h, "other.net"
	pat := "||" + h + "^"
	name253 := strings.Repeat("a", 61) + "." + strings.Repeat("b", 61) + "." + strings.Repeat("c", 61) + "." + strings.Repeat("d", 57) + "." + "example.xy"
	name253 = name253[len(name253)-253:]
	if name253[0] == '.' {
		name253 = "e" + name253[1:]
	}
	pool := dnsPool{Note: fmt.Sprintf("hostnames %s and %s collide under djb2", h, coll)}
	net := func(mod func(r *aRule)) {
		r := emptyRule(pat)
		mod(r)
		pool.Entries = append(pool.Entries, dnsEntry{Kind: "net", Rule: r})
	}
	host := func(text, fam string, names ...string) {
		pool.Entries = append(pool.Entries, dnsEntry{Kind: "host", Text: text, Fam: fam, Names: hostsOf(names)})
	}
	host("0.0.0.0 "+h, "v4", h)
	host("::1 "+h, "v6", h)
	host("::ffff:1.2.3.4 "+h, "v6", h)
	host("1.2.3.4 "+h+"  "+sub+" # both", "v4", h, sub)
	host("10.0.0.1 "+sub+" # replaces ||"+sub+"^$important and */ads/*", "v4", sub)
	host(h, "v4", h)
	// a name written with capitals is that name, letter for letter: the same spelling finds it, another one does not
	host("0.0.0.0 Upper."+h, "v4", "Upper."+h)
	host("0.0.0.0 "+coll, "v4", coll)
	host("::2 "+coll+" "+other, "v6", coll, other)
	net(func(r *aRule) {})
	net(func(r *aRule) { r.White = true })
	net(func(r *aRule) { r.Important = true })
	net(func(r *aRule) { r.White, r.Important = true, true })
	net(func(r *aRule) { r.Rewrite = [][]int{bytesToInts("1.2.3.4")} })
	net(func(r *aRule) { r.Badfilter = true })
	net(func(r *aRule) { r.PermDns = []string{"A"} })
	net(func(r *aRule) { r.PermCli = []aCli{{K: "name", V: bytesToInts("phone")}} })
	net(func(r *aRule) { r.RestTag = [][]int{bytesToInts("t1")} })
	// two excluded tags, written out of alphabetical order
	net(func(r *aRule) { r.RestTag = [][]int{bytesToInts("t2"), bytesToInts("t1")} })
	// near twins in the excluded record types: the $badfilter one is no twin of the other
	net(func(r *aRule) { r.RestDns = []string{"MX"} })
	net(func(r *aRule) { r.RestDns = []string{"TXT"}; r.Badfilter = true })
	// the shortest pattern an unrestricted rule may have
	net(func(r *aRule) { r.Pat = bytesToInts(".co") })
	// a "/label." pattern is matched against "http://<hostname>" for hostname requests (every letter and digit counts as
	// part of a label, 'z' and '0' included)
	net(func(r *aRule) { r.Pat = bytesToInts("/zone0.") })
	// a bare domain of exactly 253 characters is still a hosts entry
	host(name253, "v4", name253)
	// client given by network: it counts whether or not the request also names the client
	net(func(r *aRule) { r.PermCli = []aCli{{K: "net", Fam: 4, Bytes: []int{10, 0, 0, 0}, Bits: 8}} })
	net(func(r *aRule) { r.RestCli = []aCli{{K: "net", Fam: 4, Bytes: []int{10, 0, 0, 5}, Bits: 32}} })
	net(func(r *aRule) { r.Denyallow = hostsOf([]string{sub}) })
	net(func(r *aRule) { r.Pat = bytesToInts("||" + coll + "^"); r.White = true })
	// $denyallow never applies to an IP-address hostname - and a name made of hexadecimal digits is not an address
	net(func(r *aRule) { r.Pat = bytesToInts("||cafe.be^"); r.Denyallow = hostsOf([]string{other}) })
	net(func(r *aRule) { r.Pat = bytesToInts("||1.2.3.4^"); r.Denyallow = hostsOf([]string{other}) })
	// a line that is nothing but an address is no hosts entry (there is no name): it is a rule with that text as its pattern
	net(func(r *aRule) { r.Pat = bytesToInts("1.2.3.4") })
	// browser-only rules: they would match if they were loaded
	net(func(r *aRule) { r.Mcase = "on" })
	net(func(r *aRule) { r.Third = "off" })
	net(func(r *aRule) { r.RestDom = hostsOf([]string{"x.test"}) })
	net(func(r *aRule) {
		r.White = true
		r.DocOpts = []string{"elemhide", "jsinject", "urlblock", "content", "extension"}
	})
	net(func(r *aRule) { r.PermTypes = []string{"script"}; r.RestTypes = []string{"image"} })
	net(func(r *aRule) { r.RestTypes = []string{"image"} }) // one-sided content-type list: still DNS-applicable
	// browser-only modifiers next to $important / $badfilter: still not DNS-applicable
	net(func(r *aRule) { r.Important = true; r.Mcase = "on" })
	net(func(r *aRule) { r.White, r.Important = true, true; r.DocOpts = []string{"elemhide"} })
	net(func(r *aRule) { r.Badfilter = true; r.Third = "on" })
	net(func(r *aRule) { r.Important = true; r.Misc = []string{"popup"} })
	rr := rand.New(rand.NewSource(1))
	var parseMismatch []string
	for i := range pool.Entries {
		e := &pool.Entries[i]
		if e.Kind == "net" {
			e.Text = e.Rule.text(0, rr)
			r, err := rules.NewNetworkRule(e.Text, 1)
			if err != nil {
				// every pool rule has a meaning in the specification: a parser that refuses one loses it
				parseMismatch = append(parseMismatch, fmt.Sprintf("rule %q is rejected by the parser: %v", e.Text, err))
				continue
			}
			if err = checkRendered(e.Rule, r); err != nil {
				return rejectedErr("the rule %q is parsed differently from what the specification says: %v", e.Text, err)
			}
			// ... and a list reads the line as that rule too
			if lr, lerr := rules.NewRule(e.Text, 1); lerr != nil || lr == nil || lr.Text() != e.Text {
				parseMismatch = append(parseMismatch, fmt.Sprintf("line %q of a list is not read as the rule it is (%T, %v)", e.Text, lr, lerr))
			} else if _, isNet := lr.(*rules.NetworkRule); !isNet {
				parseMismatch = append(parseMismatch, fmt.Sprintf("line %q of a list is read as %T, not as a network rule", e.Text, lr))
			}
		} else {
			r, err := rules.NewRule(e.Text, 1)
			hr, ok := r.(*rules.HostRule)
			if err != nil || !ok {
				// the specification says this line is a hosts entry; a parser that makes something else of it loses it
				parseMismatch = append(parseMismatch, fmt.Sprintf("hosts line %q is not parsed as a hosts entry (%T, %v)", e.Text, r, err))
				continue
			}
			var want []string
			for _, n := range e.Names {
				want = append(want, n.String())
			}
			if strings.Join(hr.Hostnames, " ") != strings.Join(want, " ") || hr.IP.Is4() != (e.Fam == "v4") {
				parseMismatch = append(parseMismatch, fmt.Sprintf("hosts line %q: names %v expected, parser gives %v", e.Text, want, hr.Hostnames))
			}
		}
	}
	hs := map[string]bool{}
	for _, name := range []string{h, coll, sub, other, "x" + h, "cafe.be", "1.2.3.4", "a_b." + h, "zone0." + h, name253, "Upper." + h, "upper." + h} {
		if !hs[name] {
			hs[name] = true
			pool.Hashes = append(pool.Hashes, niHash{W: bytesToInts(name), H: fmt.Sprint(filterutil.FastHash(name))})
		}
		for _, dt := range []string{"A", "AAAA", "none"} {
			for _, cl := range []string{"", "phone"} {
				for _, tg := range [][]string{{}, {"t1"}} {
					for _, cip := range []aIP{{Nil: true}, {Fam: 4, Bytes: []int{10, 0, 0, 5}}} {
						if !cip.Nil && (dt != "A" || len(tg) > 0) {
							continue // the client address is varied for A queries without tags only
						}
						if dt == "none" && (cl != "" || len(tg) > 0) {
							continue // a request that names no record type (DNSEngine.Match) is asked once per name
						}
						if len(name) > 200 && (dt != "A" || cl != "" || len(tg) > 0 || !cip.Nil) {
							continue // the longest name is asked once (the model walks its characters for every rule)
						}
						q := aReq{Hostreq: true, URL: bytesToInts("http://" + name), Host: hostFromString(name), Src: aHost{}, HostIsIP: isIPLiteral(name),
							HostPsl: realPsl(name), Type: "document", DNSType: dt, Tags: codesOf(tg), Cname: bytesToInts(cl), Cip: cip}
						pool.Queries = append(pool.Queries, q)
					}
				}
			}
		}
	}
	out, err := newNDWriter(m["out"])
	if err != nil {
		return err
	}
	out.write(pool)
	out.close()
	summary(map[string]any{"entries": len(pool.Entries), "queries": len(pool.Queries), "note": pool.Note, "parse_mismatch": parseMismatch})
	return nil
}

type dnsAnswer struct {
	Net     []int  `json:"net"`
	Class   string `json:"class"`
	Winners []int  `json:"winners"`
	V4      []int  `json:"v4"`
	V6      []int  `json:"v6"`
	Matched bool   `json:"matched"`
}

type dnsCase struct {
	Kind string      `json:"kind"`
	Sel  []int       `json:"sel"`
	Exp  []dnsAnswer `json:"exp"`
}

// vh replay-dns pool=<dnspool.ndjson> in=<cases.ndjson> out=<mismatches.ndjson>
func cmdReplayDNS(args []string) error {
	m := argMap(args)
	pools, err := readND[dnsPool](m["pool"])
	if err != nil || len(pools) != 1 {
		return fmt.Errorf("pool: %v", err)
	}
	pool := pools[0]
	recs, err := readND[dnsCase](m["in"])
	if err != nil {
		return err
	}
	out, err := newNDWriter(m["out"])
	if err != nil {
		return err
	}
	defer out.close()
	rnd := rand.New(rand.NewSource(seed()))
	textsOfIDs := func(ids []int) string {
		var o []string
		for _, i := range ids {
			o = append(o, pool.Entries[i-1].Text)
		}
		sort.Strings(o)
		return strings.Join(o, " | ")
	}
	evals, mism, nontrivial := 0, 0, 0
	var samples []map[string]any
	for ci, c := range recs {
		if c.Kind != "CASE" || len(c.Sel) == 0 {
			continue
		}
		sort.Ints(c.Sel)
		var texts []string
		for _, i := range c.Sel {
			texts = append(texts, pool.Entries[i-1].Text)
		}
		rnd.Shuffle(len(texts), func(i, j int) { texts[i], texts[j] = texts[j], texts[i] })
		lists := splitLists(texts, 1+rnd.Intn(2), rnd)
		st, err := buildStorage(lists)
		if err != nil {
			return err
		}
		var eng *urlfilter.DNSEngine
		if pv := safeCall(func() { eng = urlfilter.NewDNSEngine(st) }); pv != "" {
			mism++
			out.write(map[string]any{"why": "panic building the engine: " + pv, "lists": lists, "case": c})
			continue
		}
		for k := range pool.Queries {
			q := &pool.Queries[k]
			e := c.Exp[k]
			evals++
			if e.Matched || len(e.Net) > 0 {
				nontrivial++
			}
			dq := &urlfilter.DNSRequest{Hostname: q.Host.String(), DNSType: dns.StringToType[q.DNSType], ClientName: intsToString(q.Cname)}
			if tg := codesToStrings(q.Tags); len(tg) > 0 {
				sort.Strings(tg)
				dq.SortedClientTags = tg
			}
			if !q.Cip.Nil && q.Cip.Fam != 0 {
				dq.ClientIP = addrOf(q.Cip.Fam, q.Cip.Bytes)
			}
			var res *urlfilter.DNSResult
			var matched bool
			pv := safeCall(func() { res, matched = eng.MatchRequest(dq) })
			why := ""
			got := map[string]any{}
			if pv != "" {
				why = "panic " + pv
			} else {
				hostTexts := func(hs []*rules.HostRule) string {
					var o []string
					for _, r := range hs {
						o = append(o, r.RuleText)
					}
					sort.Strings(o)
					return strings.Join(o, " | ")
				}
				nt := textsOf(res.NetworkRules)
				sort.Strings(nt)
				got = map[string]any{"net": strings.Join(nt, " | "), "class": classOf(res.NetworkRule), "v4": hostTexts(res.HostRulesV4),
					"v6": hostTexts(res.HostRulesV6), "matched": matched}
				switch {
				case strings.Join(nt, " | ") != textsOfIDs(e.Net):
					why = "NetworkRules"
				case classOf(res.NetworkRule) != e.Class:
					why = "basic rule class"
				case res.NetworkRule != nil && !strings.Contains(" | "+textsOfIDs(e.Winners)+" | ", " | "+res.NetworkRule.RuleText+" | "):
					why = "basic rule is not an admissible winner"
				case hostTexts(res.HostRulesV4) != textsOfIDs(e.V4):
					why = "HostRulesV4"
				case hostTexts(res.HostRulesV6) != textsOfIDs(e.V6):
					why = "HostRulesV6"
				case matched != e.Matched:
					why = "matched flag"
				}
			}
			if why != "" {
				mism++
				out.write(map[string]any{"why": why, "lists": lists, "query": q.describe(), "expected": map[string]any{"net": textsOfIDs(e.Net), "class": e.Class,
					"v4": textsOfIDs(e.V4), "v6": textsOfIDs(e.V6), "matched": e.Matched}, "got": got, "case": c, "query_no": k + 1})
			}
		}
		if len(samples) < 4 && len(c.Sel) >= 2 && ci%311 == 7 {
			samples = append(samples, map[string]any{"list": texts})
		}
	}
	summary(map[string]any{"cases": len(recs), "evaluations": evals, "mismatches": mism, "nontrivial": nontrivial, "samples": samples, "note": pool.Note})
	return nil
}

func init() {
	register("dns-pool", cmdDNSPool)
	register("replay-dns", cmdReplayDNS)
}

// ---- code -> spec: real-world lists ----

type dnsMatchEntry struct {
	ID        int    `json:"id"`
	K         string `json:"k"`
	White     bool   `json:"white"`
	Important bool   `json:"important"`
	Rewrite   bool   `json:"rewrite"`
	Stealth   bool   `json:"stealth"`
	Hostlevel bool   `json:"hostlevel"`
	Fam       string `json:"fam"`
}

type dnsListEvent struct {
	Host     string          `json:"host"`
	Matching []dnsMatchEntry `json:"matching"`
	Net      []int           `json:"net"`
	Basic    int             `json:"basic"`
	V4       []int           `json:"v4"`
	V6       []int           `json:"v6"`
	Matched  bool            `json:"matched"`
	Phase    string          `json:"phase,omitempty"`
}

// vh drive-dnslists n=<queries> rules=<lines sampled per list> out=<trace.ndjson>
func cmdDriveDNSLists(args []string) error {
	m := argMap(args)
	n := argInt(m, "n", 500)
	per := argInt(m, "rules", 4000)
	out, err := newNDWriter(m["out"])
	if err != nil {
		return err
	}
	defer out.close()
	rnd := rand.New(rand.NewSource(seed()*37 + 12))
	var lines []string
	for _, fn := range []string{"testdata/hosts", "testdata/adguard_sdn_filter.txt"} {
		all, err := readLines(repoDir() + "/" + fn)
		if err != nil {
			return err
		}
		start := 0
		if len(all) > per {
			start = rnd.Intn(len(all) - per)
			all = all[start : start+per]
		}
		lines = append(lines, all...)
	}
	type entry struct {
		text string
		net  *rules.NetworkRule
		host *rules.HostRule
	}
	var entries []entry
	var hostnames []string
	var kept []string
	for _, l := range lines {
		r, err := rules.NewRule(l, 1)
		if err != nil || r == nil {
			continue
		}
		switch x := r.(type) {
		case *rules.NetworkRule:
			entries = append(entries, entry{text: l, net: x})
			kept = append(kept, l)
			if s := x.Shortcut; strings.Contains(s, ".") && !strings.ContainsAny(s, "/:*") {
				hostnames = append(hostnames, strings.Trim(s, "."))
			}
		case *rules.HostRule:
			entries = append(entries, entry{text: l, host: x})
			kept = append(kept, l)
			hostnames = append(hostnames, x.Hostnames...)
		}
	}
	// rules near the sampled hostnames so that verdict logic is exercised on top of the real data
	for i := 0; i < 150 && len(hostnames) > 0; i++ {
		h := hostnames[rnd.Intn(len(hostnames))]
		t := []string{"@@||" + h + "^", "||" + h + "^$important", "@@||" + h + "^$important", "||" + h + "^$dnsrewrite=1.2.3.4", "::1 " + h,
			"||" + h + "^$third-party", "||" + h + "^$dnstype=AAAA"}[rnd.Intn(7)]
		r, err := rules.NewRule(t, 1)
		if err != nil || r == nil {
			continue
		}
		kept = append(kept, t)
		switch x := r.(type) {
		case *rules.NetworkRule:
			entries = append(entries, entry{text: t, net: x})
		case *rules.HostRule:
			entries = append(entries, entry{text: t, host: x})
		}
	}
	{
		var names []string
		for i := 0; i < 400; i++ {
			names = append(names, fmt.Sprintf("alias%03d.long.example", i))
		}
		t := "10.9.8.7 " + strings.Join(names, " ")
		if r, err := rules.NewRule(t, 1); err == nil {
			if hr, ok := r.(*rules.HostRule); ok {
				entries = append(entries, entry{text: t, host: hr})
				kept = append(kept, t)
				hostnames = append(hostnames, names[3], names[200], names[399])
			}
		}
	}
	idOf := map[string]int{}
	for i, e := range entries {
		if _, dup := idOf[e.text]; !dup {
			idOf[e.text] = i + 1
		}
	}
	half := len(kept) / 2
	// three lists, the middle one without a single rule: list boundaries must not matter
	st, err := buildStorage([][]string{kept[:half], {"! nothing but comments in this list", "# and blank lines", ""}, kept[half:]})
	if err != nil {
		return err
	}
	eng := urlfilter.NewDNSEngine(st)
	skippedBadfilter, nonEmpty := 0, 0
	var asked []dnsListEvent
	answer := func(e *urlfilter.DNSEngine, ev *dnsListEvent) {
		var res *urlfilter.DNSResult
		pv := safeCall(func() { res, ev.Matched = e.Match(ev.Host) })
		if pv != "" {
			ev.Basic = -1
			return
		}
		for _, r := range res.NetworkRules {
			ev.Net = append(ev.Net, idOf[r.RuleText])
		}
		if res.NetworkRule != nil {
			ev.Basic = idOf[res.NetworkRule.RuleText]
		}
		for _, r := range res.HostRulesV4 {
			ev.V4 = append(ev.V4, idOf[r.RuleText])
		}
		for _, r := range res.HostRulesV6 {
			ev.V6 = append(ev.V6, idOf[r.RuleText])
		}
	}
	for q := 0; q < n; q++ {
		h := hostnames[rnd.Intn(len(hostnames))]
		roll := rnd.Intn(6)
		if q < 3 {
			h, roll = []string{"alias003.long.example", "alias200.long.example", "alias399.long.example"}[q], 9
		}
		switch roll {
		case 0:
			h = "www." + h
		case 1:
			h = "x" + h
		case 2:
			if k := strings.IndexByte(h, '.'); k > 0 && strings.Count(h, ".") > 1 {
				h = h[k+1:]
			}
		}
		if h == "" {
			continue
		}
		req := rules.NewRequestForHostname(h)
		ev := dnsListEvent{Host: h, Matching: []dnsMatchEntry{}, Net: []int{}, V4: []int{}, V6: []int{}}
		bad := false
		seen := map[int]bool{}
		for _, e := range entries {
			id := idOf[e.text]
			if seen[id] {
				continue
			}
			if e.net != nil && e.net.Match(req) {
				seen[id] = true
				if e.net.IsOptionEnabled(rules.OptionBadfilter) {
					bad = true
				}
				ev.Matching = append(ev.Matching, dnsMatchEntry{ID: id, K: "net", White: e.net.Whitelist, Important: e.net.IsOptionEnabled(rules.OptionImportant),
					Rewrite: e.net.DNSRewrite != nil, Stealth: e.net.IsOptionEnabled(rules.OptionStealth), Hostlevel: e.net.IsHostLevelNetworkRule(), Fam: ""})
			}
			if e.host != nil && e.host.Match(h) {
				seen[id] = true
				fam := "v6"
				if e.host.IP.Is4() {
					fam = "v4"
				}
				ev.Matching = append(ev.Matching, dnsMatchEntry{ID: id, K: "host", Fam: fam})
			}
		}
		if bad {
			skippedBadfilter++
			continue
		}
		answer(eng, &ev)
		if len(ev.Matching) > 0 {
			nonEmpty++
		}
		out.write(ev)
		asked = append(asked, ev)
	}
	// the same queries again, from 8 goroutines, over cold file-backed copies of the lists
	fst, closeFiles, err := fileStorage([][]string{kept[:half], {"! nothing but comments in this list", "# and blank lines", ""}, kept[half:]})
	if err != nil {
		return err
	}
	defer closeFiles()
	feng := urlfilter.NewDNSEngine(fst)
	var mu sync.Mutex
	differing := 0
	concurrently(len(asked), 8, seed(), func(_, i int) {
		ev := asked[i]
		ev.Net, ev.V4, ev.V6, ev.Basic, ev.Matched, ev.Phase = []int{}, []int{}, []int{}, 0, false, "concurrent-file"
		answer(feng, &ev)
		if !sameAnswer(&ev, &asked[i]) {
			mu.Lock()
			if differing++; differing <= 200 {
				out.write(ev)
			}
			mu.Unlock()
		}
	})
	summary(map[string]any{"events": out.n, "entries": len(entries), "skipped_badfilter": skippedBadfilter, "non_empty": nonEmpty,
		"concurrent_answers": 8 * len(asked), "concurrent_differing": differing})
	return nil
}

func sameAnswer(a, b *dnsListEvent) bool {
	eq := func(x, y []int) bool {
		x, y = append([]int{}, x...), append([]int{}, y...)
		sort.Ints(x)
		sort.Ints(y)
		return fmt.Sprint(x) == fmt.Sprint(y)
	}
	return a.Basic == b.Basic && a.Matched == b.Matched && eq(a.Net, b.Net) && eq(a.V4, b.V4) && eq(a.V6, b.V6)
}

func init() {
	register("drive-dnslists", cmdDriveDNSLists)
}
