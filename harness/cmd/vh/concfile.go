package main

// File-backed twins of the in-memory lists and a concurrent second pass: the drivers of C02 / C11 / C13 answer every
// query once sequentially over string lists and then again from several goroutines over cold file-backed lists; any
// answer that differs from the sequential one is written to the trace, where the specification judges it.

import (
	"math/rand"
	"os"
	"path/filepath"
	"runtime"
	"strconv"
	"strings"
	"sync"

	"github.com/AdguardTeam/urlfilter/filterlist"
)

// fileStorage is buildStorage over FileRuleLists (same list ids, same text, hence the same storage indexes).
func fileStorage(lists [][]string) (*filterlist.RuleStorage, func(), error) {
	dir, err := os.MkdirTemp("", "vh-lists-")
	if err != nil {
		return nil, nil, err
	}
	cleanup := func() { _ = os.RemoveAll(dir) }
	var ls []filterlist.RuleList
	ids := []int{7, -5, 0, 2147483647}
	for i, l := range lists {
		p := filepath.Join(dir, "list"+strconv.Itoa(i)+".txt")
		if err = os.WriteFile(p, []byte(strings.Join(l, "\n")+"\n"), 0o600); err != nil {
			cleanup()
			return nil, nil, err
		}
		fl, err := filterlist.NewFileRuleList(ids[i%len(ids)], p, false)
		if err != nil {
			cleanup()
			return nil, nil, err
		}
		ls = append(ls, fl)
	}
	st, err := filterlist.NewRuleStorage(ls)
	if err != nil {
		cleanup()
		return nil, nil, err
	}
	return st, func() { _ = st.Close(); cleanup() }, nil
}

// concurrently runs f(i) for every i < n from g goroutines, each in its own order, with the yield hooks stretching the
// windows between a cache miss, the file read and the cache insert.
func concurrently(n, g int, sd int64, f func(worker, i int)) {
	setYield(func(p string) {
		if len(p)%2 == 0 {
			runtime.Gosched()
		}
	})
	defer setYield(nil)
	var wg sync.WaitGroup
	for w := 0; w < g; w++ {
		wg.Add(1)
		go func(w int) {
			defer wg.Done()
			order := rand.New(rand.NewSource(sd + int64(w)*7919)).Perm(n)
			if w%2 == 0 { // half of the workers walk the same order, so they miss the cache on the same rule together
				for i := range order {
					order[i] = i
				}
			}
			for _, i := range order {
				f(w, i)
			}
		}(w)
	}
	wg.Wait()
}
