package main

// File-backed twins of the in-memory lists and a concurrent second pass: the drivers of C02 / C11 / C13 answer every
// query once sequentially over string lists and then again from several goroutines over cold file-backed lists; any
// answer that differs from the sequential one is written to the trace, where the specification judges it.

import (
	"io"
	"math/rand"
	"os"
	"path/filepath"
	"runtime"
	"strconv"
	"strings"
	"sync"

	"github.com/AdguardTeam/urlfilter/filterlist"
	"github.com/AdguardTeam/urlfilter/rules"
)

// fileStorage is buildStorage over FileRuleLists (same list ids, same text, hence the same storage indexes).
func fileStorage(lists [][]string) (*filterlist.RuleStorage, func(), error) {
	dir, err := os.MkdirTemp("", "vh-lists-")
	if err != nil {
		return nil, nil, err
	}
	cleanup := func() { _ = os.RemoveAll(dir) }
	var ls []filterlist.RuleList
	ids := []int{7, -5, 0, 2147483647}
	for i, l := range lists {
		p := filepath.Join(dir, "list"+strconv.Itoa(i)+".txt")
		if err = os.WriteFile(p, []byte(strings.Join(l, "\n")+"\n"), 0o600); err != nil {
			cleanup()
			return nil, nil, err
		}
		fl, err := filterlist.NewFileRuleList(ids[i%len(ids)], p, false)
		if err != nil {
			cleanup()
			return nil, nil, err
		}
		ls = append(ls, fl)
	}
	st, err := filterlist.NewRuleStorage(ls)
	if err != nil {
		cleanup()
		return nil, nil, err
	}
	return st, func() { _ = st.Close(); cleanup() }, nil
}

// concurrently runs f(i) for every i < n from g goroutines, each in its own order, with the yield hooks stretching the
// windows between a cache miss, the file read and the cache insert.
func concurrently(n, g int, sd int64, f func(worker, i int)) {
	setYield(func(p string) {
		if len(p)%2 == 0 {
			runtime.Gosched()
		}
		if p == "file-read" {
			// between the seek and the read of a file-backed retrieval: under the list's lock nobody else can be here, and
			// giving way costs nothing; a list that lets two readers in will have them swap places here, however busy the
			// machine is
			runtime.Gosched()
			for i := 0; i < 200; i++ {
				_ = i * i
			}
			runtime.Gosched()
		}
	})
	defer setYield(nil)
	var wg sync.WaitGroup
	for w := 0; w < g; w++ {
		wg.Add(1)
		go func(w int) {
			defer wg.Done()
			order := rand.New(rand.NewSource(sd + int64(w)*7919)).Perm(n)
			if w%2 == 0 { // half of the workers walk the same order, so they miss the cache on the same rule together
				for i := range order {
					order[i] = i
				}
			}
			for _, i := range order {
				f(w, i)
			}
		}(w)
	}
	wg.Wait()
}

// ---- list layouts ----
//
// What a list means does not depend on how it is stored: in memory or in a file, with or without a line break after
// its last line.  Every replay that builds a storage from rule texts goes through layoutStorage, which cycles through
// these layouts, so that each property's cases also run over file-backed lists and unterminated last lines.

var (
	layoutCounter int
	layoutRing    []func()
	layoutMu      sync.Mutex
)

// layoutStorage builds a storage of the given texts (one per list) under the given list ids, in the next layout.
func layoutStorage(texts []string, ids []int) (*filterlist.RuleStorage, error) {
	layoutMu.Lock()
	defer layoutMu.Unlock()
	layoutCounter++
	// of 12 consecutive storages: 8 in memory, 2 in memory without a final line break, 1 in files, 1 in files without
	// a final line break (variant: 0..2 memory, 3 memory/unterminated, 4 files, 5 files/unterminated)
	variant := []int{0, 1, 2, 3, 0, 4, 1, 3, 2, 0, 1, 5}[layoutCounter%12]
	// every fifth storage also has lists without a single rule - empty, blank lines, comments only - in front of,
	// between and behind the lists of the case: they mean nothing, wherever they stand
	if layoutCounter%5 == 2 {
		texts, ids = withRulelessLists(texts, ids)
	}
	// every seventh storage has CRLF line ends: where a line ends is the list layer's business, what it says is not
	if layoutCounter%7 == 3 {
		crlf := make([]string, len(texts))
		for i, t := range texts {
			crlf[i] = strings.ReplaceAll(strings.ReplaceAll(t, "\r\n", "\n"), "\n", "\r\n")
		}
		texts = crlf
	}
	var ls []filterlist.RuleList
	var cleanup func()
	if variant >= 4 {
		dir, err := os.MkdirTemp("", "vh-layout-")
		if err != nil {
			return nil, err
		}
		cleanup = func() { _ = os.RemoveAll(dir) }
		for i, t := range texts {
			t = strings.TrimSuffix(strings.TrimSuffix(t, "\n"), "\r")
			if variant == 4 {
				t += "\n"
			}
			p := filepath.Join(dir, "l"+strconv.Itoa(i)+".txt")
			if err = os.WriteFile(p, []byte(t), 0o600); err != nil {
				cleanup()
				return nil, err
			}
			fl, err := filterlist.NewFileRuleList(ids[i%len(ids)], p, false)
			if err != nil {
				cleanup()
				return nil, err
			}
			ls = append(ls, fl)
		}
	} else {
		for i, t := range texts {
			t = strings.TrimSuffix(strings.TrimSuffix(t, "\n"), "\r")
			if variant != 3 {
				t += "\n"
			}
			ls = append(ls, &filterlist.StringRuleList{ID: ids[i%len(ids)], RulesText: t})
		}
	}
	st, err := filterlist.NewRuleStorage(ls)
	if err != nil {
		if cleanup != nil {
			cleanup()
		}
		return nil, err
	}
	if cleanup != nil {
		// file-backed storages are used right after they are built; the 16th-newest one is closed and removed
		layoutRing = append(layoutRing, func() { _ = st.Close(); cleanup() })
		if len(layoutRing) > 16 {
			layoutRing[0]()
			layoutRing = layoutRing[1:]
		}
	}
	return st, nil
}

// withRulelessLists puts a list without rules in front of, between and behind the given ones (ids not used by them).
func withRulelessLists(texts []string, ids []int) (ts []string, is []int) {
	used := map[int]bool{}
	for i := range texts {
		used[ids[i%len(ids)]] = true
	}
	next := 7000
	fresh := func() int {
		for next++; used[next]; next++ {
		}
		return next
	}
	fillers := []string{"! nothing but a comment\n# and another one\n", "", "\n\n   \n"}
	// (two in a row each time: skipping ONE list that has nothing to give is not the same as skipping all of them)
	for i, t := range texts {
		ts, is = append(ts, fillers[i%len(fillers)]), append(is, fresh())
		ts, is = append(ts, fillers[(i+1)%len(fillers)]), append(is, fresh())
		ts, is = append(ts, t), append(is, ids[i%len(ids)])
	}
	ts, is = append(ts, fillers[len(texts)%len(fillers)]), append(is, fresh())
	ts, is = append(ts, fillers[(len(texts)+1)%len(fillers)]), append(is, fresh())
	return ts, is
}

// layoutCleanup closes what layoutStorage still holds open (called at the end of a command).
func layoutCleanup() {
	layoutMu.Lock()
	defer layoutMu.Unlock()
	for _, f := range layoutRing {
		f()
	}
	layoutRing = nil
}

// ---- a list far longer than anything that fits in a test fixture ----

// virtualList is a RuleList whose text is `pad` bytes of comment lines followed by `tail`; nothing of the padding is
// ever held in memory, so offsets of hundreds of megabytes cost only the time to scan them.
type virtualList struct {
	id   int
	pad  int64
	tail string
}

type padReader struct{ left int64 }

var padLine = []byte("! " + strings.Repeat("p", 4093) + "\n") // 4096 bytes

func (p *padReader) Read(b []byte) (int, error) {
	if p.left <= 0 {
		return 0, io.EOF
	}
	n := 0
	for n < len(b) && p.left > 0 {
		off := int((int64(len(padLine)) - p.left%int64(len(padLine))) % int64(len(padLine)))
		c := copy(b[n:], padLine[off:])
		if int64(c) > p.left {
			c = int(p.left)
		}
		n += c
		p.left -= int64(c)
	}
	return n, nil
}

func newVirtualList(id int, padLines int, tail string) *virtualList {
	return &virtualList{id: id, pad: int64(padLines) * int64(len(padLine)), tail: tail}
}

func (v *virtualList) GetID() int   { return v.id }
func (v *virtualList) Close() error { return nil }
func (v *virtualList) NewScanner() *filterlist.RuleScanner {
	return filterlist.NewRuleScanner(io.MultiReader(&padReader{left: v.pad}, strings.NewReader(v.tail)), v.id, false)
}
func (v *virtualList) RetrieveRule(idx int) (rules.Rule, error) {
	off := int64(idx) - v.pad
	if off < 0 || off > int64(len(v.tail)) {
		return nil, filterlist.ErrRuleRetrieval
	}
	line := v.tail[off:]
	if k := strings.IndexByte(line, '\n'); k >= 0 {
		line = line[:k]
	}
	return rules.NewRule(line, v.id)
}
