package main

// C03 / C05: export the regexp/syntax program of the regular expression the
// real code compiled for a rule (hook rules.(*NetworkRule).VerifCompiled), so
// that TLC can explore its product with the reference automata; and confirm
// TLC's witnesses on the real code.

import (
	"bufio"
	"encoding/json"
	"fmt"
	"math/rand"
	"os"
	"path/filepath"
	"regexp"
	"regexp/syntax"
	"sort"
	"strings"

	"github.com/AdguardTeam/urlfilter/rules"
)

type pInst struct {
	Op    string   `json:"op"`
	Out   int      `json:"out"`
	Arg   int      `json:"arg"`
	Set   [][2]int `json:"set"`
	Empty int      `json:"empty"`
}

type progCase struct {
	ID      int     `json:"id"`
	Rule    string  `json:"rule"`
	Src     string  `json:"src"` // source URL under which the rule's $domain holds ("" if none)
	Pat     []int   `json:"pat"`
	PatS    string  `json:"pats"`
	MC      bool    `json:"mc"`
	Status  string  `json:"status"` // ok | any | invalid | panic
	Start   int     `json:"start"`
	Prog    []pInst `json:"prog"`
	Classes [][]int `json:"classes"`
	SC      []int   `json:"sc"`
	Kind    string  `json:"kind"` // mask | regex
	PanicV  string  `json:"panicv,omitempty"`
}

const maxProgInst = 400

var errSkip = fmt.Errorf("skip")

// compileReal builds the rule with the real parser and asks the real code for
// the compiled pattern.
func compileReal(text string) (r *rules.NetworkRule, re *regexp.Regexp, status int, panicV string, err error) {
	r, err = rules.NewNetworkRule(text, 1)
	if err != nil {
		return nil, nil, 0, "", err
	}
	func() {
		defer func() {
			if x := recover(); x != nil {
				panicV = fmt.Sprint(x)
			}
		}()
		re, status = r.VerifCompiled()
	}()
	return r, re, status, panicV, nil
}

func progOf(expr string) (*syntax.Prog, error) {
	rx, err := syntax.Parse(expr, syntax.Perl)
	if err != nil {
		return nil, err
	}
	return syntax.Compile(rx.Simplify())
}

func instsOf(prog *syntax.Prog) []pInst {
	out := make([]pInst, 0, len(prog.Inst))
	for i := range prog.Inst {
		in := &prog.Inst[i]
		o := pInst{Out: int(in.Out), Arg: int(in.Arg), Set: [][2]int{}}
		switch in.Op {
		case syntax.InstAlt, syntax.InstAltMatch:
			o.Op = "alt"
		case syntax.InstCapture, syntax.InstNop:
			o.Op = "nop"
		case syntax.InstEmptyWidth:
			o.Op = "empty"
			o.Empty = int(in.Arg)
			o.Arg = 0
		case syntax.InstMatch:
			o.Op = "match"
		case syntax.InstFail:
			o.Op = "fail"
		default:
			o.Op = "rune"
			o.Arg = 0
			lo := -1
			for ch := 33; ch <= 127; ch++ {
				m := ch < 127 && in.MatchRune(rune(ch))
				if m && lo < 0 {
					lo = ch
				}
				if !m && lo >= 0 {
					o.Set = append(o.Set, [2]int{lo, ch - 1})
					lo = -1
				}
			}
		}
		out = append(out, o)
	}
	return out
}

func inRanges(rs [][2]int, ch int) bool {
	for _, r := range rs {
		if ch >= r[0] && ch <= r[1] {
			return true
		}
	}
	return false
}

// proposeClasses partitions the alphabet into classes of characters that the
// program's rune instructions and the listed "interesting" characters do not
// separate.  Finer than necessary is fine; TLC verifies uniformity and cover.
func proposeClasses(prog []pInst, interesting string) [][]int {
	idx := map[string]int{}
	classes := [][]int{}
	li := strings.ToLower(interesting)
	for ch := 33; ch < 127; ch++ {
		var sb strings.Builder
		for _, in := range prog {
			if in.Op == "rune" {
				if inRanges(in.Set, ch) {
					sb.WriteByte('1')
				} else {
					sb.WriteByte('0')
				}
			}
		}
		lc := strings.ToLower(string(rune(ch)))
		if strings.Contains(li, lc) {
			sb.WriteString("=" + lc)
		}
		switch {
		case ch >= 'a' && ch <= 'z':
			sb.WriteString("L")
		case ch >= 'A' && ch <= 'Z':
			sb.WriteString("U")
		case ch >= '0' && ch <= '9':
			sb.WriteString("D")
		case strings.ContainsRune("-_.%", rune(ch)):
			sb.WriteString("P" + string(rune(ch)))
		default:
			sb.WriteString("O")
		}
		k, ok := idx[sb.String()]
		if !ok {
			k = len(classes)
			idx[sb.String()] = k
			classes = append(classes, nil)
		}
		classes[k] = append(classes[k], ch)
	}
	return classes
}

// exportRule exports one rule.  wantPat is the pattern the generator intended
// ("" = take the rule's own); a rule whose parsed pattern differs from it is
// skipped (renderer problem, never a verdict).
func exportRule(id int, text, src, wantPat string) (c progCase, err error) {
	c, _, err = exportRuleObj(id, text, src, wantPat)
	return c, err
}

// exportRuleObj also returns the rule object the case was taken from.
func exportRuleObj(id int, text, src, wantPat string) (c progCase, r *rules.NetworkRule, err error) {
	c, r, err = exportRuleInner(id, text, src, wantPat)
	return
}

func exportRuleInner(id int, text, src, wantPat string) (c progCase, r *rules.NetworkRule, err error) {
	c = progCase{ID: id, Rule: text, Src: src, Pat: []int{}, Prog: []pInst{}, Classes: [][]int{}, SC: []int{}}
	r, re, status, panicV, err := compileReal(text)
	if err != nil {
		return c, nil, errSkip
	}
	pat := r.VerifPattern()
	if wantPat != "" {
		// the reference is the pattern AS WRITTEN (the trailing "/*" form is part of the mask language, spec/Mask.tla).
		// Renderer sanity only: the text was split where intended iff the rule carries exactly the $domain we appended
		// (a pattern ending in a backslash would swallow the options delimiter).
		if d := r.GetPermittedDomains(); len(d) != 1 || d[0] != "example.org" || strings.HasSuffix(wantPat, "\\") {
			return c, r, errSkip
		}
		pat = wantPat
	}
	c.PatS = pat
	c.Pat = bytesToInts(pat)
	c.MC = r.IsOptionEnabled(rules.OptionMatchCase)
	c.SC = bytesToInts(r.Shortcut)
	if r.IsRegexRule() {
		c.Kind = "regex"
	} else {
		c.Kind = "mask"
	}
	for _, b := range []byte(pat) {
		if b < 33 || b > 126 {
			return c, r, errSkip
		}
	}
	switch {
	case panicV != "":
		c.Status = "panic"
		c.PanicV = panicV
		return c, r, nil
	case status == 0:
		c.Status = "any"
		c.Start = 0
		c.Prog = []pInst{{Op: "match", Set: [][2]int{}}}
	case status < 0 || re == nil:
		c.Status = "invalid"
		c.Start = 0
		c.Prog = []pInst{{Op: "fail", Set: [][2]int{}}}
	default:
		prog, perr := progOf(re.String())
		if perr != nil {
			return c, r, fmt.Errorf("regexp/syntax rejects what regexp accepted: %q: %w", re.String(), perr)
		}
		if len(prog.Inst) > maxProgInst {
			return c, r, errSkip
		}
		c.Status = "ok"
		c.Start = prog.Start
		c.Prog = instsOf(prog)
	}
	c.Classes = proposeClasses(c.Prog, pat+"htpsw:/."+r.Shortcut)
	return c, r, nil
}

var maskToks = []string{"a", "B", "1", ".", "?", "+", "(", "[", "{", "\\", "/", "|", "*", "^"}
var maskToksMore = []string{"h", "t", "p", ":", "w", "s", "-", "_", "%", ")", "]", "}", ",", "=", "~", "@", "#", "!", "&", "'", "\"", ";", "<", ">", "`", "\\$", "Z", "z", "0", "9"}

func isRegexText(p string) bool { return len(p) > 1 && p[0] == '/' && p[len(p)-1] == '/' }

func maskRuleText(p string, mc bool) string {
	t := p + "$domain=example.org"
	if mc {
		t += ",match-case"
	}
	return t
}

// genMask yields mask patterns.
func genMask(mode string, n int, rnd *rand.Rand, emit func(p string)) {
	switch mode {
	case "exh":
		var rec func(prefix string, d int)
		rec = func(prefix string, d int) {
			if d > 0 {
				emit(prefix)
			}
			if d == n {
				return
			}
			for _, t := range maskToks {
				rec(prefix+t, d+1)
			}
		}
		rec("", 0)
	case "rnd":
		all := append(append([]string{}, maskToks...), maskToksMore...)
		// (more pipes than anchors at either end: the surplus ones are literal characters)
		heads := []string{"", "", "", "|", "||", "||", "|http://", "||ws", "http", "https://", "wss:/", "|https://", "://", "|||", "||||"}
		tails := []string{"", "", "", "|", "^", "/*", "*", "^|", "^*", "/", "||", "|||", "\\|"}
		for _, p := range []string{"ads.js||", "|||example.org/ads", "||ads.js||", "ads||js", "ad|ban|ner.js", "||||x.js", "ads.js|||", "ab\\|", "||ab.c/d\\|"} {
			emit(p)
		}
		for i := 0; i < n; i++ {
			p := heads[rnd.Intn(len(heads))]
			m := rnd.Intn(9)
			for j := 0; j < m; j++ {
				p += all[rnd.Intn(len(all))]
			}
			p += tails[rnd.Intn(len(tails))]
			emit(p)
		}
	}
}

// regex grammar for C05
func genRegex(rnd *rand.Rand, depth int) string {
	lits := []string{"a", "b", "c", "ad", "foo", "bar", "track", "ban", "x", "Z", "1", "-", "_", "\\.", "\\/", "\\-", "=", "&", "banners*", "ads{0,1}", "small", "s"}
	atom := func() string {
		switch rnd.Intn(12) {
		case 0:
			return "."
		case 1:
			return []string{"[a-z]", "[0-9]", "[^/]", "[ab]", "[a-z0-9_-]", "[^a-z]"}[rnd.Intn(6)]
		case 2:
			return []string{"\\d", "\\w", "\\s", "\\b", "\\D", "\\W", "\\B"}[rnd.Intn(7)]
		case 3:
			return []string{"\\x2d", "\\x61", "\\x2F", "\\u002F", "\\u0062"}[rnd.Intn(5)]
		default:
			return lits[rnd.Intn(len(lits))]
		}
	}
	var gen func(d int) string
	gen = func(d int) string {
		if d <= 0 {
			return atom()
		}
		switch rnd.Intn(10) {
		case 0, 1:
			return "(" + gen(d-1) + ")"
		case 2:
			return gen(d-1) + "|" + gen(d-1)
		case 3:
			return "(" + gen(d-1) + "|" + gen(d-1) + ")"
		case 4:
			q := []string{"*", "+", "{2}", "{0,2}", "{1,3}", "{2,}"}[rnd.Intn(6)]
			a := gen(d - 1)
			if len(a) > 1 && !(strings.HasPrefix(a, "(") && strings.HasSuffix(a, ")") && strings.Count(a, "(") == 1) &&
				!(strings.HasPrefix(a, "[") && strings.HasSuffix(a, "]")) && !(len(a) == 2 && a[0] == '\\') {
				a = "(" + a + ")"
			}
			return a + q
		default:
			return gen(d-1) + gen(d-1)
		}
	}
	s := gen(depth)
	switch rnd.Intn(6) {
	case 0:
		s = "^" + s
	case 1:
		s = s + "$"
	}
	return s
}

// exhaustive small regex ASTs: sequences of up to n pieces from a piece alphabet
func genRegexExh(n int, emit func(string)) {
	pieces := []string{"ab", "cd", ".", "[a-z]", "\\d", "\\w", "\\b", "\\x2d", "\\u0062", "(ef)", "(e|f)", "|", "a*", "b+", "c{0,2}", "(gh)*", "\\.", "\\/"}
	var rec func(prefix string, d int)
	rec = func(prefix string, d int) {
		if d > 0 {
			emit(prefix)
		}
		if d == n {
			return
		}
		for _, t := range pieces {
			rec(prefix+t, d+1)
		}
	}
	rec("", 0)
}

// listRules reads the network rules of the bundled lists.
func listRuleLines(repo string) []string {
	var out []string
	files, _ := filepath.Glob(filepath.Join(repo, "testdata", "*.txt"))
	more, _ := filepath.Glob(filepath.Join(repo, "examples", "proxy", "*.txt"))
	files = append(files, more...)
	sort.Strings(files)
	for _, fn := range files {
		f, err := os.Open(fn)
		if err != nil {
			continue
		}
		sc := bufio.NewScanner(f)
		sc.Buffer(make([]byte, 1<<20), 1<<24)
		for sc.Scan() {
			line := strings.TrimSpace(sc.Text())
			if line == "" {
				continue
			}
			out = append(out, line)
		}
		f.Close()
	}
	return out
}

func repoDir() string {
	if d := os.Getenv("VERIF_REPO"); d != "" {
		return d
	}
	return "/repo"
}

// vh export-progs kind=mask|sc out=<prefix> chunks=<n> exh=<n> rnd=<n> lists=0|1 regexexh=<n> regexrnd=<n>
func cmdExportProgs(args []string) error {
	m := argMap(args)
	prefix := m["out"]
	chunks := argInt(m, "chunks", 8)
	cases, _, skipped, total := generateProgCases(m)
	return writeProgCases(prefix, chunks, cases, skipped, total)
}

// generateProgCases builds every rule of the corpus with the real parser, in a fixed order determined by the arguments
// and the seed, and exports its compiled program.  It is used by the exporter and - so that defects that depend on the
// order in which rules were parsed reproduce - again by the confirmation step, which keeps the rule objects.
func generateProgCases(m map[string]string) (cases []progCase, objs map[int]*rules.NetworkRule, skipped, total int) {
	kind := m["kind"]
	objs = map[int]*rules.NetworkRule{}
	rnd := rand.New(rand.NewSource(seed()))
	seen := map[string]bool{}
	add := func(text, src, wantPat string) {
		if seen[text] {
			return
		}
		seen[text] = true
		total++
		c, robj, err := exportRuleObj(len(cases)+1, text, src, wantPat)
		if err == errSkip {
			skipped++
			return
		}
		if err != nil {
			fmt.Fprintln(os.Stderr, "export:", err)
			skipped++
			return
		}
		if kind == "sc" && (len(c.SC) == 0 || c.Status == "panic") {
			return
		}
		cases = append(cases, c)
		objs[len(cases)] = robj
	}
	emitMask := func(p string) {
		if p == "" || isRegexText(p) || strings.HasPrefix(p, "@@") {
			return
		}
		for _, mc := range []bool{false, true} {
			add(maskRuleText(p, mc), "http://example.org/", p)
		}
	}
	if n := argInt(m, "exh", 0); n > 0 {
		genMask("exh", n, rnd, emitMask)
	}
	if n := argInt(m, "rnd", 0); n > 0 {
		genMask("rnd", n, rnd, emitMask)
	}
	if n := argInt(m, "regexexh", 0); n > 0 {
		genRegexExh(n, func(s string) {
			if len(s) >= 2 && !strings.Contains(s, "?") {
				add("/"+s+"/", "", "")
			}
		})
	}
	if argInt(m, "regexrnd", 0) > 0 {
		// a literal that ends in an optional character, a gap, and a literal that starts with that character: the
		// required literals on the two sides of the gap must not be read as one
		for _, s := range []string{"banners*\\d+small", "ads{0,1}\\d+script", "foo*.+oops", "tracks*[0-9]+s\\.js", "xa*[a-z]+ab", "\\/pixels*\\w+\\.gif",
			"ban+ers*\\D+s1",
			// expressions whose own text begins or ends with a slash: the rule text then has two in a row, and is an
			// expression all the same
			"/cdn.example.org/ads", "/banner\\d+/x", "ads/pixel/", "/"} {
			add("/"+s+"/", "", "")
		}
	}
	if n := argInt(m, "regexrnd", 0); n > 0 {
		for i := 0; i < n; i++ {
			s := genRegex(rnd, 1+rnd.Intn(4))
			if len(s) >= 2 {
				add("/"+s+"/", "", "")
			}
		}
	}
	if argInt(m, "lists", 0) > 0 {
		limit := argInt(m, "listlimit", 1<<30)
		lines := listRuleLines(repoDir())
		cnt := 0
		for _, line := range lines {
			r, err := rules.NewRule(line, 1)
			if err != nil || r == nil {
				continue
			}
			nr, ok := r.(*rules.NetworkRule)
			if !ok {
				continue
			}
			if kind == "sc" {
				if !nr.IsRegexRule() && m["listmask"] != "1" {
					continue
				}
			} else if nr.IsRegexRule() {
				continue
			}
			src := ""
			if d := nr.GetPermittedDomains(); len(d) > 0 && !strings.HasSuffix(d[0], ".*") {
				src = "http://" + d[0] + "/"
			}
			if !nr.IsRegexRule() {
				// sample mask rules of the lists by seed, keep all regex rules
				if cnt >= limit {
					continue
				}
				if limit < 1<<30 && rnd.Intn(8) != 0 {
					continue
				}
				cnt++
			}
			add(line, src, "")
		}
	}
	return cases, objs, skipped, total
}

func writeProgCases(prefix string, chunks int, cases []progCase, skipped, total int) error {
	// re-number and write chunks
	ws := make([]*ndWriter, chunks)
	for i := range ws {
		w, err := newNDWriter(fmt.Sprintf("%s-%d.ndjson", prefix, i))
		if err != nil {
			return err
		}
		ws[i] = w
	}
	all, err := newNDWriter(prefix + "-all.ndjson")
	if err != nil {
		return err
	}
	st := map[string]int{}
	for i := range cases {
		cases[i].ID = i + 1
		st[cases[i].Status]++
		ws[i%chunks].write(cases[i])
		lite := cases[i]
		lite.Prog, lite.Classes = nil, nil
		all.write(lite)
	}
	for _, w := range ws {
		w.close()
	}
	all.close()
	summary(map[string]any{"cases": len(cases), "skipped": skipped, "generated": total, "status": st, "chunks": chunks})
	return nil
}

type progDiff struct {
	Kind string `json:"kind"`
	ID   int    `json:"id"`
	W    []int  `json:"w"`
	Prog bool   `json:"prog"`
	Ref  bool   `json:"ref"`
}

type progConfirm struct {
	ID        int    `json:"id"`
	Rule      string `json:"rule"`
	Pattern   string `json:"pattern"`
	Witness   string `json:"witness"`
	Regexp    string `json:"regexp"`
	Shortcut  string `json:"shortcut"`
	ModelProg bool   `json:"model_prog"` // what the Pike model said the program does
	SpecRef   bool   `json:"spec_ref"`   // what the reference automaton says
	RealRe    bool   `json:"real_regexp_accepts"`
	RealMatch bool   `json:"real_rule_match"`
	HasSC     bool   `json:"lower_witness_contains_shortcut"`
	Confirmed bool   `json:"confirmed"`
	Faithful  bool   `json:"model_faithful"`
	Panic     string `json:"panic,omitempty"`
	Status    string `json:"status"`
	Kind      string `json:"kind"`
	Cause     string `json:"cause,omitempty"`
}

// vh confirm-progs mode=mask|sc cases=<all.ndjson> diffs=<diffs.ndjson> out=<file>
//
// Re-executes every TLC witness (and every panic case) on the real code.
func cmdConfirmProgs(args []string) error {
	m := argMap(args)
	mode := m["mode"]
	// regenerate the corpus in the same order: the rule objects are then in the state they were in at export time
	cases, objs, _, _ := generateProgCases(m)
	byID := map[int]progCase{}
	byRule := map[string]int{}
	for i, c := range cases {
		c.ID = i + 1
		cases[i] = c
		byID[c.ID] = c
		if _, dup := byRule[c.Rule]; !dup {
			byRule[c.Rule] = c.ID
		}
	}
	// the ids of the diffs are those of the EXPORT run; a defect that makes the corpus itself unstable (a rule that has
	// a shortcut in one run and none in the next) shifts the numbering, so the exported case is found again by its text
	if m["all"] != "" {
		exported, err := readND[progCase](m["all"])
		if err != nil {
			return err
		}
		remap := map[int]progCase{}
		for _, ec := range exported {
			if id, ok := byRule[ec.Rule]; ok {
				c := byID[id]
				c.ID = ec.ID
				remap[ec.ID] = c
				objs[-ec.ID] = objs[id]
			} else if c, robj, err := exportRuleObj(ec.ID, ec.Rule, ec.Src, ""); err == nil {
				remap[ec.ID] = c
				objs[-ec.ID] = robj
			}
		}
		byID = remap
		for id := range remap {
			objs[id] = objs[-id]
		}
	}
	diffs, err := readND[progDiff](m["diffs"])
	if err != nil {
		return err
	}
	out, err := newNDWriter(m["out"])
	if err != nil {
		return err
	}
	defer out.close()
	confirmed, unfaithful := 0, 0
	run := func(c progCase, w string, modelProg, specRef bool) {
		pc := progConfirm{ID: c.ID, Rule: c.Rule, Pattern: c.PatS, Witness: w, ModelProg: modelProg, SpecRef: specRef,
			Status: c.Status, Kind: c.Kind}
		func() {
			defer func() {
				if x := recover(); x != nil {
					pc.Panic = fmt.Sprint(x)
				}
			}()
			r := objs[c.ID]
			if r == nil {
				return
			}
			pc.Shortcut = r.Shortcut
			req := rules.NewRequest(w, c.Src, rules.TypeOther)
			pc.RealMatch = r.Match(req)
			re, st := r.VerifCompiled()
			switch {
			case st == 0:
				pc.RealRe = true
			case st < 0 || re == nil:
				pc.RealRe = false
			default:
				pc.Regexp = re.String()
				pc.RealRe = re.MatchString(w)
			}
			pc.HasSC = strings.Contains(strings.ToLower(w), r.Shortcut)
		}()
		if pc.Panic != "" {
			pc.Confirmed = true
			pc.Faithful = true
			pc.Cause = "panic"
		} else {
			pc.Faithful = pc.RealRe == modelProg
			if mode == "mask" {
				pc.Confirmed = pc.Faithful && pc.RealRe != specRef
				if pc.Confirmed {
					if pc.RealRe {
						pc.Cause = "accepts-outside-mask-language"
					} else {
						pc.Cause = "rejects-inside-mask-language"
					}
				}
			} else {
				pc.Confirmed = pc.Faithful && pc.RealRe && !pc.HasSC && !pc.RealMatch
				if pc.Confirmed {
					pc.Cause = shortcutCause(c, w)
				}
			}
		}
		if pc.Confirmed {
			confirmed++
		}
		if !pc.Faithful {
			unfaithful++
		}
		out.write(pc)
	}
	var ids []int
	for id := range byID {
		ids = append(ids, id)
	}
	sort.Ints(ids)
	for _, id := range ids {
		if c := byID[id]; c.Status == "panic" {
			run(c, "http://example.org/", false, true)
		}
	}
	for _, d := range diffs {
		c, ok := byID[d.ID]
		if !ok {
			return fmt.Errorf("diff for unknown case %d", d.ID)
		}
		run(c, intsToString(d.W), d.Prog, d.Ref)
	}
	summary(map[string]any{"confirmed": confirmed, "unfaithful": unfaithful, "diffs": len(diffs)})
	return nil
}

// vh replay-prog mode=mask|sc in=<confirm record .json>: re-executes one reported witness on a freshly parsed rule
func cmdReplayProg(args []string) error {
	m := argMap(args)
	b, err := os.ReadFile(m["in"])
	if err != nil {
		return err
	}
	var pc progConfirm
	if err = json.Unmarshal(b, &pc); err != nil {
		return err
	}
	res := map[string]any{"rule": pc.Rule, "witness": pc.Witness}
	again := false
	pv := safeCall(func() {
		r, err := rules.NewNetworkRule(pc.Rule, 1)
		if err != nil {
			panic("rule rejected: " + err.Error())
		}
		match := r.Match(rules.NewRequest(pc.Witness, "", rules.TypeOther))
		re, st := r.VerifCompiled()
		realRe := st == 0 || (st > 0 && re != nil && re.MatchString(pc.Witness))
		hasSC := strings.Contains(strings.ToLower(pc.Witness), r.Shortcut)
		res["real_rule_match"], res["real_regexp_accepts"], res["lower_witness_contains_shortcut"] = match, realRe, hasSC
		if m["mode"] == "mask" {
			again = realRe != pc.SpecRef
		} else {
			again = realRe && !hasSC && !match
		}
	})
	if pv != "" {
		res["panic"] = pv
		again = true
	}
	res["violates_again"] = again
	summary(res)
	return nil
}

// shortcutCause classifies why a regex shortcut is unsound, from the rule's
// own syntax tree: it names the construct under which the shortcut text sits.
func shortcutCause(c progCase, w string) string {
	if c.Kind != "regex" {
		return "mask-shortcut"
	}
	src := c.PatS[1 : len(c.PatS)-1]
	rx, err := syntax.Parse(src, syntax.Perl)
	if err != nil {
		return "unparsable"
	}
	sc := intsToString(c.SC)
	// is the shortcut a substring of a literal that every match must contain?
	req := requiredLiterals(rx.Simplify())
	for _, l := range req {
		if strings.Contains(strings.ToLower(l), sc) {
			return "other"
		}
	}
	var cause string
	var walk func(re *syntax.Regexp, under string)
	walk = func(re *syntax.Regexp, under string) {
		if cause != "" {
			return
		}
		switch re.Op {
		case syntax.OpLiteral:
			if strings.Contains(strings.ToLower(string(re.Rune)), sc) && under != "" {
				cause = under
			}
		case syntax.OpAlternate:
			for _, s := range re.Sub {
				walk(s, "alternation")
			}
		case syntax.OpStar, syntax.OpQuest:
			for _, s := range re.Sub {
				walk(s, "optional-repeat")
			}
		case syntax.OpRepeat:
			u := under
			if re.Min == 0 {
				u = "optional-repeat"
			}
			for _, s := range re.Sub {
				walk(s, u)
			}
		default:
			for _, s := range re.Sub {
				walk(s, under)
			}
		}
	}
	walk(rx, "")
	if cause != "" {
		return cause
	}
	// the shortcut text is not a literal of the expression at all: it was cut
	// out of an escape sequence, a class or across a quantifier
	return "not-a-literal"
}

// requiredLiterals returns literal strings that every match of re must contain.
func requiredLiterals(re *syntax.Regexp) []string {
	switch re.Op {
	case syntax.OpLiteral:
		return []string{string(re.Rune)}
	case syntax.OpCapture, syntax.OpPlus:
		return requiredLiterals(re.Sub[0])
	case syntax.OpRepeat:
		if re.Min >= 1 {
			return requiredLiterals(re.Sub[0])
		}
	case syntax.OpConcat:
		var out []string
		for _, s := range re.Sub {
			out = append(out, requiredLiterals(s)...)
		}
		return out
	}
	return nil
}

func init() {
	register("export-progs", cmdExportProgs)
	register("confirm-progs", cmdConfirmProgs)
	register("replay-prog", cmdReplayProg)
}
