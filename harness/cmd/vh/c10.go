package main

// C10: shape of parsed $dnsrewrite values.

import (
	"fmt"
	"math/rand"
	"net/netip"
	"reflect"
	"strings"

	"github.com/AdguardTeam/urlfilter/rules"
	"github.com/miekg/dns"
)

type rvShape struct {
	Cname  bool   `json:"cname"`
	Rcode  string `json:"rcode"`
	Rrtype string `json:"rrtype"`
	Vtype  string `json:"vtype"`
}

type rvCase struct {
	Form string `json:"form"`
	F    string `json:"f,omitempty"`
	Rc   string `json:"rc,omitempty"`
	Rr   string `json:"rr,omitempty"`
	Vc   string `json:"vc,omitempty"`
	Exp  struct {
		Error  bool   `json:"error,omitempty"`
		Cname  bool   `json:"cname"`
		Rcode  string `json:"rcode"`
		Rrtype string `json:"rrtype"`
		Vtype  string `json:"vtype"`
	} `json:"exp"`
}

var host63 = strings.Repeat("a", 30) + "." + strings.Repeat("b", 27) + ".test" // 63 bytes
var host64 = strings.Repeat("a", 31) + "." + strings.Repeat("b", 27) + ".test" // 64 bytes

// concrete spellings of the value classes of spec/RewriteValue.tla
var rvSpellings = map[string][]string{
	"empty": {""}, "garbage": {"!!", "1.2.3", "zz::1", "dead.beef", "1::2::3", "[::1]", "1.2.3.4.5", "::1%eth0x y"}, "text": {"hello", "v=spf1 -all", "\"", "\"\"", "\"a\"", "a\"", "\"a", "'"}, "spaces": {"a b  c", " "},
	"v4": {"1.2.3.4", "127.0.0.1"}, "v6": {"::1", "2001:db8::1", "FE80::1"}, "mapped": {"::ffff:1.2.3.4"},
	"host": {"c1.test", "EXAMPLE.org", "xn--e1afmkfd.test", "a-b.c"}, "hostdot": {"c1.test."}, "badhost": {"-bad.test", "a..b", "a_b.test", "bad-.x/y", "c1.test..", "new-ptr.example...", ".", ".."},
	"len63": {host63}, "len64": {host64},
	"mx_ok": {"10 mx.test", "0 mail.example.org"}, "mx_max": {"65535 mx.test"}, "mx_1field": {"mx.test", "10"},
	"mx_over": {"65536 mx.test"}, "mx_neg": {"-1 mx.test"}, "mx_nan": {"ten mx.test", "1.5 mx.test"}, "mx_badhost": {"10 -bad", "10 a b", "10 ", "10 .", "10 .."},
	"srv_ok": {"1 2 3 srv.test", "65535 65535 65535 s.test"}, "srv_dot": {"0 0 0 ."}, "srv_3fields": {"1 2 srv.test", "1 2 3"},
	"srv_5fields": {"1 2 3 srv.test extra"}, "srv_over_prio": {"65536 2 3 srv.test"}, "srv_over_weight": {"1 65536 3 srv.test"},
	"srv_over_port": {"1 2 65536 srv.test"}, "srv_nan": {"a 2 3 srv.test", "1 b 3 srv.test", "1 2 c srv.test", "1 2 -3 srv.test"},
	"srv_badhost": {"1 2 3 -bad", "1 2 3 a..b"},
	"svcb_ok":     {"1 svc.test", "65535 s.test"}, "svcb_dot": {"1 .", "0 ."}, "svcb_params": {"1 . alpn=h3", "1 svc.test alpn=h2 port=8443", "1 . dohpath=/dns-query{?dns}", "1 . ALPN=h2 alpn=h3", "1 . alpn=h2 alpn=h3 Port=1 port=2 PORT=3"},
	"svcb_1field": {"1", "svc.test"}, "svcb_nan": {"x svc.test", "-1 svc.test"}, "svcb_over": {"65536 svc.test"},
	"svcb_badhost": {"1 -bad", "1 a..b"}, "svcb_badparam": {"1 . alpn", "1 svc.test noequals"}, "svcb_3eq": {"1 . a=b=c"},
}

var rvShort = map[string][]string{
	"empty": {""}, "NOERROR": {"NOERROR"}, "SERVFAIL": {"SERVFAIL"}, "NXDOMAIN": {"NXDOMAIN"}, "REFUSED": {"REFUSED"},
	"OTHERUPPER": {"FORMERR", "BADKEY", "XYZ", "NOTIMP", "A"}, "v4": {"1.2.3.4", "0.0.0.0"}, "v6": {"::1", "2001:db8::1", "::"},
	"mapped": {"::ffff:1.2.3.4"}, "host": {"c1.test", "Example.ORG", "localhost", "a-b.c"}, "len63": {host63},
	"badhost": {"-bad.test", "a..b", "a_b.test", "nxdomain!", ".", ".."}, "len64": {host64}, "onesemi": {"NOERROR;A", ";", "NXDOMAIN;"},
}

func (c *rvCase) texts() []string {
	if c.Form == "short" {
		return rvShort[c.F]
	}
	var out []string
	rcs := []string{c.Rc}
	if c.Rc == "NXDOMAIN" {
		rcs = append(rcs, "nxdomain", "NxDomain")
	}
	rrs := []string{c.Rr}
	if c.Rr != "" && c.Rr == strings.ToUpper(c.Rr) {
		rrs = append(rrs, strings.ToLower(c.Rr))
	}
	for _, rc := range rcs {
		for _, rr := range rrs {
			for _, v := range rvSpellings[c.Vc] {
				out = append(out, rc+";"+rr+";"+v)
			}
		}
	}
	return out
}

func vtypeOf(v any, rr uint16) string {
	switch x := v.(type) {
	case nil:
		return "nil"
	case netip.Addr:
		if x.Is4() {
			return "ipv4"
		}
		if x.Is6() {
			return "ipv6"
		}
		return "invalid-addr"
	case *rules.DNSMX:
		if x == nil {
			return "nil-mx"
		}
		return "mx"
	case *rules.DNSSRV:
		if x == nil {
			return "nil-srv"
		}
		return "srv"
	case *rules.DNSSVCB:
		if x == nil {
			return "nil-svcb"
		}
		return "svcb"
	case string:
		if rr == dns.TypePTR {
			if dns.IsFqdn(x) {
				return "fqdn"
			}
			return "string-not-fqdn"
		}
		return "string"
	default:
		return reflect.TypeOf(v).String()
	}
}

// parseRewrite runs the real parser; ok=false on error.
func parseRewrite(v string) (ok bool, sh rvShape, raw *rules.DNSRewrite, panicV string) {
	text := "||h.test^$dnsrewrite=" + strings.ReplaceAll(v, ",", "\\,")
	var r *rules.NetworkRule
	var err error
	panicV = safeCall(func() { r, err = rules.NewNetworkRule(text, 1) })
	if panicV != "" || err != nil || r == nil {
		return false, sh, nil, panicV
	}
	d := r.DNSRewrite
	if d == nil {
		return true, rvShape{Rcode: "missing"}, nil, ""
	}
	sh = rvShape{Cname: d.NewCNAME != "", Rcode: dns.RcodeToString[d.RCode], Vtype: vtypeOf(d.Value, d.RRType)}
	if d.RRType != 0 {
		sh.Rrtype = dns.TypeToString[d.RRType]
	}
	return true, sh, d, ""
}

// vh replay-rwvalue in=<cases.ndjson> out=<mismatches.ndjson>
func cmdReplayRwValue(args []string) error {
	m := argMap(args)
	recs, err := readND[rvCase](m["in"])
	if err != nil {
		return err
	}
	out, err := newNDWriter(m["out"])
	if err != nil {
		return err
	}
	defer out.close()
	evals, mism, accepted := 0, 0, 0
	var samples []string
	for _, c := range recs {
		ts := c.texts()
		if len(ts) == 0 {
			return fmt.Errorf("no spelling for case %+v", c)
		}
		for _, t := range ts {
			evals++
			ok, sh, raw, pv := parseRewrite(t)
			ok2, sh2, raw2, _ := parseRewrite(t)
			det := ok == ok2 && sh == sh2 && reflect.DeepEqual(raw, raw2)
			// a value with parameters is parsed a few more times: what is kept of keys given twice, or in two spellings,
			// must not be left to chance
			for k := 0; det && k < 10 && strings.Contains(t, "="); k++ {
				okN, shN, rawN, _ := parseRewrite(t)
				det = ok == okN && sh == shN && reflect.DeepEqual(raw, rawN)
			}
			if ok {
				accepted++
			}
			if len(samples) < 8 && evals%53 == 7 {
				samples = append(samples, fmt.Sprintf("%q -> ok=%v %+v", t, ok, sh))
			}
			exp := c.Exp
			good := pv == "" && det && ok == !exp.Error
			if good && ok {
				rc := exp.Rcode
				if rc == "noerror" {
					rc = "NOERROR"
				}
				good = sh.Cname == exp.Cname && sh.Rcode == rc && sh.Rrtype == exp.Rrtype && sh.Vtype == exp.Vtype
			}
			if !good {
				mism++
				out.write(map[string]any{"value": t, "expected_error": exp.Error, "expected": exp, "ok": ok, "got": sh, "panic": pv,
					"deterministic": det, "case": c})
			}
		}
	}
	summary(map[string]any{"cases": len(recs), "evaluations": evals, "mismatches": mism, "accepted": accepted, "samples": samples})
	return nil
}

func mutateBytes(rnd *rand.Rand, s string) string {
	b := []byte(s)
	for k := rnd.Intn(3); k >= 0; k-- {
		switch rnd.Intn(5) {
		case 0:
			if len(b) > 0 {
				i := rnd.Intn(len(b))
				b = append(b[:i], b[i+1:]...)
			}
		case 1:
			i := rnd.Intn(len(b) + 1)
			pool := []byte(";. :0159azAZ-_=/\\\x00\xff|~'\"")
			ch := pool[rnd.Intn(len(pool))]
			b = append(b[:i], append([]byte{ch}, b[i:]...)...)
		case 2:
			if len(b) > 0 {
				b[rnd.Intn(len(b))] = byte(32 + rnd.Intn(95))
			}
		case 3:
			if len(b) > 1 {
				i := rnd.Intn(len(b) - 1)
				b[i], b[i+1] = b[i+1], b[i]
			}
		case 4:
			if len(b) > 0 {
				i := rnd.Intn(len(b))
				b = append(b[:i], append(append([]byte{}, b[i:]...), b[i:]...)...)
				if len(b) > 200 {
					b = b[:200]
				}
			}
		}
	}
	return string(b)
}

type rvEvent struct {
	V     []int   `json:"v"`
	Ok    bool    `json:"ok"`
	Shape rvShape `json:"shape"`
}

// vh drive-rwvalue n=<events> out=<trace.ndjson>
func cmdDriveRwValue(args []string) error {
	m := argMap(args)
	n := argInt(m, "n", 50000)
	out, err := newNDWriter(m["out"])
	if err != nil {
		return err
	}
	defer out.close()
	rnd := rand.New(rand.NewSource(seed()*101 + 3))
	var seeds []string
	for _, vs := range rvShort {
		seeds = append(seeds, vs...)
	}
	rcs := []string{"NOERROR", "NXDOMAIN", "REFUSED", "SERVFAIL", "noerror", "FORMERR", "BADCOOKIE", "YXDOMAIN", "X"}
	rrs := []string{"A", "AAAA", "CNAME", "MX", "PTR", "TXT", "HTTPS", "SVCB", "SRV", "NS", "", "FOO", "NONE", "ANY", "SOA", "a", "Mx", "RESERVED", "TYPE65"}
	var vals []string
	for _, vs := range rvSpellings {
		vals = append(vals, vs...)
	}
	accepted, panics, nondet := 0, 0, 0
	shapes := map[rvShape]bool{}
	for out.n < n {
		var v string
		if rnd.Intn(4) == 0 {
			v = seeds[rnd.Intn(len(seeds))]
		} else {
			v = rcs[rnd.Intn(len(rcs))] + ";" + rrs[rnd.Intn(len(rrs))] + ";" + vals[rnd.Intn(len(vals))]
		}
		if rnd.Intn(25) == 0 {
			// values around and beyond the sizes wire formats care about (63-byte labels, 255-byte strings and names)
			size := []int{62, 63, 64, 254, 255, 256, 257, 300, 511, 700}[rnd.Intn(10)]
			long := make([]byte, size)
			for i := range long {
				long[i] = "abcdefghijklmnopqrstuvwxyz0123456789.- "[rnd.Intn(39)]
				if i%40 == 39 && rnd.Intn(2) == 0 {
					long[i] = '.'
				}
			}
			v = rcs[rnd.Intn(3)] + ";" + rrs[rnd.Intn(10)] + ";" + string(long)
			if rnd.Intn(3) == 0 {
				v = string(long)
			}
		}
		if rnd.Intn(2) == 0 {
			v = mutateBytes(rnd, v)
		}
		if strings.ContainsAny(v, "$\n\r") {
			continue
		}
		ok, sh, raw, pv := parseRewrite(v)
		if pv != "" {
			panics++
			fmt.Printf("PANIC %q: %s\n", v, pv)
			continue
		}
		ok2, sh2, raw2, _ := parseRewrite(v)
		if ok != ok2 || sh != sh2 || !reflect.DeepEqual(raw, raw2) {
			nondet++
			fmt.Printf("NONDETERMINISTIC %q\n", v)
		}
		if ok {
			accepted++
			shapes[sh] = true
		}
		out.write(rvEvent{V: bytesToInts(v), Ok: ok, Shape: sh})
	}
	var sm []string
	for s := range shapes {
		if len(sm) < 6 {
			sm = append(sm, fmt.Sprintf("%+v", s))
		}
	}
	summary(map[string]any{"events": out.n, "accepted": accepted, "panics": panics, "nondeterministic": nondet,
		"distinct_shapes": len(shapes), "samples": sm})
	return nil
}

func init() {
	register("replay-rwvalue", cmdReplayRwValue)
	register("drive-rwvalue", cmdDriveRwValue)
}
