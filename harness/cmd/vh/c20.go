package main

// C20: proxy HTML injection (hook proxy.VerifFilterHTML).

import (
	"bytes"
	"compress/gzip"
	"fmt"
	"io"
	"strings"

	"github.com/AdguardTeam/urlfilter/proxy"
)

type pxSeg struct {
	K  string `json:"k"`
	N  int    `json:"n,omitempty"`
	M  string `json:"m,omitempty"`
	Cs string `json:"cs,omitempty"`
}

type pxCase struct {
	Body []pxSeg `json:"body"`
	Len  int     `json:"len"`
	Res  struct {
		Inject bool `json:"inject"`
		At     int  `json:"at"`
		Alt    int  `json:"alt"`
	} `json:"res"`
}

func renderBody(segs []pxSeg) []byte {
	var b bytes.Buffer
	asciiFill := "ab cd\n\tEF>gh/"
	for si, s := range segs {
		switch s.K {
		case "ascii":
			for i := 0; i < s.N; i++ {
				b.WriteByte(asciiFill[(i+si)%len(asciiFill)])
			}
		case "high":
			for i := 0; i < s.N; i++ {
				if len(segs)%2 == 0 {
					// every other body: one and the same high byte, the lowest one
					b.WriteByte(0x80)
				} else {
					b.WriteByte(byte(0x80 + (i*7+si)%0x80))
				}
			}
		case "nul":
			for i := 0; i < s.N; i++ {
				b.WriteByte(0)
			}
		case "near":
			b.WriteString(s.M[:len(s.M)-1])
		case "ctl":
			// the marker with '<' replaced by 0x1C and '/' by 0x0F (they differ from them only in bit 0x20): not a marker
			b.WriteString(strings.NewReplacer("<", "\x1c", "/", "\x0f").Replace(s.M))
		case "marker":
			m := s.M
			switch s.Cs {
			case "upper":
				m = strings.ToUpper(m)
			case "mixed":
				r := []byte(m)
				for i := range r {
					if i%2 == 1 {
						r[i] = strings.ToUpper(string(r[i]))[0]
					}
				}
				m = string(r)
			}
			b.WriteString(m)
		}
	}
	return b.Bytes()
}

func gz(b []byte) []byte {
	var buf bytes.Buffer
	w := gzip.NewWriter(&buf)
	w.Write(b)
	w.Close()
	return buf.Bytes()
}

// vh replay-proxy in=<cases.ndjson> out=<mismatches.ndjson>
func cmdReplayProxy(args []string) error {
	m := argMap(args)
	recs, err := readND[pxCase](m["in"])
	if err != nil {
		return err
	}
	out, err := newNDWriter(m["out"])
	if err != nil {
		return err
	}
	defer out.close()
	evals, mism, injected, ambiguous := 0, 0, 0, 0
	var samples []string
	for ci, c := range recs {
		body := renderBody(c.Body)
		if len(body) != c.Len {
			return fmt.Errorf("renderer produced %d bytes for a body of %d", len(body), c.Len)
		}
		if c.Res.Inject {
			injected++
		}
		if c.Res.Alt >= 0 {
			ambiguous++
		}
		// "deferred": the filtered response is read only after another document went through the filter, as a proxy
		// serving several connections does
		for _, enc := range []string{"", "gzip", "deferred"} {
			evals++
			in := body
			if enc == "gzip" {
				in = gz(body)
			}
			var outb []byte
			var clen int64
			var oenc, tag string
			var ferr error
			pv := safeCall(func() {
				if enc != "deferred" {
					outb, clen, oenc, tag, ferr = proxy.VerifFilterHTML(append([]byte{}, in...), enc, "page.test")
					return
				}
				res, t, err := proxy.VerifFilterHTMLResponse(append([]byte{}, in...), "", "page.test")
				tag, ferr = t, err
				if err != nil {
					return
				}
				other := []byte("<html><head><title>another document</title></head><body>" + strings.Repeat("OTHER ", 1+ci%700) + "</body></html>")
				if _, _, _, _, err = proxy.VerifFilterHTML(other, "", "other.test"); err != nil {
					ferr = err
					return
				}
				outb, ferr = io.ReadAll(res.Body)
				clen, oenc = res.ContentLength, res.Header.Get("Content-Encoding")
			})
			why := ""
			var want []byte
			switch {
			case pv != "":
				why = "panic " + pv
			case ferr != nil:
				why = "error " + ferr.Error()
			default:
				if c.Res.Inject {
					want = append(append(append([]byte{}, body[:c.Res.At]...), tag...), body[c.Res.At:]...)
				} else {
					want = body
				}
				alt := want
				if c.Res.Alt >= 0 {
					alt = append(append(append([]byte{}, body[:c.Res.Alt]...), tag...), body[c.Res.Alt:]...)
				}
				switch {
				case !bytes.Equal(outb, want) && !bytes.Equal(outb, alt):
					why = "body"
					// classify
					stripped := bytes.Replace(outb, []byte(tag), nil, 1)
					if !bytes.Equal(stripped, body) {
						why = "body: original bytes not preserved"
					} else if bytes.Count(outb, []byte(tag)) != bytes.Count(want, []byte(tag)) {
						why = "body: tag presence"
					} else {
						why = "body: tag position"
					}
				case clen != int64(len(outb)):
					why = "declared length"
				case oenc != "":
					why = "Content-Encoding kept"
				case len(tag) == 0 || !strings.Contains(tag, "<script"):
					why = "empty tag"
				}
			}
			if len(samples) < 5 && ci%173 == 3 && enc == "" {
				samples = append(samples, fmt.Sprintf("%v -> inject=%v at=%d len(out)=%d", c.Body, c.Res.Inject, c.Res.At, len(outb)))
			}
			if why != "" {
				mism++
				pos := bytes.Index(outb, []byte("<script src=\"//injections.verif.test"))
				out.write(map[string]any{"encoding": enc, "why": why, "body_len": len(body), "expected_at": c.Res.At, "alt_at": c.Res.Alt,
					"got_tag_at": pos, "got_len": len(outb), "declared_len": clen, "case": c})
			}
		}
	}
	summary(map[string]any{"cases": len(recs), "evaluations": evals, "mismatches": mism, "injected": injected, "ambiguous": ambiguous, "samples": samples})
	return nil
}

func init() {
	register("replay-proxy", cmdReplayProxy)
}
