package main

// spec/LineKind.tla <-> rules.NewRule: what a line of a filter list is.
//
//	vh linekind-env max=<tokens per line> out=<linekind-env.json>     token alphabet + the address literals among all fields
//	vh replay-linekind in=<cases.ndjson> out=<mismatches.ndjson>       spec -> code
//	vh drive-linekind n=<lines> out=<trace.ndjson>                     code -> spec (longer random lines, richer alphabet)

import (
	"encoding/json"
	"errors"
	"fmt"
	"math/rand"
	"net/netip"
	"os"
	"strings"

	"github.com/AdguardTeam/urlfilter/filterlist"
	"github.com/AdguardTeam/urlfilter/rules"
)

// the last two: a vertical tab and a no-break space (C2 A0) - white space for strings.TrimSpace, not for the field splitter
var lkTokens = []string{"a", "ab", "x.yz", ".", "-", "1", "1.2.3.4", "::1", " ", "\t", "#", "@", "$", "?", "%", ",", "~", "!", "*", "|", "\v", "\u00a0"}

func lkFields(max int) []string {
	var nonBlank []string
	for _, t := range lkTokens {
		if t != " " && t != "\t" {
			nonBlank = append(nonBlank, t)
		}
	}
	seen := map[string]bool{}
	var out []string
	var rec func(prefix string, k int)
	rec = func(prefix string, k int) {
		if prefix != "" && !seen[prefix] {
			seen[prefix] = true
			out = append(out, prefix)
		}
		if k == max {
			return
		}
		for _, t := range nonBlank {
			rec(prefix+t, k+1)
		}
	}
	rec("", 0)
	return out
}

func cmdLineKindEnv(args []string) error {
	m := argMap(args)
	max := argInt(m, "max", 4)
	env := map[string]any{}
	var toks [][]int
	for _, t := range lkTokens {
		toks = append(toks, bytesToInts(t))
	}
	v4, v6 := [][]int{}, [][]int{}
	for _, f := range lkFields(max) {
		if a, err := netip.ParseAddr(f); err == nil {
			if a.Is4() {
				v4 = append(v4, bytesToInts(f))
			} else {
				v6 = append(v6, bytesToInts(f))
			}
		}
	}
	env["tokens"], env["v4"], env["v6"] = toks, v4, v6
	b, _ := json.Marshal(env)
	if err := os.WriteFile(m["out"], b, 0o644); err != nil {
		return err
	}
	summary(map[string]any{"tokens": len(toks), "v4": len(v4), "v6": len(v6)})
	return nil
}

type lkMeaning struct {
	Kind    string  `json:"kind"`
	White   bool    `json:"white"`
	Perm    [][]int `json:"perm"`
	Restr   [][]int `json:"restr"`
	Content []int   `json:"content"`
	Addr    string  `json:"addr"`
	Names   [][]int `json:"names"`
	IP      []int   `json:"ip"`
}

type lkCase struct {
	Kind string    `json:"kind"`
	Line []int     `json:"line"`
	Exp  lkMeaning `json:"exp"`
}

func strsOf(xs [][]int) []string {
	out := []string{}
	for _, x := range xs {
		out = append(out, intsToString(x))
	}
	return out
}

// lkObserve classifies what rules.NewRule made of the line, in the vocabulary of LineKind.tla.
func lkObserve(line string) (got map[string]any, pv string) {
	got = map[string]any{}
	pv = safeCall(func() {
		r, err := rules.NewRule(line, 7)
		switch {
		case err != nil && errors.Is(err, rules.ErrUnsupportedRule):
			got["kind"] = "unsupported"
		case err != nil:
			got["kind"] = "rejected"
		case isNilRule(r):
			got["kind"] = "nothing"
		default:
			switch x := r.(type) {
			case *rules.CosmeticRule:
				got["kind"], got["white"], got["content"] = "cosmetic", x.Whitelist, x.Content
				got["perm"] = append([]string{}, x.GetPermittedDomains()...)
				got["text_ok"] = x.Text() == strings.TrimSpace(line) && x.GetFilterListID() == 7
			case *rules.HostRule:
				got["kind"], got["names"] = "host", append([]string{}, x.Hostnames...)
				got["ip"] = x.IP.String()
				got["text_ok"] = x.Text() == strings.TrimSpace(line) && x.GetFilterListID() == 7
			case *rules.NetworkRule:
				got["kind"] = "network"
				got["text_ok"] = x.Text() == strings.TrimSpace(line) && x.GetFilterListID() == 7
			default:
				got["kind"] = fmt.Sprintf("%T", r)
			}
		}
	})
	return got, pv
}

// lkCompare returns "" when the observation is what the meaning allows.
func lkCompare(exp *lkMeaning, got map[string]any, restrictedProbe func(d string) bool) string {
	k, _ := got["kind"].(string)
	switch exp.Kind {
	case "network":
		// the network-rule parser decides: a rule or a rejection, nothing else
		if k != "network" && k != "rejected" && k != "unsupported" {
			return "kind"
		}
		if k == "network" && got["text_ok"] != true {
			return "rule text / list id"
		}
		return ""
	case "nothing", "rejected", "unsupported":
		if k != exp.Kind {
			return "kind"
		}
		return ""
	case "cosmetic":
		if k != "cosmetic" {
			return "kind"
		}
		if got["white"] != exp.White {
			return "exception flag"
		}
		if got["content"] != intsToString(exp.Content) {
			return "content"
		}
		if strings.Join(got["perm"].([]string), ",") != strings.Join(strsOf(exp.Perm), ",") {
			return "permitted domains"
		}
		if got["text_ok"] != true {
			return "rule text / list id"
		}
		return ""
	case "host":
		if k != "host" {
			return "kind"
		}
		if strings.Join(got["names"].([]string), " ") != strings.Join(strsOf(exp.Names), " ") {
			return "names"
		}
		wantIP := "0.0.0.0"
		if exp.Addr != "unspecified" {
			a, err := netip.ParseAddr(intsToString(exp.IP))
			if err != nil {
				return "model address literal does not parse"
			}
			wantIP = a.String()
		}
		if got["ip"] != wantIP {
			return "address"
		}
		if got["text_ok"] != true {
			return "rule text / list id"
		}
		return ""
	}
	return "unknown expected kind " + exp.Kind
}

func cmdReplayLineKind(args []string) error {
	m := argMap(args)
	recs, err := readND[lkCase](m["in"])
	if err != nil {
		return err
	}
	out, err := newNDWriter(m["out"])
	if err != nil {
		return err
	}
	defer out.close()
	evals, mism := 0, 0
	byKind := map[string]int{}
	var samples []string
	for i := range recs {
		c := &recs[i]
		line := intsToString(c.Line)
		evals++
		byKind[c.Exp.Kind]++
		got, pv := lkObserve(line)
		why := ""
		if pv != "" {
			why = "panic " + pv
		} else {
			why = lkCompare(&c.Exp, got, nil)
		}
		// a cosmetic rule's restricted domains have no accessor: probe them through Match
		if why == "" && c.Exp.Kind == "cosmetic" {
			r, _ := rules.NewRule(line, 7)
			cr := r.(*rules.CosmeticRule)
			for _, d := range strsOf(c.Exp.Restr) {
				if !strings.HasSuffix(d, ".*") && cr.Match(d) {
					why = "restricted domain " + d + " still matches"
				}
			}
			for _, d := range strsOf(c.Exp.Perm) {
				restricted := false
				for _, rd := range strsOf(c.Exp.Restr) {
					restricted = restricted || rd == d
				}
				if !strings.HasSuffix(d, ".*") && !restricted && !cr.Match(d) {
					why = "permitted domain " + d + " does not match"
				}
			}
		}
		// the same line through a list: the scanner yields the rule iff the line means one
		if why == "" && i%7 == 0 {
			sc := filterlist.NewRuleScanner(strings.NewReader("||first.example^\n"+line+"\n||last.example^\n"), 7, false)
			n := 0
			pv := safeCall(func() {
				for sc.Scan() {
					n++
				}
			})
			want := 2
			if got["kind"] == "cosmetic" || got["kind"] == "host" || got["kind"] == "network" {
				want = 3
			}
			if pv != "" || n != want {
				why = fmt.Sprintf("scanner yields %d rules of a 3-line list, %d expected %s", n, want, pv)
			}
			evals++
		}
		if len(samples) < 8 && c.Exp.Kind != "network" && c.Exp.Kind != "nothing" && evals%997 == 3 {
			samples = append(samples, fmt.Sprintf("%q -> %s", line, c.Exp.Kind))
		}
		if why != "" {
			mism++
			out.write(map[string]any{"line": line, "why": why, "expected": c.Exp.Kind, "got": got, "case": c})
		}
	}
	summary(map[string]any{"cases": len(recs), "evaluations": evals, "mismatches": mism, "by_kind": byKind, "samples": samples})
	return nil
}

// drive-linekind: longer random lines over a richer alphabet; the event logs the observation and, as environment input,
// which of the line's blank-separated fields net/netip takes for an address.
func cmdDriveLineKind(args []string) error {
	m := argMap(args)
	n := argInt(m, "n", 20000)
	out, err := newNDWriter(m["out"])
	if err != nil {
		return err
	}
	defer out.close()
	rnd := rand.New(rand.NewSource(seed()*307 + 2))
	toks := append(append([]string{}, lkTokens...), "example.org", "sub.example.co.uk", "xn--e1afmkfd.xn--p1ai", "xn--ab", "EXAMPLE.Com", "a-", "-a", "a_b",
		"0.0.0.0", "127.0.0.1", "010.1.1.1", "256.1.1.1", "1.2.3", "::", "fe80::1%eth0", "::ffff:1.2.3.4", "2001:db8::1", "1::2::3",
		"##", "#@#", "#?#", "#$#", "#%#", "$$", "$@$", "#@$?#", ".*", "example.*", "~example.org", "/", "^", "||", "@@", "=", ".banner", "div[id=\"ad\"]",
		"$domain=example.org", "# comment", "  ", "\t\t", "\v", "\f", "\u00a0", "\u0085", "\r")
	byKind := map[string]int{}
	panics := 0
	for out.n < n {
		var b strings.Builder
		for k := 1 + rnd.Intn(7); k > 0; k-- {
			b.WriteString(toks[rnd.Intn(len(toks))])
		}
		line := b.String()
		got, pv := lkObserve(line)
		if pv != "" {
			panics++
			got = map[string]any{"kind": "PANIC " + pv}
		}
		addrs := []map[string]any{}
		seenLit := map[string]bool{}
		for _, f := range strings.FieldsFunc(strings.TrimSpace(line), func(r rune) bool { return r == ' ' || r == '\t' }) {
			// the model cuts the comment first; a field of the cut line is a prefix of a field of the whole line
			for _, cand := range []string{f, strings.SplitN(f, "#", 2)[0]} {
				if a, err := netip.ParseAddr(cand); err == nil && !seenLit[cand] {
					seenLit[cand] = true
					fam := "v6"
					if a.Is4() {
						fam = "v4"
					}
					addrs = append(addrs, map[string]any{"lit": bytesToInts(cand), "fam": fam, "canon": bytesToInts(a.String())})
				}
			}
		}
		k, _ := got["kind"].(string)
		byKind[k]++
		ev := map[string]any{"line": bytesToInts(line), "addrs": addrs, "kind": k, "white": got["white"] == true,
			"content": bytesToInts(fmt.Sprint(orEmpty(got["content"]))), "perm": toCodes(got["perm"]), "names": toCodes(got["names"]),
			"ip": bytesToInts(fmt.Sprint(orEmpty(got["ip"]))), "text_ok": got["text_ok"] == true}
		out.write(ev)
	}
	summary(map[string]any{"events": out.n, "by_kind": byKind, "panics": panics})
	return nil
}

func orEmpty(v any) any {
	if v == nil {
		return ""
	}
	return v
}

func toCodes(v any) [][]int {
	out := [][]int{}
	if ss, ok := v.([]string); ok {
		for _, s := range ss {
			out = append(out, bytesToInts(s))
		}
	}
	return out
}

func init() {
	register("linekind-env", cmdLineKindEnv)
	register("replay-linekind", cmdReplayLineKind)
	register("drive-linekind", cmdDriveLineKind)
}
