package main

// C17: request fields versus net/url and the Public Suffix List.

import (
	"bufio"
	"fmt"
	"math/rand"
	"net/url"
	"os"
	"strings"

	"github.com/AdguardTeam/urlfilter/filterutil"
	"github.com/AdguardTeam/urlfilter/rules"
)

type reqFields struct {
	URL        []int `json:"url"`
	Lower      []int `json:"lower"`
	Host       aHost `json:"host"`
	Domain     aHost `json:"domain"`
	SrcHost    aHost `json:"srcHost"`
	SrcDomain  aHost `json:"srcDomain"`
	ThirdParty bool  `json:"thirdParty"`
}

type reqCase struct {
	Kind    string    `json:"kind"`
	URL     []int     `json:"url"`
	Src     []int     `json:"src"`
	Host    aHost     `json:"host"`
	HostPsl aPsl      `json:"hostPsl"`
	SrcPsl  aPsl      `json:"srcPsl"`
	Exp     reqFields `json:"exp"`
}

func nzHost(h aHost) aHost {
	if h == nil {
		return aHost{}
	}
	return h
}

func observeRequest(kind, u, src, host string) (f reqFields, pv string) {
	pv = safeCall(func() {
		if kind == "url" {
			r := rules.NewRequest(u, src, rules.TypeScript)
			f = reqFields{URL: bytesToInts(r.URL), Lower: bytesToInts(r.URLLowerCase), Host: nzHost(hostFromString(r.Hostname)),
				Domain: nzHost(hostFromString(r.Domain)), SrcHost: nzHost(hostFromString(r.SourceHostname)),
				SrcDomain: nzHost(hostFromString(r.SourceDomain)), ThirdParty: r.ThirdParty}
			if h2 := filterutil.ExtractHostname(u); len(u) <= 4096 && h2 != r.Hostname {
				panic("ExtractHostname and NewRequest disagree")
			}
			// what kind of resource is asked for does not enter any of these fields
			for _, t := range []rules.RequestType{rules.TypeDocument, rules.TypeSubdocument, rules.TypeImage, rules.TypeOther} {
				r2 := rules.NewRequest(u, src, t)
				if r2.ThirdParty != r.ThirdParty || r2.Domain != r.Domain || r2.SourceDomain != r.SourceDomain || r2.Hostname != r.Hostname ||
					r2.SourceHostname != r.SourceHostname || r2.URLLowerCase != r.URLLowerCase {
					panic(fmt.Sprintf("the fields of a request of type %v differ from those of a script request: third-party %v/%v, source domain %q/%q",
						t, r2.ThirdParty, r.ThirdParty, r2.SourceDomain, r.SourceDomain))
				}
			}
		} else {
			r := rules.NewRequestForHostname(host)
			f = reqFields{URL: bytesToInts(r.URL), Lower: []int{}, Host: nzHost(hostFromString(r.Hostname)), Domain: nzHost(hostFromString(r.Domain)),
				SrcHost: aHost{}, SrcDomain: aHost{}, ThirdParty: r.ThirdParty}
			if !r.IsHostnameRequest || r.RequestType != rules.TypeDocument || r.URLLowerCase != r.URL {
				panic("hostname request flags")
			}
			// the DNS engine recycles request objects: one that served a third-party web request before is filled for
			// the same hostname and has to come out like the fresh one
			r2 := rules.NewRequest("https://ads.third.example/x.js?q=1", "https://page.other.example/", rules.TypeScript)
			rules.FillRequestForHostname(r2, host)
			if r2.URL != r.URL || r2.URLLowerCase != r.URLLowerCase || r2.Hostname != r.Hostname || r2.Domain != r.Domain ||
				r2.ThirdParty != r.ThirdParty || r2.IsHostnameRequest != r.IsHostnameRequest || r2.RequestType != r.RequestType {
				panic(fmt.Sprintf("a recycled request filled for the hostname differs from a fresh one: domain %q/%q third-party %v/%v type %v/%v",
					r2.Domain, r.Domain, r2.ThirdParty, r.ThirdParty, r2.RequestType, r.RequestType))
			}
		}
	})
	return
}

func hostEq(a, b aHost) bool { return a.String() == b.String() }

func fieldsDiff(kind string, exp, got reqFields) string {
	switch {
	case !hostEq(exp.Host, got.Host):
		return "hostname"
	case !hostEq(exp.Domain, got.Domain):
		return "domain"
	case exp.ThirdParty != got.ThirdParty:
		return "third-party"
	case intsToString(exp.URL) != intsToString(got.URL):
		return "url"
	}
	if kind == "url" {
		switch {
		case !hostEq(exp.SrcHost, got.SrcHost):
			return "source-hostname"
		case !hostEq(exp.SrcDomain, got.SrcDomain):
			return "source-domain"
		case intsToString(exp.Lower) != intsToString(got.Lower):
			return "lower-cased-url"
		}
	}
	return ""
}

// vh replay-request in=<cases.ndjson> out=<mismatches.ndjson>
func cmdReplayRequest(args []string) error {
	m := argMap(args)
	recs, err := readND[reqCase](m["in"])
	if err != nil {
		return err
	}
	out, err := newNDWriter(m["out"])
	if err != nil {
		return err
	}
	defer out.close()
	mism, third, pslBad := 0, 0, 0
	var samples []string
	for i, c := range recs {
		u, src, host := intsToString(c.URL), intsToString(c.Src), c.Host.String()
		// environment check: the abstract PSL of the model agrees with the real list on this host
		if realPsl(host) != c.HostPsl {
			pslBad++
			fmt.Printf("PSL %s: model %+v real %+v\n", host, c.HostPsl, realPsl(host))
			continue
		}
		if src != "" {
			if pu, err := url.Parse(src); err != nil || realPsl(pu.Hostname()) != c.SrcPsl {
				pslBad++
				continue
			}
		}
		got, pv := observeRequest(c.Kind, u, src, host)
		if c.Exp.ThirdParty {
			third++
		}
		if len(samples) < 6 && i%2777 == 11 {
			samples = append(samples, fmt.Sprintf("url=%.60s source=%.40s -> host=%s domain=%s third-party=%v", u, src, got.Host, got.Domain, got.ThirdParty))
		}
		if d := fieldsDiff(c.Kind, c.Exp, got); pv != "" || d != "" {
			mism++
			out.write(map[string]any{"kind": c.Kind, "url": u, "source": src, "host": host, "field": d, "panic": pv,
				"expected": map[string]any{"host": c.Exp.Host.String(), "domain": c.Exp.Domain.String(), "srcHost": c.Exp.SrcHost.String(),
					"srcDomain": c.Exp.SrcDomain.String(), "thirdParty": c.Exp.ThirdParty},
				"got": map[string]any{"host": got.Host.String(), "domain": got.Domain.String(), "srcHost": got.SrcHost.String(),
					"srcDomain": got.SrcDomain.String(), "thirdParty": got.ThirdParty}, "case": c})
		}
	}
	if pslBad > 0 {
		return fmt.Errorf("the model's abstract PSL disagrees with the real list on %d cases", pslBad)
	}
	summary(map[string]any{"cases": len(recs), "mismatches": mism, "third_party": third, "samples": samples})
	return nil
}

type reqEvent struct {
	Kind    string    `json:"kind"`
	URL     []int     `json:"url"`
	Src     []int     `json:"src"`
	Host    aHost     `json:"host"`
	NetHost aHost     `json:"nethost"`
	NetSrc  aHost     `json:"netsrc"`
	HostPsl aPsl      `json:"hostPsl"`
	SrcPsl  aPsl      `json:"srcPsl"`
	Got     reqFields `json:"got"`
}

func readLines(path string) ([]string, error) {
	f, err := os.Open(path)
	if err != nil {
		return nil, err
	}
	defer f.Close()
	var out []string
	sc := bufio.NewScanner(f)
	for sc.Scan() {
		if t := strings.TrimSpace(sc.Text()); t != "" {
			out = append(out, t)
		}
	}
	return out, sc.Err()
}

// vh drive-request psl=<psl_rules.txt> n=<max rules, 0 = all> out=<trace.ndjson>
func cmdDriveRequest(args []string) error {
	m := argMap(args)
	pslRules, err := readLines(m["psl"])
	if err != nil {
		return err
	}
	out, err := newNDWriter(m["out"])
	if err != nil {
		return err
	}
	defer out.close()
	rnd := rand.New(rand.NewSource(seed()*13 + 1))
	limit := argInt(m, "n", 0)
	if limit > 0 && limit < len(pslRules) {
		rnd.Shuffle(len(pslRules), func(i, j int) { pslRules[i], pslRules[j] = pslRules[j], pslRules[i] })
		// keep every wildcard and exception rule
		var keep []string
		for _, r := range pslRules {
			if len(keep) < limit || strings.ContainsAny(r, "*!") {
				keep = append(keep, r)
			}
		}
		pslRules = keep
	}
	tails := []string{"", "/", "/path/x.js", "?q=1", "?email=john@mail.example.net", "/p?u=a@b.example", "?a=b/c@d", "/p?q=1#frag", "/a:b/c", "/p?u=http://other.example/x", ":8080/x", ":443", "/P/Q.JS",
		"/\u043a\u0430\u0442\u0430\u043b\u043e\u0433/\u0401\u043b\u043a\u0430", "/?q=\u00c9COLE&\u00d7=\u00de", "/\u0416\u0423\u041a/x"}
	schemes := []string{"http", "https", "ws", "wss"}
	third, panics := 0, 0
	var samples []string
	emit := func(kind, u, src, host string) {
		ev := reqEvent{Kind: kind, URL: bytesToInts(u), Src: bytesToInts(src), Host: nzHost(hostFromString(host)), NetHost: aHost{}, NetSrc: aHost{}}
		if kind == "url" {
			pu, err := url.Parse(u)
			if err != nil {
				return
			}
			ev.NetHost = nzHost(hostFromString(pu.Hostname()))
			ev.HostPsl = realPsl(pu.Hostname())
			if src != "" {
				ps, err := url.Parse(src)
				if err != nil {
					return
				}
				ev.NetSrc = nzHost(hostFromString(ps.Hostname()))
				ev.SrcPsl = realPsl(ps.Hostname())
			}
		} else {
			ev.HostPsl = realPsl(host)
		}
		got, pv := observeRequest(kind, u, src, host)
		if pv != "" {
			panics++
			fmt.Printf("PANIC %s %q %q: %s\n", kind, u, src, pv)
			return
		}
		if got.ThirdParty {
			third++
		}
		if got.Lower == nil {
			got.Lower = []int{}
		}
		ev.Got = got
		if len(samples) < 5 && out.n%3001 == 17 {
			samples = append(samples, fmt.Sprintf("%s source=%s -> host=%s domain=%s third-party=%v", u, src, got.Host, got.Domain, got.ThirdParty))
		}
		out.write(ev)
	}
	for _, r := range pslRules {
		base := strings.TrimPrefix(strings.TrimPrefix(r, "!"), "*.")
		if strings.HasPrefix(r, "*.") {
			base = "wild." + base
		}
		if strings.ContainsAny(base, "*") {
			continue
		}
		ascii := true
		for i := 0; i < len(base); i++ {
			if base[i] >= 0x80 {
				ascii = false
			}
		}
		if !ascii {
			continue // IDN rules in U-label form: hosts are A-labels on the wire
		}
		// ... and names in which the text of the suffix comes twice: as whole labels further left, and as the start of
		// an inner label
		hosts := []string{base, "a." + base, "b.a." + base, "a." + base + ".mirror." + base, "x." + base + "ish.y." + base}
		for hi, h := range hosts {
			u := schemes[rnd.Intn(len(schemes))] + "://" + h + tails[rnd.Intn(len(tails))]
			var src string
			switch rnd.Intn(4) {
			case 0:
				src = ""
			case 1:
				src = "https://" + hosts[(hi+1)%len(hosts)] + "/page"
			case 2:
				src = "http://c." + base + "/"
			default:
				src = "https://other.example.org/x?y"
			}
			emit("url", u, src, h)
			if hi == 1 {
				emit("host", "", "", h)
			}
		}
	}
	// host names at and around the longest a domain name can be (253), each followed by something
	for _, total := range []int{250, 252, 253, 254, 255, 300} {
		tail := ".long-name.example.org"
		rest := total - len(tail)
		var labels []string
		for rest > 0 {
			n := min(rest, 60)
			if rest-n == 1 {
				n-- // no one-character remainder in front of a dot
			}
			labels = append(labels, strings.Repeat("a", n))
			rest -= n + 1
		}
		h := strings.Join(labels, ".") + tail
		h = h[len(h)-total:]
		if h[0] == '.' {
			h = "b" + h[1:]
		}
		for _, t := range []string{"/x.js", ":8080/x", "?q=1", "", "/"} {
			emit("url", "https://"+h+t, "http://c.example.org/", h)
		}
		emit("host", "", "", h)
	}
	// a few mixed-case and long URLs
	for i := 0; i < 200; i++ {
		h := []string{"Example.ORG", "A.b.Example.Co.UK", "LOCALHOST", "sub.Example.com"}[rnd.Intn(4)]
		u := "https://" + h + "/" + strings.Repeat("Ab", rnd.Intn(2200)) + "?Z=1"
		emit("url", u, "HTTP://"+strings.ToUpper(h)+"/", h)
	}
	summary(map[string]any{"events": out.n, "third_party": third, "panics": panics, "psl_rules": len(pslRules), "samples": samples})
	return nil
}

func init() {
	register("replay-request", cmdReplayRequest)
	register("drive-request", cmdDriveRequest)
}
