package main

// C14: concurrent queries.  conc-race: real engines queried from many
// goroutines under the Go race detector with yield points perturbed, answers
// compared with sequential answers.  conc-gate: goroutines are held at the
// yield points so that a second goroutine gets the chance to enter the same
// window (the attack schedules of the lock-removed variants of
// spec/Concurrency.tla); the yield events are logged for trace validation.

import (
	"bytes"
	"fmt"
	"math/rand"
	"os"
	"path/filepath"
	"runtime"
	"strconv"
	"strings"
	"sync"
	"time"

	"github.com/AdguardTeam/urlfilter"
	"github.com/AdguardTeam/urlfilter/filterlist"
	"github.com/AdguardTeam/urlfilter/rules"
)

func setYield(f func(string)) {
	filterlist.VerifYield = f
	rules.VerifYield = f
	urlfilter.VerifYield = f
}

// vh conc-race rounds=<n> dir=<tmpdir>
func cmdConcRace(args []string) error {
	m := argMap(args)
	rounds := argInt(m, "rounds", 6)
	rnd := rand.New(rand.NewSource(seed()*3 + 1))
	// no synchronising operation inside the hook, so it cannot hide a race
	setYield(func(p string) {
		if len(p)%2 == 0 {
			runtime.Gosched()
		} else {
			for i := 0; i < 2000; i++ {
				_ = i * i
			}
			runtime.Gosched()
		}
	})
	total, wrong, panics := 0, 0, 0
	var wrongSamples []string
	configs := []map[string]any{}
	for round := 0; round < rounds; round++ {
		var lines []string
		nl := 40 + rnd.Intn(200)
		for i := 0; i < nl; i++ {
			lines = append(lines, rndListLine(rnd))
		}
		if round%3 == 2 {
			all := listRuleLines(repoDir())
			start := rnd.Intn(len(all) - 2000)
			lines = append(lines, all[start:start+2000]...)
		}
		// a $domain bucket with several rules, and referrers on different sub-domains of that domain: the lookups share
		// the bucket of the parent
		lines = append(lines, "/k1$domain=example.org,script", "/k2$domain=example.org,script", "/k3$domain=example.org,script",
			"/k1$domain=a.example.org,script", "/k2$domain=b.example.org,script", "/k3$domain=sub.example.org,script", "@@/k2$domain=b.example.org,script",
			// ... and a rule filed under a domain and under its own sub-domain: one request meets it on two levels
			"/k1$domain=example.org|sub.example.org,script",
			// ... and a rule with its $badfilter twin, their domains written in no particular order: comparing the two is a
			// read of both, whoever asks
			"/k2$domain=b.example.org|a.example.org|sub.example.org,script", "/k2$domain=b.example.org|a.example.org|sub.example.org,script,badfilter")
		var qs []*histQuery
		for i := 0; i < 60; i++ {
			qs = append(qs, rndHistQuery(rnd))
		}
		for _, src := range []string{"a.example.org", "b.example.org", "sub.example.org", "example.org", "x.a.example.org"} {
			for _, kind := range []string{"net", "web"} {
				qs = append(qs, &histQuery{kind: kind, host: "static.site.com", url: "http://static.site.com/k1/k2/k3/x.js", src: "https://" + src + "/", typ: rules.TypeScript})
			}
		}
		// the first question about cosmetic rules, asked while the network rules of the cold engine are being looked up
		cosQ := &histQuery{kind: "cos", host: "sub.example.org", opt: 7}
		qs = append(qs, cosQ)
		work := make([]*histQuery, 0, 400)
		for i := 0; i < 400; i++ {
			work = append(work, qs[rnd.Intn(len(qs))])
		}
		ls := rnd.Int63()
		forceFile := round%2 == 0
		// sequential reference on its own engines
		stRef, cleanRef, err := makeHistStorage(rand.New(rand.NewSource(ls)), lines, m["dir"], forceFile)
		if err != nil {
			return err
		}
		ref := newHistEngines(stRef)
		want := map[string]string{}
		for _, q := range qs {
			a, _, _, _ := ref.run(q)
			want[q.key()] = a
		}
		cleanRef()
		g := []int{2, 4, 8, 32}[rnd.Intn(4)]
		st, clean, err := makeHistStorage(rand.New(rand.NewSource(ls)), lines, m["dir"], forceFile)
		if err != nil {
			return err
		}
		eng := newHistEngines(st) // cold cache
		type bad struct{ q, got, want string }
		bads := make([][]bad, g)
		var wg sync.WaitGroup
		// first a burst: every goroutine asks the same thing of the cold engine at the same moment (the rules it needs are
		// materialised by several goroutines at once, each of which goes on to meet them again on the next domain level)
		burst := &histQuery{kind: "net", host: "static.site.com", url: "http://static.site.com/k1/k2/k3/x.js", src: "https://sub.example.org/", typ: rules.TypeScript}
		startBurst := make(chan struct{})
		for w := 0; w < g; w++ {
			wg.Add(1)
			go func(w int) {
				defer wg.Done()
				<-startBurst
				bq := burst
				if w == 0 {
					bq = cosQ
				}
				a, _, _, pv := eng.run(bq)
				if pv != "" || a != want[bq.key()] {
					bads[w] = append(bads[w], bad{bq.key(), a, want[bq.key()]})
				}
			}(w)
		}
		close(startBurst)
		wg.Wait()
		total += g
		for w := 0; w < g; w++ {
			wg.Add(1)
			go func(w int) {
				defer wg.Done()
				for i := w; i < len(work); i += g {
					q := work[i]
					a, res, _, pv := eng.run(q)
					if res != nil && res.dns != nil {
						_ = res.dns.DNSRewrites()
					}
					if pv != "" || a != want[q.key()] {
						bads[w] = append(bads[w], bad{q.key(), a, want[q.key()]})
					}
				}
			}(w)
		}
		wg.Wait()
		clean()
		total += len(work)
		for _, b := range bads {
			for _, x := range b {
				wrong++
				if strings.HasPrefix(x.got, "PANIC") {
					panics++
				}
				if len(wrongSamples) < 5 {
					wrongSamples = append(wrongSamples, fmt.Sprintf("%s: concurrent %.200s, sequential %.200s", x.q, x.got, x.want))
				}
			}
		}
		configs = append(configs, map[string]any{"goroutines": g, "file_backed": forceFile, "list_lines": len(lines)})
	}
	summary(map[string]any{"queries": total, "wrong": wrong, "panics": panics, "wrong_samples": wrongSamples, "rounds": configs})
	return nil
}

// ---- gate mode ----

func goid() int {
	var buf [64]byte
	n := runtime.Stack(buf[:], false)
	f := bytes.Fields(buf[:n])
	id, _ := strconv.Atoi(string(f[1]))
	return id
}

type gateCtl struct {
	mu      sync.Mutex
	procOf  map[int]int
	events  [][2]any
	inside  map[string]int // label -> number of goroutines currently held at that label
	overlap map[string]int // label -> how often a second goroutine arrived while one was held
	hold    map[string]bool
	timeout time.Duration
}

var labelOf = map[string]string{"cache-miss": "cache_miss", "file-read": "file_between", "cache-insert": "before_insert", "compile": "before_compile"}

func (c *gateCtl) yield(point string) {
	label, ok := labelOf[point]
	if !ok {
		return
	}
	id := goid()
	c.mu.Lock()
	p, known := c.procOf[id]
	if !known {
		c.mu.Unlock()
		return
	}
	c.events = append(c.events, [2]any{p, label})
	if !c.hold[label] {
		c.mu.Unlock()
		return
	}
	if c.inside[label] > 0 {
		// a second goroutine is inside the window at the same time
		c.overlap[label]++
		c.mu.Unlock()
		return
	}
	c.inside[label]++
	c.mu.Unlock()
	// hold this goroutine inside the window; others get the chance to enter it
	deadline := time.Now().Add(c.timeout)
	for time.Now().Before(deadline) {
		c.mu.Lock()
		o := c.overlap[label]
		c.mu.Unlock()
		if o > 0 {
			// let the intruder run first: this is the attack schedule
			time.Sleep(2 * time.Millisecond)
			break
		}
		time.Sleep(200 * time.Microsecond)
	}
	c.mu.Lock()
	c.inside[label]--
	c.mu.Unlock()
}

type gateRun struct {
	Sched   [][2]any       `json:"sched"`
	Want    []int          `json:"want"`
	Answers []string       `json:"answers"`
	Expect  []string       `json:"expect"`
	Hold    string         `json:"hold"`
	Overlap map[string]int `json:"overlap"`
	G       int            `json:"g"`
}

// vh conc-gate runs=<n> out=<runs.ndjson> dir=<tmpdir>
func cmdConcGate(args []string) error {
	m := argMap(args)
	runs := argInt(m, "runs", 12)
	out, err := newNDWriter(m["out"])
	if err != nil {
		return err
	}
	defer out.close()
	rnd := rand.New(rand.NewSource(seed()*5 + 2))
	wrong := 0
	overlaps := map[string]int{}
	holds := []string{"file_between", "cache_miss", "before_insert", "before_compile", "none"}
	for run := 0; run < runs; run++ {
		g := 2 + rnd.Intn(2)
		nidx := 2
		var lines []string
		for k := 0; k < nidx; k++ {
			lines = append(lines, fmt.Sprintf("||gate%d.test^$script", k+1))
		}
		fn := filepath.Join(m["dir"], fmt.Sprintf("gate-%d-%d.txt", os.Getpid(), run))
		if err := os.WriteFile(fn, []byte(strings.Join(lines, "\n")+"\n"), 0o600); err != nil {
			return err
		}
		fl, err := filterlist.NewFileRuleList(1, fn, false)
		if err != nil {
			return err
		}
		st, err := filterlist.NewRuleStorage([]filterlist.RuleList{fl})
		if err != nil {
			return err
		}
		var idxs []int64
		sc := st.NewRuleStorageScanner()
		for sc.Scan() {
			_, idx := sc.Rule()
			idxs = append(idxs, idx)
		}
		hold := holds[run%len(holds)]
		ctl := &gateCtl{procOf: map[int]int{}, inside: map[string]int{}, overlap: map[string]int{}, hold: map[string]bool{hold: true}, timeout: 15 * time.Millisecond}
		setYield(ctl.yield)
		gr := gateRun{Hold: hold, G: g, Answers: make([]string, g), Expect: make([]string, g), Want: make([]int, g)}
		var wg sync.WaitGroup
		start := make(chan struct{})
		for p := 1; p <= g; p++ {
			k := rnd.Intn(nidx)
			gr.Want[p-1] = 10 * (k + 1)
			gr.Expect[p-1] = lines[k]
			wg.Add(1)
			go func(p, k int) {
				defer wg.Done()
				ctl.mu.Lock()
				ctl.procOf[goid()] = p
				ctl.mu.Unlock()
				<-start
				pv := safeCall(func() {
					r := st.RetrieveNetworkRule(idxs[k])
					if r == nil {
						gr.Answers[p-1] = "nil"
						return
					}
					_ = r.Match(rules.NewRequest(fmt.Sprintf("http://gate%d.test/x.js", k+1), "", rules.TypeScript))
					gr.Answers[p-1] = r.RuleText
				})
				if pv != "" {
					gr.Answers[p-1] = "PANIC " + pv
				}
			}(p, k)
		}
		close(start)
		wg.Wait()
		setYield(nil)
		_ = st.Close()
		os.Remove(fn)
		gr.Sched = ctl.events
		if gr.Sched == nil {
			gr.Sched = [][2]any{}
		}
		gr.Overlap = ctl.overlap
		for k, v := range ctl.overlap {
			overlaps[k] += v
		}
		for p := range gr.Answers {
			if gr.Answers[p] != gr.Expect[p] {
				wrong++
			}
		}
		out.write(gr)
	}
	summary(map[string]any{"runs": runs, "wrong": wrong, "overlaps": overlaps})
	return nil
}

func init() {
	register("conc-race", cmdConcRace)
	register("conc-gate", cmdConcGate)
}
