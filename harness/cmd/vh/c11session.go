package main

// ScanSession (spec/ScanSession.tla), spec -> code: every schedule TLC prints - scanners of one list opened, stepped
// and rules retrieved through the reported indexes, in some interleaving - is executed on a list held in memory and on
// the same list in a file.  What each scanner yields and what each retrieval returns is compared with what the intended
// design says (the scan of the list, whatever else happens).  Readers open at the same time are outside the quantifier of
// C11 (DESIGN.md section 8): the outcome is an observation in the evidence, not a verdict.

import (
	"fmt"
	"os"
	"path/filepath"
	"strings"

	"github.com/AdguardTeam/urlfilter/filterlist"
)

type ssOp struct {
	Op string `json:"op"`
	S  string `json:"s"`
	N  int    `json:"n"`
}

type ssYield struct {
	Line int `json:"line"`
	Idx  int `json:"idx"`
}

type ssCase struct {
	Kind     string    `json:"kind"`
	Ops      []ssOp    `json:"ops"`
	Expected []ssYield `json:"expected"`
	Sizes    []int     `json:"sizes"`
	Kinds    []string  `json:"kinds"`
}

// ssLine: the text of line k (1-based) of the given kind, size bytes long including its line break
func ssLine(k int, kind string, size int) (line, ruleText string) {
	switch kind {
	case "net":
		ruleText = fmt.Sprintf("||scan%d.example^", k)
	case "host":
		ruleText = fmt.Sprintf("0.0.0.0 scan%d.example", k)
	case "cos":
		ruleText = fmt.Sprintf("scan%d.example##.banner", k)
	case "comment":
		ruleText = fmt.Sprintf("! line %d is a comment", k)
	case "bad":
		ruleText = fmt.Sprintf("||scan%d.example^$nosuchmodifier", k)
	default:
		ruleText = ""
	}
	pad := size - 1 - len(ruleText)
	if pad < 0 {
		pad = 0
	}
	fill := " "
	if kind == "comment" {
		fill = "-"
	}
	return ruleText + strings.Repeat(fill, pad) + "\n", ruleText
}

// ssRun executes the schedule on one list; it returns "" if the list behaved as the intended design says
func ssRun(c *ssCase, l filterlist.RuleList, texts []string) string {
	type got struct {
		text string
		idx  int
	}
	scanners := map[string]*filterlist.RuleScanner{}
	yielded := map[string][]got{}
	for i, op := range c.Ops {
		switch op.Op {
		case "open":
			scanners[op.S] = l.NewScanner()
		case "step":
			sc := scanners[op.S]
			if sc == nil {
				return fmt.Sprintf("op %d: step of a scanner that is not open", i+1)
			}
			if sc.Scan() {
				r, idx := sc.Rule()
				yielded[op.S] = append(yielded[op.S], got{r.Text(), idx})
			}
		case "get":
			n := op.N - 1
			idx := -1
			if n < len(yielded[op.S]) {
				idx = yielded[op.S][n].idx
			} else if n < len(c.Expected) {
				idx = c.Expected[n].Idx
			}
			want := ""
			if n < len(c.Expected) {
				want = texts[c.Expected[n].Line-1]
			}
			r, err := l.RetrieveRule(idx)
			if err != nil || r == nil {
				return fmt.Sprintf("op %d: retrieval through the index of rule %d of scanner %s returns nothing (%v)", i+1, op.N, op.S, err)
			}
			if r.Text() != want {
				return fmt.Sprintf("op %d: retrieval through the index of rule %d of scanner %s returns %.40q, not %.40q", i+1, op.N, op.S, r.Text(), want)
			}
		}
	}
	for s, sc := range scanners {
		for sc.Scan() { // what is left (nothing, by the schedule): counted as yielded too
			r, idx := sc.Rule()
			yielded[s] = append(yielded[s], got{r.Text(), idx})
		}
		ys := yielded[s]
		if len(ys) != len(c.Expected) {
			return fmt.Sprintf("scanner %s yields %d rules, the list has %d", s, len(ys), len(c.Expected))
		}
		for n, y := range ys {
			if y.idx != c.Expected[n].Idx || y.text != texts[c.Expected[n].Line-1] {
				return fmt.Sprintf("scanner %s: rule %d is %.40q at index %d, expected %.40q at index %d", s, n+1, y.text, y.idx,
					texts[c.Expected[n].Line-1], c.Expected[n].Idx)
			}
		}
	}
	return ""
}

// vh replay-scansession in=<schedules.ndjson> dir=<tmpdir>
func cmdReplayScanSession(args []string) error {
	m := argMap(args)
	recs, err := readND[ssCase](m["in"])
	if err != nil {
		return err
	}
	n, memBad, fileBad := 0, 0, 0
	var memSamples, fileSamples []string
	for i := range recs {
		c := &recs[i]
		if c.Kind != "SCHEDULE" {
			continue
		}
		n++
		var sb strings.Builder
		texts := make([]string, len(c.Sizes))
		for k := range c.Sizes {
			line, t := ssLine(k+1, c.Kinds[k], c.Sizes[k])
			if len(line) != c.Sizes[k] {
				return fmt.Errorf("line %d cannot be made %d bytes long", k+1, c.Sizes[k])
			}
			sb.WriteString(line)
			texts[k] = t
		}
		if why := ssRun(c, &filterlist.StringRuleList{ID: 7, RulesText: sb.String()}, texts); why != "" {
			memBad++
			if len(memSamples) < 3 {
				memSamples = append(memSamples, why)
			}
		}
		p := filepath.Join(m["dir"], fmt.Sprintf("scansession-%d.txt", os.Getpid()))
		if err = os.WriteFile(p, []byte(sb.String()), 0o600); err != nil {
			return err
		}
		fl, err := filterlist.NewFileRuleList(7, p, false)
		if err != nil {
			return err
		}
		why := ssRun(c, fl, texts)
		_ = fl.Close()
		_ = os.Remove(p)
		if why != "" {
			fileBad++
			if len(fileSamples) < 3 {
				fileSamples = append(fileSamples, why)
			}
		}
	}
	summary(map[string]any{"schedules": n, "memory_list_deviates": memBad, "file_list_deviates": fileBad,
		"memory_samples": memSamples, "file_samples": fileSamples})
	return nil
}

func init() {
	register("replay-scansession", cmdReplayScanSession)
}
