package main

// C18: hosts-file lines.

import (
	"fmt"
	"math/rand"
	"sort"
	"strings"

	"github.com/AdguardTeam/urlfilter"
	"github.com/AdguardTeam/urlfilter/filterlist"
	"github.com/AdguardTeam/urlfilter/rules"
	"github.com/miekg/dns"
)

type hostCase struct {
	Line struct {
		Addr    string   `json:"addr"`
		Names   []string `json:"names"`
		Sep     string   `json:"sep"`
		Comment string   `json:"comment"`
		Trail   bool     `json:"trail"`
	} `json:"line"`
	IP    string          `json:"ip"`
	Names []string        `json:"names"`
	Group string          `json:"group"`
	Match map[string]bool `json:"match"`
}

var hostNames = map[string]string{"n1": "example.org", "n2": "a.example.org", "n3": "Ads.Test.COM", "n4": "x-y.example.net"}
var hostAddrs = map[string][]string{"v4": {"0.0.0.0", "127.0.0.1", "192.168.1.1"}, "v6": {"::1", "2001:db8::1", "::"}, "mapped": {"::ffff:1.2.3.4"}}
var hostSeps = map[string][]string{"sp": {" "}, "tab": {"\t"}, "mixed": {" \t  ", "\t\t "}}

// the text of a comment is arbitrary: plain words, addresses and names, and the characters that mean something in
// adblock-style rules (| ^ * $ / and a URL)
var hostComments = map[string][]string{"none": {""}, "blank_hash_text": {" #note", "\t# note", " \t# note", "\t\t#note", "  \t #n", " #/ads^|*$x"},
	"hash_text":           {"#note", "#n", "#http://x.example/|^*$a"},
	"blank_hashhash_text": {" ## phishing"}, "blank_hash_words": {" # a b 1.2.3.4 evil.org", " # See http://example.com/x?a=b|c^d*e$f , 50% off"}, "hash_only": {"#"}, "blank_hash_only": {" #", "  #", " \t#", "\t\t#"}}

var longHostsLine = func() string {
	var names []string
	for i := 0; i < 400; i++ {
		names = append(names, fmt.Sprintf("alias%03d.long.example", i))
	}
	return "10.9.8.7 " + strings.Join(names, " ")
}()

func addrClass(ip string) string {
	switch {
	case ip == "0.0.0.0":
		return "v4-unspecified-or-v4"
	case strings.Contains(ip, "::ffff:"):
		return "mapped"
	case strings.Contains(ip, ":"):
		return "v6"
	default:
		return "v4"
	}
}

// vh replay-hosts in=<cases.ndjson> out=<mismatches.ndjson>
func cmdReplayHosts(args []string) error {
	m := argMap(args)
	recs, err := readND[hostCase](m["in"])
	if err != nil {
		return err
	}
	out, err := newNDWriter(m["out"])
	if err != nil {
		return err
	}
	defer out.close()
	// two of the four names are hostnames with the same 32-bit djb2 hash: a line that lists one must not answer for the other
	if dc := findCollisions("", ".example.org", 6, "abcdefghijklmnopqrstuvwxyz0123456789", 1, rand.New(rand.NewSource(seed()))); len(dc) == 1 {
		hostNames["n1"], hostNames["n2"] = dc[0][0], dc[0][1]
	} else {
		return fmt.Errorf("no colliding hostnames found")
	}
	evals, mism, lines := 0, 0, 0
	var samples []string
	// once per run: hosts lines that start more than 256 MiB into their list (the padding is never held in memory);
	// where a line stands in its list - its storage index - must not matter
	{
		tail := "0.0.0.0 far-one.example far-two.example\n::1 far-six.example # comment\nfar-bare.example\n"
		st, err := filterlist.NewRuleStorage([]filterlist.RuleList{newVirtualList(5, 65600, tail)})
		if err != nil {
			return err
		}
		eng := urlfilter.NewDNSEngine(st)
		for _, q := range []struct {
			name   string
			v4, v6 int
		}{{"far-one.example", 1, 0}, {"far-two.example", 1, 0}, {"far-six.example", 0, 1}, {"far-bare.example", 1, 0}, {"far-none.example", 0, 0}} {
			evals++
			var res *urlfilter.DNSResult
			pv := safeCall(func() { res, _ = eng.Match(q.name) })
			if pv != "" || len(res.HostRulesV4) != q.v4 || len(res.HostRulesV6) != q.v6 {
				mism++
				got := pv
				if pv == "" {
					got = fmt.Sprintf("v4=%d v6=%d", len(res.HostRulesV4), len(res.HostRulesV6))
				}
				out.write(map[string]any{"line": "(hosts lines behind 256 MiB of comments) " + tail, "entry": "DNSEngine.Match", "why": "query " + q.name,
					"expected": fmt.Sprintf("v4=%d v6=%d", q.v4, q.v6), "got": got, "cause": "large-offset", "case": hostCase{}})
			}
		}
	}
	bad := func(c hostCase, line, entry, why string, exp, got any) {
		mism++
		cause := "other"
		if strings.Contains(c.Line.Comment, "hash") && !strings.HasPrefix(c.Line.Comment, "blank") {
			cause = "comment-sign-without-blank"
		}
		out.write(map[string]any{"line": line, "entry": entry, "why": why, "expected": exp, "got": got, "cause": cause, "case": c})
	}
	for ci, c := range recs {
		addrs := []string{""}
		if c.Line.Addr != "none" {
			addrs = hostAddrs[c.Line.Addr]
		}
		for ai, addr := range addrs {
			for si, sep := range hostSeps[c.Line.Sep] {
				for _, cm := range hostComments[c.Line.Comment] {
					if (ai+si+ci)%2 == 1 && len(addrs)*len(hostSeps[c.Line.Sep]) > 1 {
						continue // thin out the spelling product deterministically
					}
					var names []string
					for _, n := range c.Names {
						names = append(names, hostNames[n])
					}
					line := strings.Join(names, sep)
					if addr != "" {
						line = addr + sep + line
					}
					line += cm
					if c.Line.Trail {
						line += " \t"
					}
					lines++
					if len(samples) < 6 && lines%401 == 5 {
						samples = append(samples, fmt.Sprintf("%q", line))
					}
					wantIP := addr
					if addr == "" {
						wantIP = "0.0.0.0"
					}
					for _, entry := range []string{"NewRule", "NewHostRule"} {
						evals++
						var hr *rules.HostRule
						var perr error
						pv := safeCall(func() {
							if entry == "NewRule" {
								var r rules.Rule
								r, perr = rules.NewRule(line, 5)
								hr, _ = r.(*rules.HostRule)
							} else {
								hr, perr = rules.NewHostRule(strings.TrimSpace(line), 5)
							}
						})
						switch {
						case pv != "":
							bad(c, line, entry, "panic "+pv, nil, nil)
						case perr != nil || hr == nil:
							bad(c, line, entry, fmt.Sprintf("not a host rule: %v", perr), names, nil)
						case strings.Join(hr.Hostnames, " ") != strings.Join(names, " "):
							bad(c, line, entry, "hostnames", names, hr.Hostnames)
						case hr.IP.String() != wantIP:
							bad(c, line, entry, "address", wantIP, hr.IP.String())
						case hr.FilterListID != 5:
							bad(c, line, entry, "list id", 5, hr.FilterListID)
						}
					}
					// through the DNS engine, among distractor lines
					// (every 16th list also carries a hosts line of 400 names, longer than the 4 KiB read buffer, in front)
					withLong := lines%16 == 1
					list := "0.0.0.0 other.example\n" + line + "\n::2 other6.example\n||blocked.example^\n"
					if withLong {
						list = "0.0.0.0 other.example\n" + longHostsLine + "\n" + line + "\n::2 other6.example\n||blocked.example^\n"
					}
					// every 5th list: a later line gives the first name of the tested line another address; the other names of
					// the tested line are asked for (the first one now has two entries and is left out)
					withRepeat := lines%5 == 2 && len(names) >= 2
					if withRepeat {
						list += "10.0.0.9 " + names[0] + "\n"
					}
					// every 3rd list has the id 0 and the tested line as its very first one: storage index 0 is a rule
					// like any other
					listID := 5
					if lines%3 == 0 && !withLong {
						listID = 0
						list = line + "\n" + strings.Replace(list, line+"\n", "", 1)
					}
					// every 4th list ends with the tested line (and, depending on the layout, without a line break)
					if lines%4 == 3 && !withLong && !withRepeat && listID != 0 {
						list = strings.Replace(list, line+"\n", "", 1) + line
					}
					st, err := layoutStorage([]string{list}, []int{listID})
					if err != nil {
						return err
					}
					eng := urlfilter.NewDNSEngine(st)
					if withLong {
						for _, ln := range []string{"alias000.long.example", "alias205.long.example", "alias399.long.example"} {
							evals++
							var res *urlfilter.DNSResult
							pv := safeCall(func() { res, _ = eng.Match(ln) })
							if pv != "" || len(res.HostRulesV4) != 1 || len(res.HostRulesV4[0].Hostnames) != 400 {
								bad(c, longHostsLine[:60]+"...", "DNSEngine.Match", "query "+ln+" on a 400-name line", "v4, 400 names", fmt.Sprintf("%d rules %s", len(res.HostRulesV4), pv))
							}
						}
					}
					var keys []string
					for k := range c.Match {
						keys = append(keys, k)
					}
					sort.Strings(keys)
					for _, k := range keys {
						name := hostNames[k]
						if withRepeat && name == names[0] {
							continue
						}
						for _, q := range []struct {
							name string
							want bool
						}{{name, c.Match[k]}, {name[:len(name)-1], false}, {name + "x", false}, {"x" + name, false}} {
							evals++
							var res *urlfilter.DNSResult
							var matched bool
							pv := safeCall(func() { res, matched = eng.Match(q.name) })
							if pv != "" {
								bad(c, line, "DNSEngine.Match", "panic "+pv, nil, nil)
								continue
							}
							// the groups are compared as sets of rules: a line whose names share a hash bucket is
							// reported once per name by the engine, and the property does not fix the multiplicity
							distinct := func(hs []*rules.HostRule) int {
								seen := map[*rules.HostRule]bool{}
								for _, h := range hs {
									seen[h] = true
								}
								return len(seen)
							}
							n4, n6 := distinct(res.HostRulesV4), distinct(res.HostRulesV6)
							got := "none"
							switch {
							case n4 == 1 && n6 == 0:
								got = "v4"
							case n6 == 1 && n4 == 0:
								got = "v6"
							case n4+n6 > 0:
								got = fmt.Sprintf("v4=%d v6=%d", n4, n6)
							}
							want := "none"
							if q.want {
								want = c.Group
							}
							if got != want || matched != q.want {
								bad(c, line, "DNSEngine.Match", "query "+q.name, want, fmt.Sprintf("%s matched=%v", got, matched))
							}
							// a hosts entry is reported whatever record type is asked for: the groups say which family it is
							for _, dt := range []uint16{dns.TypeA, dns.TypeAAAA, dns.TypeMX} {
								var r2 *urlfilter.DNSResult
								var m2 bool
								if pv := safeCall(func() { r2, m2 = eng.MatchRequest(&urlfilter.DNSRequest{Hostname: q.name, DNSType: dt}) }); pv != "" {
									bad(c, line, "DNSEngine.MatchRequest", "panic "+pv, nil, nil)
								} else if distinct(r2.HostRulesV4) != n4 || distinct(r2.HostRulesV6) != n6 || m2 != matched {
									bad(c, line, "DNSEngine.MatchRequest", fmt.Sprintf("query %s for record type %d", q.name, dt), want,
										fmt.Sprintf("v4=%d v6=%d matched=%v", distinct(r2.HostRulesV4), distinct(r2.HostRulesV6), m2))
								}
							}
						}
					}
				}
			}
		}
	}
	summary(map[string]any{"cases": len(recs), "lines": lines, "evaluations": evals, "mismatches": mism, "samples": samples})
	return nil
}

func init() {
	register("replay-hosts", cmdReplayHosts)
}
