package main

// Abstract rules and requests as the TLA+ specification (spec/Rule.tla) writes
// them with ToJson, their rendering to concrete rule text (several orders and
// spellings of the same abstract rule) and to real rules.Request values.  The
// renderer is far simpler than the parser it exercises and contains no
// matching logic.

import (
	"encoding/json"
	"fmt"
	"math/rand"
	"net/netip"
	"sort"
	"strings"

	"github.com/AdguardTeam/urlfilter/rules"
	"github.com/miekg/dns"
	"golang.org/x/net/publicsuffix"
)

type aCli struct {
	K     string `json:"k"`
	V     []int  `json:"v,omitempty"`
	Fam   int    `json:"fam,omitempty"`
	Bytes []int  `json:"bytes,omitempty"`
	Bits  int    `json:"bits,omitempty"`
}

// MarshalJSON writes every field of a network spec (a /0 prefix has bits = 0).
func (c aCli) MarshalJSON() ([]byte, error) {
	if c.K == "name" {
		return json.Marshal(map[string]any{"k": c.K, "v": nz(c.V)})
	}
	return json.Marshal(map[string]any{"k": c.K, "fam": c.Fam, "bytes": nz(c.Bytes), "bits": c.Bits})
}

type aHost [][]int // labels of codes

type aRule struct {
	White     bool     `json:"white"`
	Important bool     `json:"important"`
	Badfilter bool     `json:"badfilter"`
	Pat       []int    `json:"pat"`
	Third     string   `json:"third"`
	Mcase     string   `json:"mcase"`
	PermTypes []string `json:"permTypes"`
	RestTypes []string `json:"restTypes"`
	PermDom   []aHost  `json:"permDom"`
	RestDom   []aHost  `json:"restDom"`
	Denyallow []aHost  `json:"denyallow"`
	PermDns   []string `json:"permDns"`
	RestDns   []string `json:"restDns"`
	PermTag   [][]int  `json:"permTag"`
	RestTag   [][]int  `json:"restTag"`
	PermCli   []aCli   `json:"permCli"`
	RestCli   []aCli   `json:"restCli"`
	DocOpts   []string `json:"docOpts"`
	Misc      []string `json:"misc"`
	Rewrite   [][]int  `json:"rewrite"`
}

type aPsl struct {
	N     int  `json:"n"`
	Icann bool `json:"icann"`
}

type aIP struct {
	Nil   bool  `json:"nil,omitempty"`
	Fam   int   `json:"fam,omitempty"`
	Bytes []int `json:"bytes,omitempty"`
}

type aReq struct {
	Hostreq    bool    `json:"hostreq"`
	URL        []int   `json:"url"`
	Host       aHost   `json:"host"`
	Src        aHost   `json:"src"`
	HostIsIP   bool    `json:"hostIsIP"`
	HostPsl    aPsl    `json:"hostPsl"`
	SrcPsl     aPsl    `json:"srcPsl"`
	ThirdParty bool    `json:"thirdParty"`
	Type       string  `json:"type"`
	DNSType    string  `json:"dnsType"`
	Tags       [][]int `json:"tags"`
	Cname      []int   `json:"cname"`
	Cip        aIP     `json:"cip"`
}

func (h aHost) String() string {
	parts := make([]string, len(h))
	for i, l := range h {
		parts[i] = intsToString(l)
	}
	return strings.Join(parts, ".")
}

func hostFromString(s string) aHost {
	if s == "" {
		return aHost{}
	}
	var h aHost
	for _, l := range strings.Split(s, ".") {
		h = append(h, bytesToInts(l))
	}
	return h
}

func addrOf(fam int, bs []int) netip.Addr {
	if fam == 4 {
		var b [4]byte
		for i := range b {
			b[i] = byte(bs[i])
		}
		return netip.AddrFrom4(b)
	}
	var b [16]byte
	for i := range b {
		b[i] = byte(bs[i])
	}
	return netip.AddrFrom16(b)
}

func (c aCli) render(variant int) string {
	if c.K == "name" {
		name := intsToString(c.V)
		plain := true
		for i := 0; i < len(name); i++ {
			ch := name[i]
			if !(ch >= 'a' && ch <= 'z' || ch >= 'A' && ch <= 'Z' || ch >= '0' && ch <= '9' || ch == '_' || ch == '-') {
				plain = false
			}
		}
		if plain && variant%2 == 0 {
			return name
		}
		q := "'"
		if variant%3 == 2 {
			q = "\""
		}
		esc := strings.ReplaceAll(name, ",", "\\,")
		esc = strings.ReplaceAll(esc, "|", "\\|")
		esc = strings.ReplaceAll(esc, q, "\\"+q)
		return q + esc + q
	}
	a := addrOf(c.Fam, c.Bytes)
	full := 32
	if c.Fam == 6 {
		full = 128
	}
	if c.Bits == full && variant%2 == 0 {
		return a.String()
	}
	if c.Bits == full {
		return a.String()
	}
	return netip.PrefixFrom(a, c.Bits).String()
}

func permute[T any](xs []T, variant int, rnd *rand.Rand) []T {
	out := append([]T{}, xs...)
	switch variant % 3 {
	case 1:
		for i, j := 0, len(out)-1; i < j; i, j = i+1, j-1 {
			out[i], out[j] = out[j], out[i]
		}
	case 2:
		rnd.Shuffle(len(out), func(i, j int) { out[i], out[j] = out[j], out[i] })
	}
	return out
}

func listOpt(name string, perm, rest []string, variant int, rnd *rand.Rand) string {
	var vals []string
	vals = append(vals, perm...)
	for _, r := range rest {
		vals = append(vals, "~"+r)
	}
	vals = permute(vals, variant, rnd)
	return name + "=" + strings.Join(vals, "|")
}

func hostsToStrings(hs []aHost) []string {
	out := make([]string, len(hs))
	for i, h := range hs {
		out[i] = h.String()
	}
	return out
}

func codesToStrings(cs [][]int) []string {
	out := make([]string, len(cs))
	for i, c := range cs {
		out[i] = intsToString(c)
	}
	return out
}

func containsAll(set []string, want ...string) bool {
	m := map[string]bool{}
	for _, s := range set {
		m[s] = true
	}
	for _, w := range want {
		if !m[w] {
			return false
		}
	}
	return true
}

// text renders the abstract rule.  variant 0 is the canonical order, 1 the
// reversed one, 2 a seeded shuffle with alternative spellings.
func (r *aRule) text(variant int, rnd *rand.Rand) string {
	var opts []string
	switch r.Third {
	case "on":
		if variant%3 == 2 {
			opts = append(opts, "~first-party")
		} else {
			opts = append(opts, "third-party")
		}
	case "off":
		if variant%3 == 2 {
			opts = append(opts, "first-party")
		} else {
			opts = append(opts, "~third-party")
		}
	}
	switch r.Mcase {
	case "on":
		opts = append(opts, "match-case")
	case "off":
		opts = append(opts, "~match-case")
	}
	if r.Important {
		opts = append(opts, "important")
	}
	for _, t := range permute(r.PermTypes, variant, rnd) {
		opts = append(opts, t)
	}
	for _, t := range permute(r.RestTypes, variant, rnd) {
		opts = append(opts, "~"+t)
	}
	if len(r.PermDom)+len(r.RestDom) > 0 {
		opts = append(opts, listOpt("domain", hostsToStrings(r.PermDom), hostsToStrings(r.RestDom), variant, rnd))
	}
	if len(r.Denyallow) > 0 {
		opts = append(opts, listOpt("denyallow", hostsToStrings(r.Denyallow), nil, variant, rnd))
	}
	if len(r.PermDns)+len(r.RestDns) > 0 {
		p, q := append([]string{}, r.PermDns...), append([]string{}, r.RestDns...)
		if variant%3 == 2 {
			for i := range p {
				p[i] = strings.ToLower(p[i])
			}
		}
		opts = append(opts, listOpt("dnstype", p, q, variant, rnd))
	}
	if len(r.PermTag)+len(r.RestTag) > 0 {
		opts = append(opts, listOpt("ctag", codesToStrings(r.PermTag), codesToStrings(r.RestTag), variant, rnd))
	}
	if len(r.PermCli)+len(r.RestCli) > 0 {
		var p, q []string
		for _, c := range r.PermCli {
			p = append(p, c.render(variant))
		}
		for _, c := range r.RestCli {
			q = append(q, c.render(variant))
		}
		opts = append(opts, listOpt("client", p, q, variant, rnd))
	}
	doc := append([]string{}, r.DocOpts...)
	if variant%3 == 2 && containsAll(doc, "elemhide", "jsinject", "urlblock", "content", "extension") {
		var rest []string
		for _, d := range doc {
			switch d {
			case "elemhide", "jsinject", "urlblock", "content", "extension":
			default:
				rest = append(rest, d)
			}
		}
		doc = append([]string{"document"}, rest...)
	}
	opts = append(opts, permute(doc, variant, rnd)...)
	opts = append(opts, permute(r.Misc, variant, rnd)...)
	if len(r.Rewrite) > 0 {
		v := intsToString(r.Rewrite[0])
		v = strings.ReplaceAll(v, ",", "\\,")
		opts = append(opts, "dnsrewrite="+v)
	}
	if r.Badfilter {
		opts = append(opts, "badfilter")
	}
	// the order of the options themselves
	switch variant % 3 {
	case 1:
		for i, j := 0, len(opts)-1; i < j; i, j = i+1, j-1 {
			opts[i], opts[j] = opts[j], opts[i]
		}
	case 2:
		// "document" must stay in front of anything it could interact with: keep relative order of doc options
		rnd.Shuffle(len(opts), func(i, j int) { opts[i], opts[j] = opts[j], opts[i] })
	}
	t := ""
	if r.White {
		t = "@@"
	}
	t += intsToString(r.Pat)
	if len(opts) > 0 {
		t += "$" + strings.Join(opts, ",")
	}
	return t
}

var typeByName = map[string]rules.RequestType{
	"document": rules.TypeDocument, "subdocument": rules.TypeSubdocument, "script": rules.TypeScript,
	"stylesheet": rules.TypeStylesheet, "object": rules.TypeObject, "image": rules.TypeImage,
	"xmlhttprequest": rules.TypeXmlhttprequest, "media": rules.TypeMedia, "font": rules.TypeFont,
	"websocket": rules.TypeWebsocket, "ping": rules.TypePing, "other": rules.TypeOther,
}

type envStats struct {
	PslMismatch  int `json:"psl_mismatch"`
	HostMismatch int `json:"host_mismatch"`
	ThirdFixed   int `json:"third_party_overridden"`
}

// realPsl is the environment input the specification takes from the Public Suffix List.
func realPsl(host string) aPsl {
	if host == "" {
		return aPsl{}
	}
	suffix, icann := publicsuffix.PublicSuffix(host)
	return aPsl{N: strings.Count(suffix, ".") + 1, Icann: icann}
}

// build turns the abstract request into the real one.  Derived request fields
// (hostnames, third-party) belong to C17; here they are forced to the values
// the case states, and a difference is only counted.
func (q *aReq) build(st *envStats) (*rules.Request, error) {
	host := q.Host.String()
	if q.Hostreq {
		r := rules.NewRequestForHostname(host)
		if q.DNSType != "none" && q.DNSType != "" {
			t, ok := dns.StringToType[q.DNSType]
			if !ok {
				return nil, fmt.Errorf("unknown dns type %q", q.DNSType)
			}
			r.DNSType = t
		}
		tags := codesToStrings(q.Tags)
		sort.Strings(tags)
		if len(tags) > 0 {
			r.SortedClientTags = tags
		}
		r.ClientName = intsToString(q.Cname)
		if !q.Cip.Nil && q.Cip.Fam != 0 {
			r.ClientIP = addrOf(q.Cip.Fam, q.Cip.Bytes)
		}
		if st != nil && realPsl(host) != q.HostPsl && !q.HostIsIP {
			st.PslMismatch++
		}
		return r, nil
	}
	src := ""
	if len(q.Src) > 0 {
		src = "http://" + q.Src.String() + "/page.html"
	}
	t, ok := typeByName[q.Type]
	if !ok {
		return nil, fmt.Errorf("unknown type %q", q.Type)
	}
	r := rules.NewRequest(intsToString(q.URL), src, t)
	if st != nil {
		if r.Hostname != host || r.SourceHostname != q.Src.String() {
			st.HostMismatch++
			r.Hostname = host
			r.SourceHostname = q.Src.String()
		}
		if r.ThirdParty != q.ThirdParty {
			st.ThirdFixed++
			r.ThirdParty = q.ThirdParty
		}
		if len(q.Src) > 0 && realPsl(q.Src.String()) != q.SrcPsl {
			st.PslMismatch++
		}
	}
	return r, nil
}

func (q *aReq) describe() string {
	if q.Hostreq {
		ip := ""
		if !q.Cip.Nil && q.Cip.Fam != 0 {
			ip = addrOf(q.Cip.Fam, q.Cip.Bytes).String()
		}
		return fmt.Sprintf("hostname=%s dnstype=%s tags=%v client=%q ip=%s", q.Host.String(), q.DNSType,
			codesToStrings(q.Tags), intsToString(q.Cname), ip)
	}
	return fmt.Sprintf("url=%s source=%s type=%s", intsToString(q.URL), q.Src.String(), q.Type)
}
