package main

// C07: evaluate the real IsHigherPriority on every ordered pair of the pool
// emitted by spec/MC_Priority.tla and write the observed relation as a trace
// for spec/Trace_Priority.tla.

import (
	"fmt"
	"math/rand"

	"github.com/AdguardTeam/urlfilter/rules"
)

type poolRec struct {
	Kind  string  `json:"kind"`
	Rules []aRule `json:"rules"`
}

type prioTrace struct {
	Rules []aRule  `json:"rules"`
	Texts []string `json:"texts"`
	Rows  [][]int  `json:"rows"`
}

// vh priority-matrix in=<pool.ndjson> out=<trace.ndjson>
func cmdPriorityMatrix(args []string) error {
	m := argMap(args)
	recs, err := readND[poolRec](m["in"])
	if err != nil {
		return err
	}
	var pool []aRule
	for _, r := range recs {
		if r.Kind == "POOL" {
			pool = r.Rules
		}
	}
	if len(pool) == 0 {
		return fmt.Errorf("no POOL record")
	}
	rnd := rand.New(rand.NewSource(seed()))
	n := len(pool)
	tr := prioTrace{Rules: pool, Rows: make([][]int, n)}
	rs := make([]*rules.NetworkRule, n)
	for i := range pool {
		t := pool[i].text(int(seed())%3, rnd)
		r, err := rules.NewNetworkRule(t, []int{1, 2, 3, -4}[i%4])
		if err != nil {
			return rejectedErr("pool rule %q rejected: %v", t, err)
		}
		if err = checkRendered(&pool[i], r); err != nil {
			return rejectedErr("the rule %q is parsed differently from what the specification says: %v", t, err)
		}
		rs[i] = r
		tr.Texts = append(tr.Texts, t)
	}
	higher := 0
	for i := range rs {
		tr.Rows[i] = make([]int, n)
		for j := range rs {
			if rs[i].IsHigherPriority(rs[j]) {
				tr.Rows[i][j] = 1
				higher++
			}
		}
	}
	out, err := newNDWriter(m["out"])
	if err != nil {
		return err
	}
	out.write(tr)
	out.close()
	summary(map[string]any{"rules": n, "pairs": n * n, "higher": higher, "samples": tr.Texts[:3]})
	return nil
}

// vh priority-pair a=<text> b=<text> [c=<text>]: re-evaluates the relation on fresh rules
func cmdPriorityPair(args []string) error {
	m := argMap(args)
	mk := func(k string) *rules.NetworkRule {
		if m[k] == "" {
			return nil
		}
		// the rule comes from the list it came from in the matrix run (la=, lb=, lc=; default 1)
		r, err := rules.NewNetworkRule(m[k], argInt(m, "l"+k, 1))
		if err != nil {
			panic(err)
		}
		return r
	}
	a, b, c := mk("a"), mk("b"), mk("c")
	res := map[string]any{"ab": a.IsHigherPriority(b), "ba": b.IsHigherPriority(a), "aa": a.IsHigherPriority(a)}
	if c != nil {
		res["bc"] = b.IsHigherPriority(c)
		res["cb"] = c.IsHigherPriority(b)
		res["ac"] = a.IsHigherPriority(c)
		res["ca"] = c.IsHigherPriority(a)
	}
	summary(res)
	return nil
}

func init() {
	register("priority-matrix", cmdPriorityMatrix)
	register("priority-pair", cmdPriorityPair)
}
