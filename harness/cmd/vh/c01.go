package main

// C01: network engine lookup versus linear scan.

import (
	"archive/zip"
	"encoding/json"
	"fmt"
	"io"
	"math/rand"
	"os"
	"path/filepath"
	"sort"
	"strings"
	"sync"

	"github.com/AdguardTeam/urlfilter"
	"github.com/AdguardTeam/urlfilter/filterlist"
	"github.com/AdguardTeam/urlfilter/filterutil"
	"github.com/AdguardTeam/urlfilter/rules"
)

// findCollisions returns pairs of distinct strings prefix+body+suffix with equal real djb2 hash, found by a
// birthday search over random bodies (djb2 is almost injective on short strings over small alphabets, so the
// body alphabet is lower-case letters, digits and a few URL / host characters).
func findCollisions(prefix, suffix string, bodyLen int, alphabet string, want int, rnd *rand.Rand) [][2]string {
	seen := make(map[uint32]string, 1<<22)
	var out [][2]string
	b := make([]byte, bodyLen)
	for n := 0; n < 6000000 && len(out) < want; n++ {
		for i := range b {
			b[i] = alphabet[rnd.Intn(len(alphabet))]
		}
		str := prefix + string(b) + suffix
		h := filterutil.FastHash(str)
		if o, ok := seen[h]; ok && o != str {
			out = append(out, [2]string{o, str})
			continue
		}
		seen[h] = str
	}
	return out
}

type niRule struct {
	Text string  `json:"text"`
	Sc   []int   `json:"sc"`
	Doms []aHost `json:"doms"`
}

type niQuery struct {
	URL    []int  `json:"url"`
	Src    aHost  `json:"src"`
	SrcPsl aPsl   `json:"srcPsl"`
	Raw    string `json:"raw"`
}

type niHash struct {
	W []int  `json:"w"`
	H string `json:"h"`
}

type niPool struct {
	Rules   []niRule  `json:"rules"`
	Queries []niQuery `json:"queries"`
	Hashes  []niHash  `json:"hashes"`
	Note    string    `json:"note"`
}

// vh netindex-pool out=<pool.ndjson>
func cmdNetIndexPool(args []string) error {
	m := argMap(args)
	rnd := rand.New(rand.NewSource(seed()))
	wc := findCollisions("", "", 5, "abcdefghijklmnopqrstuvwxyz0123456789-_.", 2, rnd)
	dc := findCollisions("", ".com", 9, "abcdefghijklmnopqrstuvwxyz0123456789", 1, rnd)
	// two different rule TEXTS with equal hash that both land in the sequential table (4-character shortcuts)
	tc := findCollisions("", "*", 4, "abcdefghijklmnopqrstuvwxyz0123456789-_.", 1, rnd)
	if len(wc) < 2 || len(dc) < 1 || len(tc) < 1 {
		return fmt.Errorf("no djb2 collisions found")
	}
	T1, T2 := strings.TrimSuffix(tc[0][0], "*"), strings.TrimSuffix(tc[0][1], "*")
	X, Y := wc[0][0], wc[0][1]
	X2, Y2 := wc[1][0], wc[1][1]
	D1, D2 := dc[0][0], dc[0][1]
	type spec struct{ pat, dom string }
	var specs []spec
	shortcuts := []string{X, Y, X + "q", "r" + Y, "zzzzzz", "zzzzz", X2 + Y2, "ab", "https:", "", T1, T2}
	DM := strings.ToUpper(D1[:2]) + D1[2:] // the same name in mixed case: domain values and hosts are compared as written
	doms := []string{"", D1, D2, "sub." + D1, strings.TrimSuffix(D1, ".com") + ".*", D1 + "|" + D2, "com", DM}
	for _, s := range shortcuts {
		for _, d := range doms {
			if s == "" && d == "" {
				continue
			}
			specs = append(specs, spec{s, d})
		}
	}
	pool := niPool{Note: fmt.Sprintf("colliding windows %s/%s and %s/%s, colliding domains %s/%s, colliding rule texts %s*/%s*", X, Y, X2, Y2, D1, D2, T1, T2)}
	hashes := map[string]bool{}
	addHash := func(s string) {
		if !hashes[s] {
			hashes[s] = true
			pool.Hashes = append(pool.Hashes, niHash{W: bytesToInts(s), H: fmt.Sprint(filterutil.FastHash(s))})
		}
	}
	for _, sp := range specs {
		text := sp.pat + "*"
		if sp.dom != "" {
			text += "$domain=" + sp.dom
		}
		r, err := rules.NewRule(text, 1)
		nr, ok := r.(*rules.NetworkRule)
		if err != nil || !ok {
			return fmt.Errorf("pool rule %q: %v", text, err)
		}
		ar := niRule{Text: text, Sc: bytesToInts(nr.Shortcut), Doms: []aHost{}}
		// renderer self-check: the shortcut and the permitted domains are what the pool intends
		wantSc := sp.pat
		if len(wantSc) < 2 {
			wantSc = ""
		}
		if nr.Shortcut != wantSc {
			return fmt.Errorf("pool rule %q has shortcut %q, intended %q", text, nr.Shortcut, wantSc)
		}
		for _, d := range nr.GetPermittedDomains() {
			ar.Doms = append(ar.Doms, hostFromString(d))
			addHash(d)
		}
		for i := 0; i+5 <= len(nr.Shortcut); i++ {
			addHash(nr.Shortcut[i : i+5])
		}
		pool.Rules = append(pool.Rules, ar)
	}
	base := strings.TrimSuffix(D1, ".com")
	srcs := []string{"", D1, D2, "sub." + D1, "x.sub." + D1, base + ".org", "not" + D1, "other.net", DM}
	var urls []string
	for _, s := range []string{X, Y, X + "q", "r" + Y, "zzzzzz", "zzzzz", X2 + Y2, "ab", T1, T2} {
		urls = append(urls, "http://h.test/"+s, "http://h.test/p"+s+"/t", "HTTP://H.TEST/"+strings.ToUpper(s), "http://h.test/"+s[:len(s)-1])
	}
	urls = append(urls, "http://h.test/", "https://h.test/"+Y2+X2, "http://h.test/zzzz")
	for _, u := range urls {
		for _, s := range srcs {
			src := ""
			if s != "" {
				src = "http://" + s + "/"
			}
			req := rules.NewRequest(u, src, rules.TypeScript)
			q := niQuery{URL: bytesToInts(req.URLLowerCase), Src: nzHost(hostFromString(req.SourceHostname)), SrcPsl: realPsl(req.SourceHostname), Raw: u + " <- " + src}
			pool.Queries = append(pool.Queries, q)
			for i := 0; i+5 <= len(req.URLLowerCase); i++ {
				addHash(req.URLLowerCase[i : i+5])
			}
			parts := strings.Split(req.SourceHostname, ".")
			for i := range parts {
				if req.SourceHostname != "" {
					addHash(strings.Join(parts[i:], "."))
				}
			}
		}
	}
	out, err := newNDWriter(m["out"])
	if err != nil {
		return err
	}
	out.write(pool)
	out.close()
	summary(map[string]any{"rules": len(pool.Rules), "queries": len(pool.Queries), "hashes": len(pool.Hashes), "note": pool.Note})
	return nil
}

type niCase struct {
	Kind string  `json:"kind"`
	Ins  []int   `json:"ins"`
	Exp  [][]int `json:"exp"`
}

func poolRequest(q *niQuery) *rules.Request {
	parts := strings.SplitN(q.Raw, " <- ", 2)
	return rules.NewRequest(parts[0], parts[1], rules.TypeScript)
}

// vh replay-netindex pool=<pool.ndjson> in=<cases.ndjson> out=<mismatches.ndjson>
func cmdReplayNetIndex(args []string) error {
	m := argMap(args)
	pools, err := readND[niPool](m["pool"])
	if err != nil || len(pools) != 1 {
		return fmt.Errorf("pool: %v", err)
	}
	pool := pools[0]
	recs, err := readND[niCase](m["in"])
	if err != nil {
		return err
	}
	out, err := newNDWriter(m["out"])
	if err != nil {
		return err
	}
	defer out.close()
	rnd := rand.New(rand.NewSource(seed()))
	reqs := make([]*rules.Request, len(pool.Queries))
	for i := range pool.Queries {
		reqs[i] = poolRequest(&pool.Queries[i])
	}
	textID := map[string]int{}
	for i, r := range pool.Rules {
		textID[r.Text] = i + 1
	}
	evals, mism, nontrivial := 0, 0, 0
	var samples []map[string]any
	for ci, c := range recs {
		if c.Kind != "CASE" || len(c.Ins) == 0 {
			continue
		}
		var texts []string
		for _, i := range c.Ins {
			texts = append(texts, pool.Rules[i-1].Text)
		}
		for _, nl := range []int{1, 1 + rnd.Intn(3)} {
			// contiguous split into lists keeps the insertion order the case states
			var lists [][]string
			if nl == 1 || len(texts) < 2 {
				lists = [][]string{texts}
			} else {
				cut := 1 + rnd.Intn(len(texts)-1)
				lists = [][]string{texts[:cut], texts[cut:]}
			}
			st, err := buildStorage(lists)
			if err != nil {
				return err
			}
			var eng *urlfilter.NetworkEngine
			if pv := safeCall(func() { eng = urlfilter.NewNetworkEngine(st) }); pv != "" {
				mism++
				out.write(map[string]any{"why": "panic building the engine: " + pv, "rules": texts, "case": c})
				continue
			}
			// the linear scan the property names: every network rule of the lists (parsed line by line), matched individually
			var all []*rules.NetworkRule
			for _, l := range lists {
				for _, t := range l {
					if r, err := rules.NewRule(t, 1); err == nil {
						if nr, ok := r.(*rules.NetworkRule); ok && nr != nil {
							all = append(all, nr)
						}
					}
				}
			}
			for k, q := range reqs {
				evals++
				var got []*rules.NetworkRule
				pv := safeCall(func() { got = eng.MatchAll(q) })
				gs := map[string]bool{}
				for _, r := range got {
					gs[r.RuleText] = true
				}
				ss := map[string]bool{}
				for _, r := range all {
					if r.Match(q) {
						ss[r.RuleText] = true
					}
				}
				es := map[string]bool{}
				for _, id := range c.Exp[k] {
					es[pool.Rules[id-1].Text] = true
				}
				if len(es) > 0 {
					nontrivial++
				}
				keys := func(s map[string]bool) string {
					var o []string
					for t := range s {
						o = append(o, t)
					}
					sort.Strings(o)
					return strings.Join(o, " | ")
				}
				if pv != "" || keys(gs) != keys(ss) || keys(gs) != keys(es) {
					mism++
					cause := "other"
					for t := range ss {
						if strings.Contains(t, ".*") && !gs[t] {
							cause = "wildcard-tld-domain-rule-lost"
						}
					}
					out.write(map[string]any{"why": "MatchAll differs", "rules": texts, "lists": lists, "query": pool.Queries[k].Raw,
						"engine": keys(gs), "linear_scan": keys(ss), "spec": keys(es), "panic": pv, "cause": cause, "case": c, "query_no": k + 1})
				}
			}
		}
		if len(samples) < 4 && len(c.Ins) >= 2 && ci%997 == 3 {
			samples = append(samples, map[string]any{"inserted": texts})
		}
	}
	summary(map[string]any{"cases": len(recs), "evaluations": evals, "mismatches": mism, "nontrivial": nontrivial, "samples": samples, "note": pool.Note})
	return nil
}

// ---- real-world lists: engine vs linear scan, events for Trace_NetIndex ----

type reqJSON struct {
	FrameURL string `json:"frameUrl"`
	URL      string `json:"url"`
	Cpt      string `json:"cpt"`
}

var cptTypes = map[string]rules.RequestType{"document": rules.TypeDocument, "script": rules.TypeScript, "stylesheet": rules.TypeStylesheet,
	"image": rules.TypeImage, "xmlhttprequest": rules.TypeXmlhttprequest, "media": rules.TypeMedia, "font": rules.TypeFont,
	"websocket": rules.TypeWebsocket, "other": rules.TypeOther, "subdocument": rules.TypeSubdocument, "object": rules.TypeObject, "ping": rules.TypePing}

func loadRequests(limit int, rnd *rand.Rand) ([]reqJSON, error) {
	var rd io.Reader
	if f, err := os.Open(repoDir() + "/testdata/requests.json"); err == nil {
		defer f.Close()
		rd = f
	} else {
		// the unpacked file is not tracked by git: read it from the archive that is
		zr, zerr := zip.OpenReader(repoDir() + "/testdata/requests.json.zip")
		if zerr != nil {
			return nil, zerr
		}
		defer zr.Close()
		for _, zf := range zr.File {
			if strings.HasSuffix(zf.Name, "requests.json") {
				rc, err := zf.Open()
				if err != nil {
					return nil, err
				}
				defer rc.Close()
				rd = rc
			}
		}
		if rd == nil {
			return nil, fmt.Errorf("requests.json not found in the archive")
		}
	}
	dec := json.NewDecoder(rd)
	var all []reqJSON
	for dec.More() {
		var r reqJSON
		if err := dec.Decode(&r); err != nil {
			break
		}
		all = append(all, r)
	}
	rnd.Shuffle(len(all), func(i, j int) { all[i], all[j] = all[j], all[i] })
	if limit < len(all) {
		all = all[:limit]
	}
	return all, nil
}

type niEvent struct {
	Query string   `json:"query"`
	Eng   []string `json:"eng"`
	Scan  []string `json:"scan"`
}

// vh drive-netindex n=<requests> rules=<max rules, 0 = all> out=<trace.ndjson>
// niRequest: the request of a logged browser request, or - URL "hostname:<name>" - the hostname request for a name
func niRequest(rq reqJSON, t rules.RequestType) *rules.Request {
	if h, ok := strings.CutPrefix(rq.URL, "hostname:"); ok {
		return rules.NewRequestForHostname(h)
	}
	return rules.NewRequest(rq.URL, rq.FrameURL, t)
}

func cmdDriveNetIndex(args []string) error {
	m := argMap(args)
	rnd := rand.New(rand.NewSource(seed()*53 + 9))
	out, err := newNDWriter(m["out"])
	if err != nil {
		return err
	}
	defer out.close()
	lines := listRuleLines(repoDir())
	limit := argInt(m, "rules", 0)
	var keep []string
	for _, l := range lines {
		r, err := rules.NewRule(l, 1)
		nr, ok := r.(*rules.NetworkRule)
		if err != nil || !ok {
			continue
		}
		// stratified sample: every regex rule, every $domain rule and every rule with a short shortcut stays
		special := nr.IsRegexRule() || len(nr.GetPermittedDomains()) > 0 || len(nr.Shortcut) < 5
		if limit == 0 || special && rnd.Intn(4) == 0 || rnd.Intn(len(lines)) < limit {
			keep = append(keep, l)
		}
	}
	// grammar-random rules around the request hosts make sure that something matches
	reqs, err := loadRequests(argInt(m, "n", 300), rnd)
	if err != nil {
		return err
	}
	for _, rq := range reqs[:min(len(reqs), 200)] {
		h := filterutil.ExtractHostname(rq.URL)
		if h == "" {
			continue
		}
		switch rnd.Intn(4) {
		case 0:
			keep = append(keep, "||"+h+"^")
		case 1:
			keep = append(keep, "||"+h+"^$domain="+filterutil.ExtractHostname(rq.FrameURL))
		case 2:
			keep = append(keep, "@@||"+h+"^$third-party")
		default:
			if len(h) > 6 {
				keep = append(keep, h[1:6]+"*$script,image")
			}
		}
	}
	// one rule line longer than the 4 KiB read buffer: hundreds of $domain values
	if len(reqs) > 0 {
		var ds []string
		for i := 0; i < 900; i++ {
			ds = append(ds, fmt.Sprintf("long%03d.example", i))
		}
		fh := filterutil.ExtractHostname(reqs[0].FrameURL)
		if fh != "" {
			ds = append(ds, fh)
		}
		keep = append(keep, "/*$domain="+strings.Join(ds, "|"))
	}
	// rules whose shortcut has multi-byte characters, and requests whose URL carries the same text: the 5-byte
	// windows of the index cut through characters on both sides
	alphabets := []string{"абвгдежзиклмнопрстуфхцчшщыэюя", "广告屏蔽过滤规则网络请求", "äöüßéèêçñ", "abcdefghij"}
	for i := 0; i < 24; i++ {
		word := ""
		for n := 5 + rnd.Intn(6); n > 0; n-- {
			a := []rune(alphabets[rnd.Intn(len(alphabets))])
			word += string(a[rnd.Intn(len(a))])
		}
		host := fmt.Sprintf("intl%02d.example", i)
		switch i % 3 {
		case 0:
			keep = append(keep, word+"-ad")
			reqs = append(reqs, reqJSON{URL: "http://" + host + "/x/" + word + "-ad/1.js", FrameURL: "http://" + host + "/", Cpt: "script"})
		case 1:
			keep = append(keep, "||"+host+"/"+word+"^")
			reqs = append(reqs, reqJSON{URL: "http://" + host + "/" + word + "/1.png", FrameURL: "http://" + host + "/", Cpt: "image"})
		default:
			keep = append(keep, "||"+word+".example^$third-party")
			reqs = append(reqs, reqJSON{URL: "http://" + word + ".example/1.png", FrameURL: "http://" + host + "/", Cpt: "image"})
		}
	}
	// $domain lists in which one name is a string suffix of another without being its parent domain (short patterns: such
	// rules are filed under their domains, not under a shortcut), asked from both names and from sub-domains
	for i, pair := range [][2]string{{"bay.example", "ebay.example"}, {"t.co", "pinterest.co"}, {"sub.shop.example", "shop.example"}, {"x.org", "x.org.evil.example"}} {
		keep = append(keep, fmt.Sprintf("/s%d^$domain=%s|%s", i, pair[0], pair[1]), fmt.Sprintf("@@/s%d^$domain=%s|%s,image", i, pair[1], pair[0]))
		for _, src := range []string{pair[0], pair[1], "www." + pair[1], "a.b." + pair[0], "not" + pair[0]} {
			reqs = append(reqs, reqJSON{URL: fmt.Sprintf("http://cdn.example/s%d/x.png", i), FrameURL: "http://" + src + "/page", Cpt: []string{"image", "script"}[i%2]})
		}
	}
	// letters that fold to ASCII under a case-insensitive regexp but not under strings.ToLower (LONG S, KELVIN SIGN):
	// the pattern accepts the URL, the lower-cased URL does not contain the shortcut - index and scan must agree
	keep = append(keep, "ads-k", "/ask^$domain=fold.example", "||fold.example/ask^")
	reqs = append(reqs, reqJSON{URL: "http://fold.example/ad\u017f-\u212a/1.png", FrameURL: "", Cpt: "image"},
		reqJSON{URL: "http://fold.example/a\u017fk", FrameURL: "http://fold.example/", Cpt: "script"},
		reqJSON{URL: "http://FOLD.example/ASK", FrameURL: "", Cpt: "script"})
	// rules whose only long literal sits in, or straddles, the fragment of the URL
	for i, rt := range []string{"*#/ads/banner", "/#!/sponsored^", "||frag%d.example/#/promo-banner", "#section-advert"} {
		host := fmt.Sprintf("frag%d.example", i)
		keep = append(keep, strings.ReplaceAll(rt, "frag%d", fmt.Sprintf("frag%d", i)))
		reqs = append(reqs, reqJSON{URL: "http://" + host + "/#/promo-banner", FrameURL: "http://" + host + "/", Cpt: "script"},
			reqJSON{URL: "http://" + host + "/page#/ads/banner-1", FrameURL: "", Cpt: "image"},
			reqJSON{URL: "http://" + host + "/#!/sponsored/x#section-advert", FrameURL: "http://" + host + "/", Cpt: "xmlhttprequest"})
	}
	// hostname requests - what a DNS engine asks of the same index: the text that is indexed and probed is "http://<name>",
	// made-up scheme included, so rules that spell out the scheme are filed under windows of it
	for i := 0; i < 8; i++ {
		host := fmt.Sprintf("dnsname%d.example", i)
		keep = append(keep, []string{"http://" + host + "^", "|http://" + host + "|", "://" + host + "^", "||" + host + "^$important"}[i%4])
		reqs = append(reqs, reqJSON{URL: "hostname:" + host}, reqJSON{URL: "hostname:sub." + host})
	}
	// two rules that differ in nothing but the letter case of a case-sensitive pattern are two rules (both too short for the
	// shortcut index, so they sit in the table that is scanned sequentially and refuses duplicates)
	keep = append(keep, "/Ad^$match-case,important", "/ad^$match-case,important", "/AD^$match-case")
	reqs = append(reqs, reqJSON{URL: "http://case.example/Ad", FrameURL: "", Cpt: "script"}, reqJSON{URL: "http://case.example/ad", FrameURL: "", Cpt: "script"},
		reqJSON{URL: "http://case.example/AD", FrameURL: "http://case.example/", Cpt: "image"})
	// a $domain list that mixes a plain name and a name under any public suffix (such a rule is not filed by domain at
	// all), asked from a page only the wildcard covers
	keep = append(keep, "/mx.$script,domain=mix.example|shop.*", "@@/mx.$image,domain=shop.*|other.example")
	for _, src := range []string{"www.shop.com", "shop.co.uk", "mix.example", "shop.example.evil.test"} {
		reqs = append(reqs, reqJSON{URL: "http://cdn.example/mx.js", FrameURL: "http://" + src + "/", Cpt: "script"},
			reqJSON{URL: "http://cdn.example/mx.png", FrameURL: "http://" + src + "/", Cpt: "image"})
	}
	// three lists: plain; with a byte order mark and a title line; with CRLF line ends.  Where a rule sits in its
	// list (and so its storage index) must not matter.
	third := len(keep) / 3
	// the last line of the first list (no line break after it) is needed by the very last request only
	keep = append(keep[:third-1], append([]string{"||last-line-of-list-one.example^"}, keep[third-1:]...)...)
	reqs = append(reqs, reqJSON{URL: "http://last-line-of-list-one.example/x.js", FrameURL: "http://other.example/", Cpt: "script"})
	// a fourth list: more than 16 MiB of comments in front of its rules - an offset inside a list is a 32-bit number
	bigRules := []string{"||beyond-16mib.example^", "/far-away-banner/$domain=beyond-16mib.example", "@@||beyond-16mib.example/ok^"}
	reqs = append(reqs, reqJSON{URL: "http://beyond-16mib.example/far-away-banner/1.png", FrameURL: "http://beyond-16mib.example/", Cpt: "image"},
		reqJSON{URL: "http://beyond-16mib.example/ok", FrameURL: "", Cpt: "script"})
	big := strings.Repeat("! "+strings.Repeat("padding ", 512)+"\n", 4200) + strings.Join(bigRules, "\n") + "\n"
	st, err := filterlist.NewRuleStorage([]filterlist.RuleList{
		&filterlist.StringRuleList{ID: 1, RulesText: strings.Join(keep[:third], "\n")},
		&filterlist.StringRuleList{ID: -2, RulesText: "\xef\xbb\xbf! Title: second list\n" + strings.Join(keep[third:2*third], "\n")},
		&filterlist.StringRuleList{ID: 3, RulesText: "! Title: third list\r\n" + strings.Join(keep[2*third:], "\r\n") + "\r\n"},
		&filterlist.StringRuleList{ID: 44, RulesText: big}})
	if err != nil {
		return err
	}
	keep = append(keep, bigRules...) // for the line-by-line reference
	eng := urlfilter.NewNetworkEngine(st)
	// the same three texts as files (the first one ends without a line break): a second engine whose answers are logged
	// as events of their own
	fdir, err := os.MkdirTemp("", "vh-netindex-")
	if err != nil {
		return err
	}
	defer os.RemoveAll(fdir)
	var flists []filterlist.RuleList
	for i, txt := range []string{strings.Join(keep[:third], "\n"), "\xef\xbb\xbf! Title: second list\n" + strings.Join(keep[third:2*third], "\n"),
		"! Title: third list\r\n" + strings.Join(keep[2*third:len(keep)-len(bigRules)], "\r\n") + "\r\n", big} {
		fp := filepath.Join(fdir, fmt.Sprintf("list%d.txt", i))
		if err = os.WriteFile(fp, []byte(txt), 0o600); err != nil {
			return err
		}
		fl, err := filterlist.NewFileRuleList([]int{1, -2, 3, 44}[i], fp, false)
		if err != nil {
			return err
		}
		flists = append(flists, fl)
	}
	fst, err := filterlist.NewRuleStorage(flists)
	if err != nil {
		return err
	}
	defer fst.Close()
	feng := urlfilter.NewNetworkEngine(fst)
	// the reference: the network rules of the lists, parsed line by line (not taken from the storage scanner)
	var all []*rules.NetworkRule
	for _, l := range keep {
		if r, err := rules.NewRule(l, 1); err == nil {
			if nr, ok := r.(*rules.NetworkRule); ok && nr != nil {
				all = append(all, nr)
			}
		}
	}
	nonempty := 0
	var seqAnswers []niEvent
	for _, rq := range reqs {
		t, ok := cptTypes[rq.Cpt]
		if !ok {
			t = rules.TypeOther
		}
		q := niRequest(rq, t)
		ev := niEvent{Query: rq.URL, Eng: []string{}, Scan: []string{}}
		pv := safeCall(func() {
			for _, r := range eng.MatchAll(q) {
				ev.Eng = append(ev.Eng, r.RuleText)
			}
		})
		if pv != "" {
			ev.Eng = append(ev.Eng, "PANIC "+pv)
		}
		for _, r := range all {
			if r.Match(q) {
				ev.Scan = append(ev.Scan, r.RuleText)
			}
		}
		if len(ev.Scan) > 0 {
			nonempty++
		}
		out.write(ev)
		seqAnswers = append(seqAnswers, ev)
		fev := niEvent{Query: rq.URL + " (file-backed lists)", Eng: []string{}, Scan: ev.Scan}
		if pv := safeCall(func() {
			for _, r := range feng.MatchAll(q) {
				fev.Eng = append(fev.Eng, r.RuleText)
			}
		}); pv != "" {
			fev.Eng = append(fev.Eng, "PANIC "+pv)
		}
		if strings.Join(fev.Eng, "\n") != strings.Join(ev.Eng, "\n") {
			out.write(fev) // equal answers are already judged by the event above
		}
	}
	// once more from 8 goroutines over a cold file-backed storage: an answer that differs from the sequential one is
	// logged for the specification to judge
	cst, err := filterlist.NewRuleStorage(func() []filterlist.RuleList {
		var ls []filterlist.RuleList
		for i := range flists {
			fl, err := filterlist.NewFileRuleList([]int{1, -2, 3, 44}[i], filepath.Join(fdir, fmt.Sprintf("list%d.txt", i)), false)
			if err != nil {
				panic(err)
			}
			ls = append(ls, fl)
		}
		return ls
	}())
	if err != nil {
		return err
	}
	defer cst.Close()
	ceng := urlfilter.NewNetworkEngine(cst)
	var cmu sync.Mutex
	concDiffer := 0
	concurrently(len(seqAnswers), 8, seed(), func(_, i int) {
		rq := reqs[i]
		t, ok := cptTypes[rq.Cpt]
		if !ok {
			t = rules.TypeOther
		}
		q := niRequest(rq, t)
		cev := niEvent{Query: rq.URL + " (8 goroutines, cold file-backed lists)", Eng: []string{}, Scan: seqAnswers[i].Scan}
		if pv := safeCall(func() {
			for _, r := range ceng.MatchAll(q) {
				cev.Eng = append(cev.Eng, r.RuleText)
			}
		}); pv != "" {
			cev.Eng = append(cev.Eng, "PANIC "+pv)
		}
		a, b := append([]string{}, cev.Eng...), append([]string{}, seqAnswers[i].Eng...)
		sort.Strings(a)
		sort.Strings(b)
		if strings.Join(a, "\n") != strings.Join(b, "\n") {
			cmu.Lock()
			if concDiffer++; concDiffer <= 100 {
				out.write(cev)
			}
			cmu.Unlock()
		}
	})
	summary(map[string]any{"events": out.n, "rules": len(all), "nonempty": nonempty, "concurrent_answers": 8 * len(seqAnswers), "concurrent_differing": concDiffer})
	return nil
}

func init() {
	register("netindex-pool", cmdNetIndexPool)
	register("replay-netindex", cmdReplayNetIndex)
	register("drive-netindex", cmdDriveNetIndex)
}
