package main

// C13 (history purity) and C19 (faults): seeded drivers that run long
// histories against long-lived engines and log every call for
// spec/Trace_History.tla and spec/Trace_Fault.tla.

import (
	"os/exec"
	"reflect"
	"time"

	"crypto/sha1"
	"fmt"
	"math/rand"
	"net/netip"
	"os"
	"path/filepath"
	"sort"
	"strings"
	"sync"
	"sync/atomic"

	"github.com/AdguardTeam/urlfilter"
	"github.com/AdguardTeam/urlfilter/filterlist"
	"github.com/AdguardTeam/urlfilter/rules"
	"github.com/miekg/dns"
)

// rwOnlyHost gets nothing but $dnsrewrite rules and exceptions in every list
const rwOnlyHost = "rw.only.test"

var histHosts = []string{"example.org", "sub.example.org", "ads.example.net", "tracker.test", "cdn.tracker.test", "static.site.com", "site.com", "other.io"}

func rndListLine(rnd *rand.Rand) string {
	h := histHosts[rnd.Intn(len(histHosts))]
	switch rnd.Intn(31) {
	case 30:
		// everything but one site; never applies to a hostname that is an IP address
		return "*$denyallow=" + h
	case 25:
		// no "||" and no scheme: matched against the hostname for DNS requests, against the URL for web requests
		return h + "|"
	case 26:
		return "|" + h + "^"
	case 27:
		return "." + h + "^"
	case 28:
		// an exception for one part of a site only: which referrer URL asks matters, not just its hostname
		return "@@||" + h + "/app/$urlblock"
	case 29:
		return "@@||" + h + "/app/*$document"
	case 22:
		return "||" + h + "/Ads/*$match-case"
	case 23:
		return "||" + h + "/Ads/*"
	case 24:
		return "/Ads/banner$match-case,script"
	case 0:
		return "||" + h + "^"
	case 1:
		return "@@||" + h + "^"
	case 2:
		return "||" + h + "^$important"
	case 3:
		return "||" + h + "^$client=phone"
	case 4:
		return "||" + h + "^$client=~10.0.0.0/8"
	case 5:
		return "||" + h + "^$ctag=t1|~t2"
	case 6:
		return "||" + h + "^$dnstype=AAAA"
	case 7:
		return "||" + h + "^$dnsrewrite=" + []string{"1.2.3.4", "NXDOMAIN", "c.test", "NOERROR;MX;10 mx.test"}[rnd.Intn(4)]
	case 8:
		return "@@||" + h + "^$dnsrewrite" + []string{"", "=1.2.3.4", "=c.test"}[rnd.Intn(3)]
	case 9:
		return []string{"0.0.0.0 ", "::1 ", "10.1.1.1 "}[rnd.Intn(3)] + h
	case 10:
		return h
	case 11:
		return "/(/"
	case 12:
		return "/" + strings.Split(h, ".")[0] + "\\.[a-z]+/"
	case 13:
		return "/ads?[0-9]+/$script"
	case 14:
		return "||" + h + "/ads/*$script,third-party"
	case 15:
		return "@@||" + h + "^$document"
	case 16:
		return "@@||" + h + "^$urlblock"
	case 17:
		return h + "##.banner" + fmt.Sprint(rnd.Intn(3))
	case 18:
		return h + "#@#.banner" + fmt.Sprint(rnd.Intn(3))
	case 19:
		return "##.generic" + fmt.Sprint(rnd.Intn(3))
	case 20:
		return "||" + h + "^$badfilter"
	default:
		return "*$domain=" + h + ",image"
	}
}

type histQuery struct {
	kind string // dns | web | net | cos
	host string
	dt   uint16
	cn   string
	cip  string
	tags []string
	url  string
	src  string
	typ  rules.RequestType
	opt  int
}

type histQueryJSON struct {
	Kind string   `json:"kind"`
	Host string   `json:"host"`
	Dt   uint16   `json:"dt"`
	Cn   string   `json:"cn"`
	Cip  string   `json:"cip"`
	Tags []string `json:"tags"`
	URL  string   `json:"url"`
	Src  string   `json:"src"`
	Typ  uint32   `json:"typ"`
	Opt  int      `json:"opt"`
}

func (q *histQuery) toJSON() histQueryJSON {
	return histQueryJSON{q.kind, q.host, q.dt, q.cn, q.cip, q.tags, q.url, q.src, uint32(q.typ), q.opt}
}

func (j histQueryJSON) query() *histQuery {
	return &histQuery{kind: j.Kind, host: j.Host, dt: j.Dt, cn: j.Cn, cip: j.Cip, tags: j.Tags, url: j.URL, src: j.Src, typ: rules.RequestType(j.Typ), opt: j.Opt}
}

type freshInput struct {
	Lines   []string        `json:"lines"`
	Seed    int64           `json:"seed"`
	Queries []histQueryJSON `json:"queries"`
	Dir     string          `json:"dir"`
}

// vh fresh-answers in=<input.json> out=<answers.ndjson>: a NEW PROCESS builds engines on the given lists and answers
// the queries in the order given; used by drive-history so that state kept anywhere in the process (not only in the
// engine) cannot make a "fresh" answer agree with a history-dependent one.
func cmdFreshAnswers(args []string) error {
	m := argMap(args)
	ins, err := readND[freshInput](m["in"])
	if err != nil || len(ins) != 1 {
		return fmt.Errorf("fresh-answers input: %v", err)
	}
	in := ins[0]
	out, err := newNDWriter(m["out"])
	if err != nil {
		return err
	}
	defer out.close()
	st, cleanup, err := makeHistStorage(rand.New(rand.NewSource(in.Seed)), in.Lines, in.Dir, false)
	if err != nil {
		return err
	}
	defer cleanup()
	eng := newHistEngines(st)
	for _, qj := range in.Queries {
		q := qj.query()
		a, _, _, _ := eng.run(q)
		out.write(map[string]string{"q": q.key(), "a": shortDigest(a)})
	}
	summary(map[string]any{"answers": out.n})
	return nil
}

func (q *histQuery) key() string {
	return fmt.Sprintf("%s|%s|%d|%s|%s|%v|%s|%s|%d|%d", q.kind, q.host, q.dt, q.cn, q.cip, q.tags, q.url, q.src, q.typ, q.opt)
}

func rndHistQuery(rnd *rand.Rand) *histQuery {
	h := histHosts[rnd.Intn(len(histHosts))]
	q := &histQuery{host: h}
	switch rnd.Intn(5) {
	case 4:
		// the convenience entry point: hostname only
		q.kind = "dnsmatch"
		if rnd.Intn(3) == 0 {
			q.host = rwOnlyHost
		}
	case 0, 1:
		q.kind = "dns"
		if rnd.Intn(6) == 0 {
			q.host = rwOnlyHost
		}
		q.dt = []uint16{dns.TypeA, dns.TypeAAAA, 0}[rnd.Intn(3)]
		q.cn = []string{"", "phone", "tv"}[rnd.Intn(3)]
		q.cip = []string{"", "10.0.0.5", "192.168.1.2"}[rnd.Intn(3)]
		q.tags = [][]string{nil, {"t1"}, {"t1", "t2"}, {"t3"}}[rnd.Intn(4)]
		if rnd.Intn(8) == 0 {
			// a hostname that is an address: what the engine learns about it must not stick to the next request
			q.host = []string{"1.2.3.4", "10.1.1.1", "::1"}[rnd.Intn(3)]
		}
		switch rnd.Intn(12) {
		case 0:
			// the same name in capitals is another request (the caller is meant to normalise; the engine must not do it
			// for one request and not for the next)
			q.host = strings.ToUpper(q.host)
		case 1:
			// a name that shares all but the first letter with a name of the lists: it meets only some of the places
			// under which a rule is filed
			q.host = q.host[1:]
		}
	case 2:
		q.kind = []string{"web", "net"}[rnd.Intn(2)]
		q.url = []string{"http://", "https://"}[rnd.Intn(2)] + h + []string{"/", "/ads/banner.js", "/ads12/x.png", "/index.html", "/Ads/banner.js", "/ADS/BANNER.JS",
			"/redirect?to=" + h + "&again=" + h, "", "/app/x.js"}[rnd.Intn(9)]
		if rnd.Intn(3) != 0 {
			q.src = "https://" + histHosts[rnd.Intn(len(histHosts))] + []string{"/", "/", "/app/", "/app/index.html", "/news/"}[rnd.Intn(5)]
		}
		q.typ = []rules.RequestType{rules.TypeDocument, rules.TypeScript, rules.TypeImage}[rnd.Intn(3)]
	default:
		q.kind = "cos"
		q.opt = rnd.Intn(8)
	}
	return q
}

type histEngines struct {
	dns *urlfilter.DNSEngine
	eng *urlfilter.Engine
	net *urlfilter.NetworkEngine
	// recycled: a request object that has been asked about before (see request)
	recycled *rules.Request
	recycle  bool
	reqN     int
}

// request builds the request of a web query.  Every other one is not a new object but the previous one with its
// exported fields set to those of the new request - the way the DNS engine recycles its pooled requests: a request is
// its fields, whatever the object was used for before.
func (e *histEngines) request(q *histQuery) *rules.Request {
	fresh := rules.NewRequest(q.url, q.src, q.typ)
	if !e.recycle {
		return fresh // (only sequential drivers recycle: an object in use by another goroutine must not be refilled)
	}
	e.reqN++
	if e.reqN%2 == 1 || e.recycled == nil {
		e.recycled = fresh
		return fresh
	}
	old := e.recycled
	e.recycled = nil
	dst, src := reflect.ValueOf(old).Elem(), reflect.ValueOf(fresh).Elem()
	for i := 0; i < dst.NumField(); i++ {
		if dst.Type().Field(i).IsExported() {
			dst.Field(i).Set(src.Field(i))
		}
	}
	return old
}

func newHistEngines(st *filterlist.RuleStorage) *histEngines {
	return &histEngines{dns: urlfilter.NewDNSEngine(st), eng: urlfilter.NewEngine(st), net: urlfilter.NewNetworkEngine(st)}
}

type histResult struct {
	dns *urlfilter.DNSResult
	mr  *rules.MatchingResult
	ok  bool
}

func ruleText(r *rules.NetworkRule) string {
	if r == nil {
		return "-"
	}
	return r.RuleText
}

func sortedTexts(rs []*rules.NetworkRule) string {
	t := textsOf(rs)
	sort.Strings(t)
	return strings.Join(t, ",")
}

// sortedTextsWithList: each rule with the id of the list it came from
func sortedTextsWithList(rs []*rules.NetworkRule) string {
	var t []string
	for _, r := range rs {
		t = append(t, fmt.Sprintf("%s@%d", r.RuleText, r.GetFilterListID()))
	}
	sort.Strings(t)
	return strings.Join(t, ",")
}

func hostTextsSorted(hs []*rules.HostRule) string {
	var o []string
	for _, r := range hs {
		o = append(o, r.RuleText)
	}
	sort.Strings(o)
	return strings.Join(o, ",")
}

func digestResult(q *histQuery, r *histResult) string {
	switch {
	case r.dns != nil:
		return fmt.Sprintf("dns{net:[%s] rule:%s v4:[%s] v6:[%s] matched:%v}", sortedTextsWithList(r.dns.NetworkRules), ruleText(r.dns.NetworkRule),
			hostTextsSorted(r.dns.HostRulesV4), hostTextsSorted(r.dns.HostRulesV6), r.ok)
	case r.mr != nil:
		return fmt.Sprintf("web{basic:%s doc:%s stealth:%s}", ruleText(r.mr.BasicRule), ruleText(r.mr.DocumentRule), ruleText(r.mr.StealthRule))
	}
	return "nil"
}

// run executes q and returns the answer digest, the result object (if any) and the set of rule texts returned.
func (e *histEngines) run(q *histQuery) (digest string, res *histResult, texts []string, pv string) {
	digest, res, texts, _, pv = e.run2(q)
	return
}

// run2 also returns the matching network rules among the returned ones (NetworkRules / MatchAll).
func (e *histEngines) run2(q *histQuery) (digest string, res *histResult, texts, netTexts []string, pv string) {
	pv = safeCall(func() {
		switch q.kind {
		case "dnsmatch":
			r, ok := e.dns.Match(q.host)
			res = &histResult{dns: r, ok: ok}
			digest = digestResult(q, res)
			texts = textsOf(r.NetworkRules)
			netTexts = textsOf(r.NetworkRules)
			for _, h := range append(append([]*rules.HostRule{}, r.HostRulesV4...), r.HostRulesV6...) {
				texts = append(texts, h.RuleText)
			}
			texts = flagWithoutRule(texts, r, ok)
		case "dns":
			dq := &urlfilter.DNSRequest{Hostname: q.host, DNSType: q.dt, ClientName: q.cn, SortedClientTags: q.tags}
			if q.cip != "" {
				dq.ClientIP = netip.MustParseAddr(q.cip)
			}
			r, ok := e.dns.MatchRequest(dq)
			res = &histResult{dns: r, ok: ok}
			digest = digestResult(q, res)
			texts = textsOf(r.NetworkRules)
			netTexts = textsOf(r.NetworkRules)
			for _, h := range append(append([]*rules.HostRule{}, r.HostRulesV4...), r.HostRulesV6...) {
				texts = append(texts, h.RuleText)
			}
			texts = flagWithoutRule(texts, r, ok)
		case "web":
			mr := e.eng.MatchRequest(e.request(q))
			res = &histResult{mr: mr}
			digest = digestResult(q, res)
			for _, r := range []*rules.NetworkRule{mr.BasicRule, mr.DocumentRule, mr.StealthRule} {
				if r != nil {
					texts = append(texts, r.RuleText)
				}
			}
		case "net":
			rs := e.net.MatchAll(e.request(q))
			digest = "net[" + sortedTextsWithList(rs) + "]"
			texts = textsOf(rs)
			netTexts = textsOf(rs)
		case "cos":
			var o rules.CosmeticOption
			if q.opt&1 != 0 {
				o |= rules.CosmeticOptionCSS
			}
			if q.opt&2 != 0 {
				o |= rules.CosmeticOptionGenericCSS
			}
			if q.opt&4 != 0 {
				o |= rules.CosmeticOptionJS
			}
			cr := e.eng.GetCosmeticResult(q.host, o)
			digest = "cos{g:[" + setStr(cr.ElementHiding.Generic) + "] s:[" + setStr(cr.ElementHiding.Specific) + "]}"
			texts = append(append([]string{}, cr.ElementHiding.Generic...), cr.ElementHiding.Specific...)
		}
	})
	if pv != "" {
		digest = "PANIC " + pv
	}
	return
}

// flagWithoutRule: "matched is true if the result has a basic network rule or some host rules"
// (dnsengine.go).  A flag nothing backs is an answer no rule gives: it shows up as a rule text of its own.
func flagWithoutRule(texts []string, r *urlfilter.DNSResult, matched bool) []string {
	if matched && r.NetworkRule == nil && len(r.HostRulesV4) == 0 && len(r.HostRulesV6) == 0 {
		return append(texts, "<matched, and no rule in the result>")
	}
	return texts
}

func derive(r *histResult, kind string) string {
	var out string
	pv := safeCall(func() {
		switch {
		case r.dns != nil && kind == "rewrites":
			out = "[" + strings.Join(textsOf(r.dns.DNSRewrites()), ",") + "]"
		case r.dns != nil:
			out = "[" + sortedTexts(r.dns.DNSRewritesAll()) + "]"
		case kind == "rewrites":
			out = ruleText(r.mr.GetBasicResult())
		default:
			out = fmt.Sprint(r.mr.GetCosmeticOption())
		}
	})
	if pv != "" {
		return "PANIC " + pv
	}
	return out
}

func shortDigest(s string) string {
	if len(s) < 200 {
		return s
	}
	return fmt.Sprintf("%x:%s", sha1.Sum([]byte(s)), s[:120])
}

var lastFileLists []*filterlist.FileRuleList

// wrapHistList, when set, wraps every list makeHistStorage builds (drive-fault: a list whose retrievals fail for a while)
var wrapHistList func(filterlist.RuleList) filterlist.RuleList

// flakyList fails every retrieval while *failing is set; scanning is never affected.
type flakyList struct {
	filterlist.RuleList
	failing *atomic.Bool
}

func (f *flakyList) RetrieveRule(idx int) (rules.Rule, error) {
	if f.failing.Load() {
		return nil, fmt.Errorf("transient read error")
	}
	return f.RuleList.RetrieveRule(idx)
}

func makeHistStorage(rnd *rand.Rand, lines []string, dir string, forceFile bool) (*filterlist.RuleStorage, func(), error) {
	lastFileLists = nil
	cut := rnd.Intn(len(lines) + 1)
	parts := [][]string{lines[:cut], lines[cut:]}
	var ls []filterlist.RuleList
	var files []string
	// list ids 0 and 1, or 1 and 2: 0 is an id like any other
	idBase := rnd.Intn(2)
	for i, p := range parts {
		text := strings.Join(p, "\n")
		if rnd.Intn(2) == 0 {
			text += "\n" // every other list ends without a line break
		}
		if forceFile || rnd.Intn(2) == 0 {
			fn := filepath.Join(dir, fmt.Sprintf("hist-%d-%d-%d.txt", os.Getpid(), rnd.Int63(), i))
			if err := os.WriteFile(fn, []byte(text), 0o600); err != nil {
				return nil, nil, err
			}
			files = append(files, fn)
			fl, err := filterlist.NewFileRuleList(i+idBase, fn, false)
			if err != nil {
				return nil, nil, err
			}
			ls = append(ls, fl)
			lastFileLists = append(lastFileLists, fl)
		} else {
			ls = append(ls, &filterlist.StringRuleList{ID: i + idBase, RulesText: text})
		}
	}
	if wrapHistList != nil {
		for i := range ls {
			ls[i] = wrapHistList(ls[i])
		}
	}
	st, err := filterlist.NewRuleStorage(ls)
	return st, func() {
		if st != nil {
			_ = st.Close()
		}
		for _, f := range files {
			os.Remove(f)
		}
	}, err
}

// vh drive-history histories=<n> len=<queries per history> out=<trace.ndjson> dir=<tmpdir>
func cmdDriveHistory(args []string) error {
	m := argMap(args)
	out, err := newNDWriter(m["out"])
	if err != nil {
		return err
	}
	defer out.close()
	rnd := rand.New(rand.NewSource(seed()*7 + 2))
	nh, hl := argInt(m, "histories", 10), argInt(m, "len", 200)
	only := argInt(m, "only", -1)
	queries, distinct, nonEmpty := 0, 0, 0
	var samples []string
	for hnum := 0; hnum < nh; hnum++ {
		hr := rand.New(rand.NewSource(rnd.Int63()))
		if only >= 0 && hnum != only {
			continue
		}
		var lines []string
		for i := 0; i < 15+hr.Intn(40); i++ {
			lines = append(lines, rndListLine(hr))
		}
		for _, v := range []string{"=1.2.3.4", "=2.3.4.5", "=c.test"} {
			lines = append(lines, "||"+rwOnlyHost+"^$dnsrewrite"+v)
			if hr.Intn(2) == 0 {
				lines = append(lines, "@@||"+rwOnlyHost+"^$dnsrewrite"+v)
			}
		}
		// rules that tie in priority and are filed under their $domain (no usable shortcut): which of them is reported
		// first must not change from call to call
		lines = append(lines, "*$domain=example.org,image", "*$domain=sub.example.org,image", "/q$domain=example.org|sub.example.org,image",
			"*$domain=sub.example.org|example.org,image")
		hr.Shuffle(len(lines), func(i, j int) { lines[i], lines[j] = lines[j], lines[i] })
		// the same line in two lists (subscriptions overlap): each copy is a rule of its own list
		dup := "||" + histHosts[hr.Intn(len(histHosts))] + "^"
		lines = append(append([]string{dup}, lines...), lines[0], lines[1], dup)
		// two rules with one pattern, case-sensitive for images and not for scripts: the first requests of every history
		// reach the pattern of the one, then of the other (what the first leaves behind must not serve the second)
		lines = append(lines, "/Promo/banner$match-case,image", "/Promo/banner$script")
		// every 3rd history: the lists of the long-lived engines have a spell of failing retrievals (queries asked during
		// the spell are not part of the history: an I/O error is the environment's doing); afterwards every answer has to
		// be the fresh engine's again
		failing := &atomic.Bool{}
		if hnum%3 == 1 {
			wrapHistList = func(l filterlist.RuleList) filterlist.RuleList { return &flakyList{RuleList: l, failing: failing} }
		}
		// (the fresh engines are built over exactly these lists - the same split, the same ids, the same backing: an
		// answer names the list each rule came from)
		seedFresh := hr.Int63()
		st, cleanup, err := makeHistStorage(rand.New(rand.NewSource(seedFresh)), lines, m["dir"], false)
		wrapHistList = nil
		if err != nil {
			return err
		}
		out.write(map[string]any{"ev": "reset", "q": "", "a": "", "rid": 0, "k": "", "h": hnum})
		eng := newHistEngines(st)
		eng.recycle = true
		var pool []*histQuery
		for i := 0; i < 12; i++ {
			pool = append(pool, rndHistQuery(hr))
		}
		type kept struct {
			rid int
			r   *histResult
			a   string
		}
		var results []kept
		fresh := map[string]bool{}
		var asked []*histQuery
		askedSet := map[string]bool{}
		// the first queries walk the hosts of the list lines in file order, on the cold cache
		var inOrder []*histQuery
		for _, ln := range lines {
			for _, h := range histHosts {
				if strings.Contains(ln, h) && !strings.Contains(ln, "."+h) {
					inOrder = append(inOrder, &histQuery{kind: "dnsmatch", host: h})
					break
				}
			}
		}
		if hnum%2 == 1 {
			// every other history starts with names that share all but their first letter with the names of the lists:
			// they match nothing, and meet only some of the places under which the rules are filed
			var near []*histQuery
			for _, h := range histHosts {
				near = append(near, &histQuery{kind: "dnsmatch", host: h[1:]})
			}
			inOrder = append(near, inOrder...)
		}
		inOrder = append([]*histQuery{
			// (the fresh process asks in the reverse order: there the image requests come first)
			{kind: "net", host: "static.site.com", url: "https://static.site.com/promo/BANNER.js", src: "https://site.com/", typ: rules.TypeScript},
			{kind: "net", host: "static.site.com", url: "https://static.site.com/Promo/banner.png", src: "https://site.com/", typ: rules.TypeImage},
			{kind: "net", host: "static.site.com", url: "https://static.site.com/promo/banner.png", src: "https://site.com/", typ: rules.TypeImage},
		}, inOrder...)
		pool[0] = &histQuery{kind: "web", host: "tracker.test", url: "http://tracker.test/q/banner.png", src: "https://sub.example.org/", typ: rules.TypeImage}
		pool[1] = &histQuery{kind: "net", host: "tracker.test", url: "http://tracker.test/q/banner.png", src: "https://sub.example.org/news/", typ: rules.TypeImage}
		for i := 0; i < hl; i++ {
			if hnum%3 == 1 && i == hl/5 {
				failing.Store(true)
				for k := 0; k < len(histHosts); k++ {
					_, _, _, _ = eng.run(&histQuery{kind: "dnsmatch", host: histHosts[k]})
					_, _, _, _ = eng.run(&histQuery{kind: "net", host: histHosts[k], url: "https://" + histHosts[k] + "/ads/banner.js", typ: rules.TypeScript})
				}
				_, _, _, _ = eng.run(pool[0])
				failing.Store(false)
			}
			var q *histQuery
			if i < len(inOrder) && i < hl/4 {
				q = inOrder[i]
			} else if hr.Intn(3) == 0 {
				q = rndHistQuery(hr)
			} else {
				q = pool[hr.Intn(len(pool))]
			}
			a, res, texts, _ := eng.run(q)
			queries++
			if len(texts) > 0 {
				nonEmpty++
			}
			rid := i + 1
			out.write(map[string]any{"ev": "query", "q": q.key(), "a": shortDigest(a), "rid": rid, "k": "", "h": hnum})
			if len(samples) < 4 && len(texts) > 0 && queries%97 == 5 {
				samples = append(samples, q.key()+" -> "+shortDigest(a))
			}
			if res != nil {
				results = append(results, kept{rid, res, a})
			}
			if !fresh[q.key()] {
				fresh[q.key()] = true
				distinct++
				// the same query on a fresh engine over the same lists
				st2, cleanup2, err := makeHistStorage(rand.New(rand.NewSource(seedFresh)), lines, m["dir"], false)
				if err != nil {
					return err
				}
				fa, _, _, _ := newHistEngines(st2).run(q)
				cleanup2()
				out.write(map[string]any{"ev": "fresh", "q": q.key(), "a": shortDigest(fa), "rid": 0, "k": "", "h": hnum})
			}
			// derived results on an old result, and a re-check that old results did not change
			if len(results) > 0 && hr.Intn(2) == 0 {
				k := results[hr.Intn(len(results))]
				kind := []string{"rewrites", "other"}[hr.Intn(2)]
				out.write(map[string]any{"ev": "derive", "q": "", "a": shortDigest(derive(k.r, kind)), "rid": k.rid, "k": kind, "h": hnum})
				// evaluating a derived result must not have changed the result it was derived from ...
				out.write(map[string]any{"ev": "recheck", "q": "", "a": shortDigest(digestResult(nil, k.r)), "rid": k.rid, "k": "", "h": hnum})
				// ... nor any other earlier result
				k2 := results[hr.Intn(len(results))]
				out.write(map[string]any{"ev": "recheck", "q": "", "a": shortDigest(digestResult(nil, k2.r)), "rid": k2.rid, "k": "", "h": hnum})
			}
			if len(results) > 50 {
				results = results[25:]
			}
			if !askedSet[q.key()] {
				askedSet[q.key()] = true
				asked = append(asked, q)
			}
		}
		// every distinct query once more on the SAME engines, from 4 goroutines at a time: what one request brought along
		// must not show up in the answer to another one; answers that differ from the history's are logged
		{
			seqAnswer := map[string]string{}
			for _, q := range asked {
				a, _, _, _ := eng.run(q)
				seqAnswer[q.key()] = shortDigest(a)
			}
			var cmu sync.Mutex
			differing := 0
			eng.recycle = false
			concurrently(len(asked), 4, seedFresh, func(_, i int) {
				a, _, _, _ := eng.run(asked[i])
				if d := shortDigest(a); d != seqAnswer[asked[i].key()] {
					cmu.Lock()
					if differing++; differing <= 20 {
						out.write(map[string]any{"ev": "fresh", "q": asked[i].key(), "a": d, "rid": 0, "k": "concurrent", "h": hnum})
					}
					cmu.Unlock()
				}
			})
		}
		cleanup()
		// every distinct query once more in a NEW PROCESS, in the reverse order of first appearance
		fin := freshInput{Lines: lines, Seed: seedFresh, Dir: m["dir"]}
		for i := len(asked) - 1; i >= 0; i-- {
			fin.Queries = append(fin.Queries, asked[i].toJSON())
		}
		inPath := filepath.Join(m["dir"], fmt.Sprintf("fresh-%d-%d.json", os.Getpid(), hnum))
		outPath := inPath + ".out"
		w, err := newNDWriter(inPath)
		if err != nil {
			return err
		}
		w.write(fin)
		w.close()
		exe, _ := os.Executable()
		cmd := exec.Command(exe, "fresh-answers", "in="+inPath, "out="+outPath)
		cmd.Env = os.Environ()
		if o, err := cmd.CombinedOutput(); err != nil {
			return fmt.Errorf("fresh process: %v: %s", err, o)
		}
		fa, err := readND[map[string]string](outPath)
		if err != nil {
			return err
		}
		for _, x := range fa {
			out.write(map[string]any{"ev": "fresh", "q": x["q"], "a": x["a"], "rid": 0, "k": "process", "h": hnum})
		}
		os.Remove(inPath)
		os.Remove(outPath)
	}
	summary(map[string]any{"events": out.n, "queries": queries, "distinct_queries": distinct, "non_empty": nonEmpty, "samples": samples})
	return nil
}

// trulyMatching is the oracle the property names: the rules of the lists that individually match the request.
func trulyMatching(parsed []rules.Rule, q *histQuery) (out []string) {
	var req *rules.Request
	if q.kind == "dns" || q.kind == "dnsmatch" {
		req = rules.NewRequestForHostname(q.host)
		req.DNSType, req.ClientName, req.SortedClientTags = q.dt, q.cn, q.tags
		if q.cip != "" {
			req.ClientIP = netip.MustParseAddr(q.cip)
		}
	} else {
		req = rules.NewRequest(q.url, q.src, q.typ)
	}
	for _, r := range parsed {
		switch x := r.(type) {
		case *rules.NetworkRule:
			if x.Match(req) {
				out = append(out, x.RuleText)
			}
		case *rules.HostRule:
			if (q.kind == "dns" || q.kind == "dnsmatch") && x.Match(q.host) {
				out = append(out, x.RuleText)
			}
		}
	}
	return out
}

// vh drive-fault histories=<n> len=<queries> out=<trace.ndjson> dir=<tmpdir>
func cmdDriveFault(args []string) error {
	m := argMap(args)
	out, err := newNDWriter(m["out"])
	if err != nil {
		return err
	}
	defer out.close()
	rnd := rand.New(rand.NewSource(seed()*11 + 4))
	nh, hl := argInt(m, "histories", 20), argInt(m, "len", 60)
	only := argInt(m, "only", -1)
	// a query on a faulted engine that does not come back is as bad as a crash: every query runs under a watchdog
	watched := func(e *histEngines, q *histQuery) (g, gn []string, pv string, hung bool) {
		type ans struct {
			g, gn []string
			pv    string
		}
		done := make(chan ans, 1)
		go func() {
			_, _, g, gn, p := e.run2(q)
			done <- ans{g, gn, p}
		}()
		select {
		case a := <-done:
			return a.g, a.gn, a.pv, false
		case <-time.After(8 * time.Second):
			return nil, nil, "the query did not return within 8 s (deadlock)", true
		}
	}
	queries, afterFault, served, gatedRuns := 0, 0, 0, 0
	var samples []string
	for hnum := 0; hnum < nh; hnum++ {
		hr := rand.New(rand.NewSource(rnd.Int63()))
		if only >= 0 && hnum != only {
			continue
		}
		var lines []string
		if hnum%5 == 4 {
			// a slice of the bundled real-world lists
			all := listRuleLines(repoDir())
			start := hr.Intn(len(all) - 3000)
			lines = append(lines, all[start:start+3000]...)
		}
		for i := 0; i < 15+hr.Intn(40); i++ {
			lines = append(lines, rndListLine(hr))
		}
		bulk := hnum%8 == 6
		if bulk {
			// more rules than any bounded cache would hold: every one is materialised before the fault and asked for again after it
			for i := 0; i < 5000; i++ {
				lines = append(lines, fmt.Sprintf("0.0.0.0 bulk%04d.example", i))
			}
		}
		// every 4th history: one query is in flight across the fault (see below); its rules are asked for nowhere else
		gated := (hnum%4 == 1 || hnum%4 == 3) && !bulk
		// hnum%4 == 3: the in-flight query is held between the Seek and the Read of its file retrieval instead (it holds
		// the list's lock there, so no second query is asked meanwhile): the read then fails on a closed file
		parkAt := "cache-miss"
		if hnum%4 == 3 {
			parkAt = "file-read"
		}
		gatedHost := fmt.Sprintf("gated%d.example", hnum)
		if gated {
			lines = append(lines, "||"+gatedHost+"^", "0.0.0.0 "+gatedHost)
		}
		// every 8th history: two rules share a $domain bucket and only the second one is materialised before the fault (a
		// request from the page only that rule names); after the fault a request from the other page finds the
		// unreadable rule first in the bucket - the materialised one behind it must still be served
		bucket := hnum%8 == 0 && !bulk && !gated
		if bucket {
			lines = append(lines, "/ab$domain=bkt-b.test", "/cd$domain=bkt-a.test|bkt-b.test")
		}
		bucketQ := func(page string) *histQuery {
			return &histQuery{kind: "net", host: "static.site.com", url: "https://static.site.com/ab/cd", src: "https://" + page + "/", typ: rules.TypeScript}
		}
		// every history: a name with three hosts entries that nobody asks for before the fault; the first query for it comes
		// right after the fault, when none of the three can be read any more
		pairHost := fmt.Sprintf("threehosts%d.example", hnum)
		lines = append(lines, "0.0.0.0 "+pairHost, "::1 "+pairHost, "10.1.1.1 "+pairHost+" alias."+pairHost)
		// every 8th history: the first queries after the fault are asked while a writer holds the cache's lock (as a query
		// that is inserting a rule it has just parsed does): a reader waits for the writer, it does not go past the cache
		lockHeld := hnum%8 == 4 && !bulk && !gated
		ls := hr.Int63()
		// every 8th history: the fault is transient - retrievals fail for a while and then work again; nothing that
		// happened in between may stick
		transient := hnum%8 == 2 && !gated
		failing := &atomic.Bool{}
		if transient {
			wrapHistList = func(l filterlist.RuleList) filterlist.RuleList { return &flakyList{RuleList: l, failing: failing} }
		}
		st, cleanup, err := makeHistStorage(rand.New(rand.NewSource(ls)), lines, m["dir"], true)
		wrapHistList = nil
		if err != nil {
			return err
		}
		faultLists := lastFileLists
		var orphans []*os.File
		twinSt, cleanupTwin, err := makeHistStorage(rand.New(rand.NewSource(ls)), lines, m["dir"], true)
		if err != nil {
			return err
		}
		out.write(map[string]any{"ev": "reset", "q": "", "got": []string{}, "gotnet": []string{}, "twin": []string{}, "twinnet": []string{}, "ref": []string{}, "kind": "", "h": hnum})
		eng, twin := newHistEngines(st), newHistEngines(twinSt)
		var parsed []rules.Rule
		for _, ln := range lines {
			if r, err := rules.NewRule(ln, 1); err == nil && r != nil {
				parsed = append(parsed, r)
			}
		}
		var pool []*histQuery
		for i := 0; i < 10; i++ {
			pool = append(pool, rndHistQuery(hr))
		}
		faultAt := hr.Intn(hl + 1)
		kind := []string{"close", "closed-fd"}[hr.Intn(2)]
		total := hl
		if bulk {
			faultAt, total = 5000, 10000
		}
		if gated {
			kind = "close"
		}
		if bucket {
			kind, faultAt = "close", 1+hr.Intn(hl-1)
		}
		if lockHeld {
			kind, faultAt = "close", hl/2+hr.Intn(hl/4) // late enough for the pool's queries to have been asked before
		}
		recoverAt := -1
		if transient {
			kind = "transient"
			faultAt = hr.Intn(hl/2 + 1)
			recoverAt = faultAt + 3 + hr.Intn(12)
		}
		hung := false
		for i := 0; i < total && !hung; i++ {
			if i == faultAt && gated {
				// query A misses the cache and is held right there (yield point "cache-miss"); query B, the same request,
				// runs to completion and materialises the rules; then the fault; then A resumes and fails to read.  What B
				// materialised must survive A's failure: the next query (logged after the fault event) still gets it.
				q0 := &histQuery{kind: "dnsmatch", host: gatedHost}
				var armed int32 = 1
				parked, release, finished := make(chan struct{}), make(chan struct{}), make(chan string, 1)
				setYield(func(p string) {
					if p == parkAt && atomic.CompareAndSwapInt32(&armed, 1, 0) {
						close(parked)
						<-release
					}
				})
				go func() {
					_, _, _, _, p := eng.run2(q0)
					finished <- p
				}()
				select {
				case <-parked:
				case <-time.After(5 * time.Second):
					atomic.StoreInt32(&armed, 0)
				}
				var g, gn []string
				var p string
				_, _, tw, twn, _ := twin.run2(q0)
				if parkAt == "cache-miss" {
					g, gn, p, hung = watched(eng, q0)
					if p != "" {
						g = []string{"PANIC"}
					}
					out.write(map[string]any{"ev": "query", "q": q0.key(), "got": nz(g), "gotnet": nz(gn), "twin": nz(tw), "twinnet": nz(twn),
						"ref": nz(trulyMatching(parsed, q0)), "kind": p, "h": hnum})
					if hung {
						close(release)
						setYield(nil)
						break
					}
				}
				// (an implementation whose Close waits for the list's lock cannot finish while the in-flight query is held
				// inside that lock: Close runs on the side, and if it has not returned after a second the query is let go
				// first - then the read simply succeeds, which is fine too)
				closed := make(chan struct{})
				go func() {
					_ = st.Close()
					close(closed)
				}()
				select {
				case <-closed:
				case <-time.After(time.Second):
				}
				out.write(map[string]any{"ev": "fault", "q": "", "got": []string{}, "gotnet": []string{}, "twin": []string{}, "twinnet": []string{}, "ref": []string{}, "kind": "close with a query in flight", "h": hnum})
				close(release)
				select {
				case <-closed:
				case <-time.After(8 * time.Second):
					hung = true
				}
				select {
				case p = <-finished:
				case <-time.After(8 * time.Second):
					p, hung = "the in-flight query did not return within 8 s", true
				}
				setYield(nil)
				if p != "" {
					out.write(map[string]any{"ev": "query", "q": q0.key(), "got": []string{"PANIC"}, "gotnet": []string{}, "twin": nz(tw), "twinnet": nz(twn),
						"ref": nz(trulyMatching(parsed, q0)), "kind": p, "h": hnum})
				}
				if hung {
					break // the stuck query may hold a lock of the list: nothing more can be asked of this engine
				}
				g, gn, p, hung = watched(eng, q0)
				if p != "" {
					g = []string{"PANIC"}
				}
				out.write(map[string]any{"ev": "query", "q": q0.key(), "got": nz(g), "gotnet": nz(gn), "twin": nz(tw), "twinnet": nz(twn),
					"ref": nz(trulyMatching(parsed, q0)), "kind": p, "h": hnum})
				gatedRuns++
				if hung {
					break
				}
			} else if i == faultAt && transient {
				failing.Store(true)
				out.write(map[string]any{"ev": "fault", "q": "", "got": []string{}, "gotnet": []string{}, "twin": []string{}, "twinnet": []string{}, "ref": []string{}, "kind": "transient", "h": hnum})
			} else if i == faultAt {
				pv := safeCall(func() {
					if kind == "close" {
						_ = st.Close()
					} else {
						// the file handle of one list is replaced by a closed descriptor
						fl := faultLists[hr.Intn(len(faultLists))]
						f, err := os.Open(os.DevNull)
						if err != nil {
							panic(err)
						}
						_ = f.Close()
						fl.Lock()
						orphans = append(orphans, fl.File)
						fl.File = f
						fl.Unlock()
					}
				})
				out.write(map[string]any{"ev": "fault", "q": "", "got": []string{}, "gotnet": []string{}, "twin": []string{}, "twinnet": []string{}, "ref": []string{}, "kind": kind + pv, "h": hnum})
			}
			if transient && i == recoverAt {
				failing.Store(false)
				out.write(map[string]any{"ev": "recover", "q": "", "got": []string{}, "gotnet": []string{}, "twin": []string{}, "twinnet": []string{}, "ref": []string{}, "kind": "transient", "h": hnum})
			}
			var q *histQuery
			if i == faultAt+1 && !bulk {
				q = &histQuery{kind: "dnsmatch", host: pairHost}
			} else if bucket && i == 0 {
				q = bucketQ("bkt-a.test")
			} else if bucket && i == faultAt {
				q = bucketQ("bkt-b.test")
			} else if bulk {
				q = &histQuery{kind: "dnsmatch", host: fmt.Sprintf("bulk%04d.example", i%5000)}
			} else if hr.Intn(4) == 0 {
				q = rndHistQuery(hr)
			} else {
				q = pool[hr.Intn(len(pool))]
			}
			if q.kind == "cos" || q.kind == "web" {
				q = &histQuery{kind: "net", host: q.host, url: "https://" + q.host + "/ads/banner.js", src: q.src, typ: rules.TypeScript}
			}
			// a query on the faulted engine that does not come back is as bad as a crash: watchdog
			type ans struct {
				got, gotnet []string
				pv          string
			}
			done := make(chan ans, 1)
			ask := func() {
				_, _, g, gn, p := eng.run2(q)
				done <- ans{g, gn, p}
			}
			if lockHeld && i >= faultAt && i < faultAt+12 {
				st.VerifHoldCacheLock(func() {
					go ask()
					time.Sleep(20 * time.Millisecond)
				})
			} else {
				go ask()
			}
			var got, gotnet []string
			var pv string
			select {
			case a := <-done:
				got, gotnet, pv = a.got, a.gotnet, a.pv
			case <-time.After(8 * time.Second):
				pv, hung = "the query did not return within 8 s (deadlock)", true
			}
			_, _, twinAll, twinnet, _ := twin.run2(q)
			ref := trulyMatching(parsed, q)
			if pv != "" {
				got = []string{"PANIC"}
			}
			queries++
			if i >= faultAt {
				afterFault++
				if len(got) > 0 {
					served++
				}
			}
			if len(samples) < 3 && i >= faultAt && len(got) > 0 {
				samples = append(samples, fmt.Sprintf("after %s: %s -> %d of %d rules", kind, q.key(), len(got), len(ref)))
			}
			out.write(map[string]any{"ev": "query", "q": q.key(), "got": nz(got), "gotnet": nz(gotnet), "twin": nz(twinAll), "twinnet": nz(twinnet),
				"ref": nz(ref), "kind": pv, "h": hnum})
		}
		// at the end of the history every index of the lists is retrieved once more from the faulted storage, in file
		// order: what comes back is the rule that stands there, or nothing - never the text of another place
		if !hung {
			sc := twinSt.NewRuleStorageScanner()
			for n := 0; n < 400 && sc.Scan(); n++ {
				tr, idx := sc.Rule()
				want := fmt.Sprintf("%s@%d", tr.Text(), idx)
				var got []string
				type ret struct {
					got []string
					pv  string
				}
				done := make(chan ret, 1)
				go func() {
					var g []string
					p := safeCall(func() {
						if rr, _ := st.RetrieveRule(idx); rr != nil {
							g = []string{fmt.Sprintf("%s@%d", rr.Text(), idx)}
						}
					})
					done <- ret{g, p}
				}()
				var pv string
				select {
				case r := <-done:
					got, pv = r.got, r.pv
				case <-time.After(8 * time.Second):
					// a retrieval that does not come back (a lock left behind by a failed one) is as bad as a crash
					pv, hung = "the retrieval did not return within 8 s (deadlock)", true
				}
				if pv != "" {
					got = []string{"PANIC"}
				}
				out.write(map[string]any{"ev": "query", "q": fmt.Sprintf("retrieve|%d", idx), "got": nz(got), "gotnet": []string{}, "twin": []string{want}, "twinnet": []string{},
					"ref": []string{want}, "kind": pv, "h": hnum})
				if hung {
					break
				}
			}
		}
		cleanup()
		cleanupTwin()
		for _, f := range orphans {
			_ = f.Close()
		}
	}
	summary(map[string]any{"events": out.n, "queries": queries, "after_fault": afterFault, "served_after_fault": served, "in_flight_across_fault": gatedRuns, "samples": samples})
	return nil
}

func init() {
	register("fresh-answers", cmdFreshAnswers)
	register("drive-history", cmdDriveHistory)
	register("drive-fault", cmdDriveFault)
}
