package main

// C09: effective DNS rewrites.  Replay of TLC-enumerated symbol sequences
// (spec/MC_Rewrites.tla) into DNSResult.DNSRewrites, directly and through the
// DNS engine, and a seeded driver whose events spec/Trace_Rewrites.tla validates.

import (
	"fmt"
	"math/rand"
	"reflect"
	"sort"
	"strings"

	"github.com/AdguardTeam/urlfilter"
	"github.com/AdguardTeam/urlfilter/filterlist"
	"github.com/AdguardTeam/urlfilter/rules"
	"github.com/miekg/dns"
)

type rwVal struct {
	Cname  string `json:"cname"`
	Rcode  string `json:"rcode"`
	Rrtype string `json:"rrtype"`
	Value  string `json:"value"`
}

type rwRec struct {
	Kind string `json:"kind"`
	Vals []struct {
		N string `json:"n"`
		T string `json:"t"`
		V rwVal  `json:"v"`
	} `json:"vals,omitempty"`
	Syms []struct {
		ID        int  `json:"id"`
		Vi        int  `json:"vi"`
		Exc       bool `json:"exc"`
		Important bool `json:"important"`
		Ok        bool `json:"ok"`
	} `json:"syms,omitempty"`
	S   []int `json:"s"`
	Exp []int `json:"exp"`
}

const rwHost = "r.tt"

func rwText(valText string, exc, important bool) string {
	t := "||" + rwHost + "^$dnsrewrite=" + valText
	if important {
		t += ",important"
	}
	if exc {
		t = "@@" + t
	}
	return t
}

// canonical text of a parsed value: a projection of the real object, equal
// strings iff structurally equal values
func canonValue(v any) string {
	switch x := v.(type) {
	case nil:
		return ""
	case *rules.DNSMX:
		return fmt.Sprintf("%d %s", x.Preference, x.Exchange)
	case *rules.DNSSRV:
		return fmt.Sprintf("%d %d %d %s", x.Priority, x.Weight, x.Port, x.Target)
	case *rules.DNSSVCB:
		var ps []string
		for k, val := range x.Params {
			ps = append(ps, k+"="+val)
		}
		sort.Strings(ps)
		return strings.TrimSpace(fmt.Sprintf("%d %s %s", x.Priority, x.Target, strings.Join(ps, " ")))
	default:
		return fmt.Sprint(x)
	}
}

func projectRewrite(r *rules.NetworkRule) rwVal {
	d := r.DNSRewrite
	v := rwVal{Cname: d.NewCNAME, Rcode: dns.RcodeToString[d.RCode], Value: canonValue(d.Value)}
	if d.RRType != 0 {
		v.Rrtype = dns.TypeToString[d.RRType]
	}
	return v
}

func textsOf(rs []*rules.NetworkRule) []string {
	out := []string{}
	for _, r := range rs {
		if r == nil {
			out = append(out, "<nil>")
			continue
		}
		out = append(out, r.RuleText)
	}
	return out
}

func seqKey(a []int) string { return fmt.Sprint(a) }

func eqStrs(a, b []string) bool {
	if len(a) != len(b) {
		return false
	}
	for i := range a {
		if a[i] != b[i] {
			return false
		}
	}
	return true
}

func rwCause(all []*rules.NetworkRule) string {
	exc, structured := 0, false
	for _, r := range all {
		if r == nil {
			continue
		}
		if r.Whitelist {
			exc++
			switch r.DNSRewrite.Value.(type) {
			case *rules.DNSMX, *rules.DNSSRV, *rules.DNSSVCB:
				structured = true
			}
		}
	}
	switch {
	case exc >= 2:
		return "two-or-more-exceptions"
	case structured:
		return "structured-value-exception"
	default:
		return "other"
	}
}

func dnsRewritesVia(entry string, texts []string, objs []*rules.NetworkRule) (all, got []*rules.NetworkRule, pv string) {
	pv = safeCall(func() {
		var res *urlfilter.DNSResult
		if entry == "direct" {
			res = &urlfilter.DNSResult{NetworkRules: append([]*rules.NetworkRule{}, objs...)}
		} else {
			st, err := filterlist.NewRuleStorage([]filterlist.RuleList{&filterlist.StringRuleList{ID: 1, RulesText: strings.Join(texts, "\n") + "\n"}})
			if err != nil {
				panic(err)
			}
			res, _ = urlfilter.NewDNSEngine(st).MatchRequest(&urlfilter.DNSRequest{Hostname: rwHost})
		}
		all = res.DNSRewritesAll()
		allTexts := textsOf(all)
		first := res.DNSRewrites()
		got = append([]*rules.NetworkRule{}, first...)
		// asking twice must give the same answer: the first call must not damage the result, and what the caller does
		// to the slice it was handed (here: wiped) is the caller's business
		for i := range first {
			first[i] = nil
		}
		again := res.DNSRewrites()
		if !eqStrs(textsOf(got), textsOf(again)) {
			panic("DNSRewrites() not idempotent")
		}
		// ... nor the list the result hands out
		if allAgain := res.DNSRewritesAll(); !eqStrs(allTexts, textsOf(allAgain)) || !eqStrs(allTexts, textsOf(all)) {
			panic("DNSRewritesAll() differs after DNSRewrites()")
		}
	})
	return
}

// vh replay-rewrites in=<cases.ndjson> out=<mismatches.ndjson>
func cmdReplayRewrites(args []string) error {
	m := argMap(args)
	recs, err := readND[rwRec](m["in"])
	if err != nil {
		return err
	}
	out, err := newNDWriter(m["out"])
	if err != nil {
		return err
	}
	defer out.close()
	var alpha *rwRec
	for i := range recs {
		if recs[i].Kind == "ALPHABET" {
			alpha = &recs[i]
		}
	}
	if alpha == nil {
		return fmt.Errorf("no ALPHABET record")
	}
	symText := map[int]string{}
	symRule := map[int]*rules.NetworkRule{}
	textSym := map[string]int{}
	for _, s := range alpha.Syms {
		if !s.Ok {
			continue
		}
		v := alpha.Vals[s.Vi-1]
		t := rwText(v.T, s.Exc, s.Important)
		r, err := rules.NewNetworkRule(t, 1)
		if err != nil || r.DNSRewrite == nil {
			return rejectedErr("symbol rule %q rejected: %v", t, err)
		}
		// renderer self-check: the parsed value is what the specification's table says
		p := projectRewrite(r)
		if p.Cname != v.V.Cname || p.Rcode != v.V.Rcode || p.Rrtype != v.V.Rrtype || r.Whitelist != s.Exc ||
			r.IsOptionEnabled(rules.OptionImportant) != s.Important {
			return rejectedErr("symbol %q is parsed as %+v, the specification's table says %+v", t, p, v.V)
		}
		symText[s.ID], symRule[s.ID], textSym[t] = t, r, s.ID
	}
	// value partition: equal abstract values <=> structurally equal parsed values
	for _, a := range alpha.Syms {
		for _, b := range alpha.Syms {
			if a.Ok && b.Ok {
				eqSpec := alpha.Vals[a.Vi-1].V == alpha.Vals[b.Vi-1].V
				eqReal := reflect.DeepEqual(symRule[a.ID].DNSRewrite, symRule[b.ID].DNSRewrite)
				if eqSpec != eqReal {
					return rejectedErr("the specification's value table and the parser disagree on whether %q and %q have the same value", symText[a.ID], symText[b.ID])
				}
			}
		}
	}
	expBy := map[string][]int{}
	for _, c := range recs {
		if c.Kind == "CASE" {
			expBy[seqKey(c.S)] = c.Exp
		}
	}
	cases, evals, mism, nontrivial, reordered := 0, 0, 0, 0, 0
	var samples []map[string]any
	for _, c := range recs {
		if c.Kind != "CASE" {
			continue
		}
		cases++
		if len(c.Exp) != len(c.S) {
			nontrivial++
		}
		var texts []string
		var objs []*rules.NetworkRule
		for _, k := range c.S {
			texts = append(texts, symText[k])
			objs = append(objs, symRule[k])
		}
		if len(samples) < 5 && len(c.S) >= 3 && len(c.Exp) > 0 && cases%977 == 0 {
			var et []string
			for _, k := range c.Exp {
				et = append(et, symText[k])
			}
			samples = append(samples, map[string]any{"list": texts, "effective": et})
		}
		for _, entry := range []string{"direct", "engine"} {
			if entry == "engine" && len(c.S) == 0 {
				continue
			}
			evals++
			all, got, pv := dnsRewritesVia(entry, texts, objs)
			exp := c.Exp
			var allSyms []int
			for _, r := range all {
				if r == nil {
					pv = "DNSRewritesAll returned a nil rule"
					break
				}
				allSyms = append(allSyms, textSym[r.RuleText])
			}
			if pv == "" && seqKey(allSyms) != seqKey(c.S) {
				// the engine presented another order: the reference is the filter of what DNSRewritesAll returned
				e2, ok := expBy[seqKey(allSyms)]
				if !ok {
					pv = fmt.Sprintf("DNSRewritesAll returned %v, not a permutation of the list", textsOf(all))
				} else {
					exp = e2
					reordered++
				}
			}
			var expTexts []string
			for _, k := range exp {
				expTexts = append(expTexts, symText[k])
			}
			if pv != "" || !eqStrs(textsOf(got), expTexts) {
				mism++
				out.write(map[string]any{"entry": entry, "list": texts, "all": textsOf(all), "expected": expTexts, "got": textsOf(got),
					"panic": pv, "cause": rwCause(objs), "case": c})
			}
		}
	}
	summary(map[string]any{"cases": cases, "evaluations": evals, "mismatches": mism, "nontrivial": nontrivial,
		"engine_reordered": reordered, "samples": samples})
	return nil
}

// ---- seeded driver ----

func rndRewriteValue(rnd *rand.Rand) string {
	ips := []string{"1.1.1.1", "2.2.2.2", "10.0.0.1"}
	hosts := []string{"c1.test", "c2.test", "mx.test"}
	switch rnd.Intn(14) {
	case 0, 1:
		return ips[rnd.Intn(3)]
	case 2:
		return "NOERROR;A;" + ips[rnd.Intn(3)]
	case 3:
		return []string{"::1", "NOERROR;AAAA;::1", "NOERROR;AAAA;2001:db8::1"}[rnd.Intn(3)]
	case 4:
		return hosts[rnd.Intn(3)]
	case 5:
		return "NOERROR;CNAME;" + hosts[rnd.Intn(3)]
	case 6:
		return []string{"NXDOMAIN", "REFUSED", "SERVFAIL", "NXDOMAIN;;", "REFUSED;A;1.1.1.1"}[rnd.Intn(5)]
	case 7:
		return "NOERROR;TXT;" + []string{"hello", "world", "", "c1.test."}[rnd.Intn(4)]
	case 8:
		return fmt.Sprintf("NOERROR;MX;%d %s", []int{10, 20}[rnd.Intn(2)], hosts[rnd.Intn(3)])
	case 9:
		return fmt.Sprintf("NOERROR;SRV;1 %d 80 %s", rnd.Intn(2), hosts[rnd.Intn(2)])
	case 10:
		return []string{"NOERROR;HTTPS;1 . alpn=h3", "NOERROR;HTTPS;1 . alpn=h2", "NOERROR;SVCB;1 . alpn=h3", "NOERROR;HTTPS;1 c1.test", "NOERROR;HTTPS;1 . alpn=h3 port=8443", "NOERROR;HTTPS;1 . port=8443 alpn=h3"}[rnd.Intn(6)]
	case 11:
		return "NOERROR;PTR;" + hosts[rnd.Intn(3)] + []string{"", "."}[rnd.Intn(2)]
	case 12:
		return []string{"", "NOERROR", "NOERROR;;"}[rnd.Intn(3)]
	default:
		return "NOERROR;NS;whatever"
	}
}

type rwAbs struct {
	Exc       bool  `json:"exc"`
	Important bool  `json:"important"`
	Val       rwVal `json:"val"`
}

type rwEvent struct {
	All   []rwAbs  `json:"all"`
	Got   []int    `json:"got"`
	Entry string   `json:"entry"`
	List  []string `json:"list"`
}

func runRewriteEvent(entry string, texts []string) (ev rwEvent, cause string, err error) {
	var objs []*rules.NetworkRule
	for _, t := range texts {
		r, perr := rules.NewNetworkRule(t, 1)
		if perr != nil {
			return ev, "", perr
		}
		objs = append(objs, r)
	}
	all, got, pv := dnsRewritesVia(entry, texts, objs)
	ev = rwEvent{All: []rwAbs{}, Got: []int{}, Entry: entry, List: nz(texts)}
	if pv != "" {
		// a crash, or a second DNSRewrites() call that answers differently, is not an allowed observation:
		// log an event no specification can accept (position 0) instead of stopping the driver
		for _, r := range objs {
			ev.All = append(ev.All, rwAbs{Exc: r.Whitelist, Important: r.IsOptionEnabled(rules.OptionImportant), Val: projectRewrite(r)})
		}
		ev.Got = []int{0}
		ev.Entry = entry + ": " + pv
		return ev, "crash", nil
	}
	pos := map[*rules.NetworkRule]int{}
	for i, r := range all {
		if r == nil {
			// a nil entry is not a rule: make the event unacceptable instead of crashing the driver
			ev.All = append(ev.All, rwAbs{Val: rwVal{Rcode: "NIL-ENTRY"}})
			ev.Got = append(ev.Got, 0)
			continue
		}
		pos[r] = i + 1
		v := projectRewrite(r)
		if r.DNSRewrite.NewCNAME == "" && r.DNSRewrite.RCode == 0 && r.DNSRewrite.RRType == 0 && r.DNSRewrite.Value == nil {
			v = rwVal{Rcode: "NOERROR"}
		}
		ev.All = append(ev.All, rwAbs{Exc: r.Whitelist, Important: r.IsOptionEnabled(rules.OptionImportant), Val: v})
	}
	for _, r := range got {
		if r == nil {
			ev.Got = append(ev.Got, 0)
			continue
		}
		p, ok := pos[r]
		if !ok {
			return ev, "", fmt.Errorf("DNSRewrites returned a rule that DNSRewritesAll did not: %s", r.RuleText)
		}
		ev.Got = append(ev.Got, p)
	}
	return ev, rwCause(all), nil
}

// vh drive-rewrites n=<events> out=<trace.ndjson> | vh drive-rewrites single=<json list of texts> entry=direct
func cmdDriveRewrites(args []string) error {
	m := argMap(args)
	n := argInt(m, "n", 5000)
	maxLen := argInt(m, "maxlen", 20)
	out, err := newNDWriter(m["out"])
	if err != nil {
		return err
	}
	defer out.close()
	rnd := rand.New(rand.NewSource(seed()*31 + 5))
	nontrivial := 0
	var samples []any
	for out.n < n {
		k := rnd.Intn(maxLen + 1)
		seen := map[string]bool{}
		var texts []string
		for len(texts) < k {
			exc := rnd.Intn(3) == 0
			v := rndRewriteValue(rnd)
			if v == "" && !exc && rnd.Intn(4) != 0 {
				continue
			}
			t := rwText(v, exc, rnd.Intn(4) == 0)
			if seen[t] {
				continue
			}
			if _, perr := rules.NewNetworkRule(t, 1); perr != nil {
				return rejectedErr("the parser rejects the valid rule %q: %v", t, perr)
			}
			seen[t] = true
			texts = append(texts, t)
		}
		// a malformed value (RewriteValue.tla: rejected) next to the valid ones: the line has no effect at all - if the
		// parser takes it for a rule the event becomes one no specification accepts
		if rnd.Intn(3) == 0 {
			bad := rwText([]string{"NOERROR;MX;65546 mx.test", "NOERROR;MX;65536 c1.test", "NOERROR;A;999.1.1.1", "NOERROR;SRV;1 2 80",
				"NOERROR;MX;-1 mx.test", "NOERROR;AAAA;1.1.1.1", "NOERROR;SRV;1 65536 80 c1.test"}[rnd.Intn(7)], rnd.Intn(2) == 0, false)
			if r, perr := rules.NewNetworkRule(bad, 1); perr == nil && r != nil {
				out.write(rwEvent{All: []rwAbs{{Exc: r.Whitelist, Val: rwVal{Rcode: "MALFORMED-VALUE-ACCEPTED"}}}, Got: []int{0}, Entry: "parse: " + bad, List: []string{bad}})
			}
		}
		entry := "direct"
		if rnd.Intn(4) == 0 && len(texts) > 0 {
			entry = "engine"
		}
		ev, _, err := runRewriteEvent(entry, texts)
		if err != nil {
			return err
		}
		if len(ev.Got) != len(ev.All) {
			nontrivial++
		}
		if len(samples) < 3 && len(ev.Got) > 0 && len(ev.Got) < len(ev.All) {
			samples = append(samples, map[string]any{"list": texts, "effective_positions": ev.Got})
		}
		out.write(ev)
	}
	summary(map[string]any{"events": out.n, "nontrivial": nontrivial, "samples": samples})
	return nil
}

func init() {
	register("replay-rewrites", cmdReplayRewrites)
	register("drive-rewrites", cmdDriveRewrites)
}
