package main

import (
	"fmt"
	"math/rand"
	"net/netip"
	"sort"
	"strings"

	"github.com/AdguardTeam/urlfilter/rules"
)

// ---- seeded grammar driver for C04 (code -> spec) ----

var driveHosts = []string{
	"example.org", "sub.example.org", "a.b.example.org", "notexample.org", "example.com", "www.example.co.uk",
	"google.com", "mail.google.co.uk", "a.google.x.notgoogle.com", "google.blogspot.com", "google.foo.ck",
	"google.zz", "www.ck", "notgoogle.google.com", "a.mygoogle.google.co.uk", "notexample.example.org", "ads.tracker.net", "tracker.net", "xn--e1afmkfd.org", "cdn.example.org", "example.org.evil.com",
	"localhost", "1.2.3.4", "cafe.be", "abc.de", "ad.feed.cc",
}

var driveDomains = []string{
	"example.org", "sub.example.org", "example.com", "google.*", "example.*", "tracker.net", "co.uk", "example.co.uk",
	"evil.com", "b.example.org", "notgoogle.*", "google.com", "blogspot.com", "www.ck", "foo.ck", "org.evil.com",
}

var driveTags = []string{"t1", "t2", "t_3", "device_phone", "user_child", "a", "zz9"}
var driveDns = []string{"A", "AAAA", "CNAME", "TXT", "MX", "HTTPS", "PTR"}
var driveTypes = []string{"script", "image", "subdocument", "stylesheet", "object", "xmlhttprequest", "media", "font", "websocket", "ping", "other"}
var driveNames = []string{"phone", "Frank's laptop", "kid,s|tablet", "Mom", "\"quoted\"", "tv-1", "a b", "kids/tablet", "10.0.0.1/x", "a/8"}

func rndSubset[T any](rnd *rand.Rand, xs []T, max int) []T {
	n := rnd.Intn(max + 1)
	p := rnd.Perm(len(xs))
	var out []T
	for i := 0; i < n && i < len(xs); i++ {
		out = append(out, xs[p[i]])
	}
	return out
}

func rndCli(rnd *rand.Rand) aCli {
	switch rnd.Intn(6) {
	case 0, 1:
		return aCli{K: "name", V: bytesToInts(driveNames[rnd.Intn(len(driveNames))])}
	case 2:
		b := [][]int{{192, 168, 1, 5}, {10, 0, 0, 1}, {192, 168, 2, 7}, {172, 16, 0, 9}}[rnd.Intn(4)]
		return aCli{K: "net", Fam: 4, Bytes: b, Bits: 32}
	case 3:
		bits := []int{0, 7, 8, 16, 20, 24, 31}[rnd.Intn(7)]
		a := netip.AddrFrom4([4]byte{byte(rnd.Intn(2) * 192), byte(rnd.Intn(2) * 168), byte(rnd.Intn(3)), 0})
		p := netip.PrefixFrom(a, bits).Masked()
		b4 := p.Addr().As4()
		return aCli{K: "net", Fam: 4, Bytes: []int{int(b4[0]), int(b4[1]), int(b4[2]), int(b4[3])}, Bits: bits}
	case 4:
		bs := make([]int, 16)
		bs[0], bs[1] = 254, 128
		bits := []int{10, 16, 64, 127, 128}[rnd.Intn(5)]
		if bits == 128 {
			bs[15] = 1
		}
		return aCli{K: "net", Fam: 6, Bytes: bs, Bits: bits}
	default:
		bs := make([]int, 16)
		bs[10], bs[11] = 255, 255
		bs[12], bs[13], bs[14], bs[15] = 192, 168, 1, 5
		return aCli{K: "net", Fam: 6, Bytes: bs, Bits: []int{96, 120, 128}[rnd.Intn(3)]}
	}
}

func dedupeCli(cs []aCli) []aCli {
	seen := map[string]bool{}
	var out []aCli
	for _, c := range cs {
		k := fmt.Sprint(c)
		if !seen[k] {
			seen[k] = true
			out = append(out, c)
		}
	}
	return out
}

func splitPR[T any](rnd *rand.Rand, xs []T) (p, r []T) {
	for _, x := range xs {
		if rnd.Intn(2) == 0 {
			p = append(p, x)
		} else {
			r = append(r, x)
		}
	}
	return
}

func hostsOf(ss []string) []aHost {
	out := []aHost{}
	for _, s := range ss {
		out = append(out, hostFromString(s))
	}
	return out
}

func codesOf(ss []string) [][]int {
	out := [][]int{}
	for _, s := range ss {
		out = append(out, bytesToInts(s))
	}
	return out
}

func nz[T any](xs []T) []T {
	if xs == nil {
		return []T{}
	}
	return xs
}

// rndPattern derives a mask pattern from a URL so that it matches reasonably often.
func rndPattern(rnd *rand.Rand, url, host string) string {
	switch rnd.Intn(16) {
	case 15:
		// a dollar sign at the very end: with options behind it ("x$$third-party") and, when the rule has none, as the last
		// character of the text - a literal character either way, which none of the URLs has
		return url[:7+rnd.Intn(len(url)-7)] + "$"
	case 12:
		// a pipe that is no anchor is a literal character: none of the URLs has one
		return host + "|" + []string{"zzz", "/", host}[rnd.Intn(3)]
	case 13:
		return "|||" + host
	case 14:
		return url[len(url)-4:] + "||"
	case 0:
		return "||" + host + "^"
	case 1:
		return "||" + host[strings.Index(host, ".")+1:] + "^"
	case 2:
		return host
	case 3:
		return "|" + url[:7+rnd.Intn(len(url)-7)]
	case 4:
		i := rnd.Intn(len(url) - 3)
		return url[i : i+3+rnd.Intn(len(url)-i-3+1)]
	case 5:
		i := rnd.Intn(len(url) - 3)
		return strings.ToUpper(url[i : i+3])
	case 6:
		return url[len(url)-4:] + "|"
	case 7:
		return "://" + host[:1+rnd.Intn(len(host))] + "*" + url[len(url)-2:]
	case 8:
		return "^" + host + "^"
	case 9:
		return "/" + host[:strings.Index(host+".", ".")] + "."
	case 10:
		return "||" + host + "/*"
	default:
		return "://"
	}
}

func rndRule(rnd *rand.Rand, url, host string) *aRule {
	r := &aRule{Third: "none", Mcase: "none"}
	r.Pat = bytesToInts(rndPattern(rnd, url, host))
	has := func(p int) bool { return rnd.Intn(100) < p }
	if has(15) {
		r.White = true
	}
	if has(15) {
		r.Important = true
	}
	if has(25) {
		r.Third = []string{"on", "off"}[rnd.Intn(2)]
	}
	if has(25) {
		r.Mcase = []string{"on", "off"}[rnd.Intn(2)]
	}
	if has(30) {
		r.PermTypes, r.RestTypes = splitPR(rnd, rndSubset(rnd, driveTypes, 4))
	}
	if has(40) {
		p, q := splitPR(rnd, rndSubset(rnd, driveDomains, 6))
		r.PermDom, r.RestDom = hostsOf(p), hostsOf(q)
	}
	if has(20) {
		r.Denyallow = hostsOf(rndSubset(rnd, driveDomains, 4))
	}
	if has(25) {
		r.PermDns, r.RestDns = splitPR(rnd, rndSubset(rnd, driveDns, 4))
	}
	if has(25) {
		p, q := splitPR(rnd, rndSubset(rnd, driveTags, 5))
		r.PermTag, r.RestTag = codesOf(p), codesOf(q)
	}
	if has(30) {
		n := rnd.Intn(6) + 1
		var cs []aCli
		for i := 0; i < n; i++ {
			cs = append(cs, rndCli(rnd))
		}
		r.PermCli, r.RestCli = splitPR(rnd, dedupeCli(cs))
	}
	r.PermTypes, r.RestTypes = nz(r.PermTypes), nz(r.RestTypes)
	r.PermDom, r.RestDom, r.Denyallow = nz(r.PermDom), nz(r.RestDom), nz(r.Denyallow)
	r.PermDns, r.RestDns = nz(r.PermDns), nz(r.RestDns)
	r.PermTag, r.RestTag = nz(r.PermTag), nz(r.RestTag)
	r.PermCli, r.RestCli = nz(r.PermCli), nz(r.RestCli)
	r.DocOpts, r.Misc, r.Rewrite = []string{}, []string{}, [][]int{}
	return r
}

func isIPLiteral(h string) bool {
	_, err := netip.ParseAddr(h)
	return err == nil
}

func rndReq(rnd *rand.Rand) (*aReq, string, string) {
	host := driveHosts[rnd.Intn(len(driveHosts))]
	q := &aReq{Tags: [][]int{}, Cname: []int{}, Cip: aIP{Nil: true}, DNSType: "none", Type: "document", Src: aHost{}}
	q.Host = hostFromString(host)
	q.HostIsIP = isIPLiteral(host)
	q.HostPsl = realPsl(host)
	if rnd.Intn(3) == 0 {
		q.Hostreq = true
		q.URL = bytesToInts("http://" + host)
		if rnd.Intn(2) == 0 {
			q.DNSType = driveDns[rnd.Intn(len(driveDns))]
		}
		q.Tags = codesOf(rndSubset(rnd, driveTags, 3))
		if rnd.Intn(2) == 0 {
			q.Cname = bytesToInts(driveNames[rnd.Intn(len(driveNames))])
		}
		if rnd.Intn(2) == 0 {
			c := rndCli(rnd)
			for c.K != "net" {
				c = rndCli(rnd)
			}
			// a concrete address inside (or just outside) the generated network
			bs := append([]int{}, c.Bytes...)
			if rnd.Intn(2) == 0 {
				bs[len(bs)-1] = rnd.Intn(256)
			}
			q.Cip = aIP{Fam: c.Fam, Bytes: bs}
		}
		return q, "http://" + host, host
	}
	scheme := []string{"http://", "https://", "ws://", "wss://"}[rnd.Intn(4)]
	path := []string{"/", "/ad.js", "/ads/banner.png?x=1&y=2", "/Ad.JS", "/a%20b/c_d-e.f", "", "/path/to;p=1", "/x?u=http://example.org/",
		"/@user/post", "/p?email=bob@mail.example", "/a:b@c/d"}[rnd.Intn(11)]
	url := scheme + host + path
	q.URL = bytesToInts(url)
	q.Type = append(driveTypes, "document")[rnd.Intn(len(driveTypes)+1)]
	if rnd.Intn(4) != 0 {
		src := driveHosts[rnd.Intn(len(driveHosts))]
		q.Src = hostFromString(src)
		q.SrcPsl = realPsl(src)
	}
	return q, url, host
}

type ruleEvent struct {
	Rule *aRule `json:"rule"`
	Req  *aReq  `json:"req"`
	Res  bool   `json:"res"`
	Text string `json:"text"`
	// HostOK: the request the real constructor built has the host names the event states (C17's subject; here a
	// difference means the rule was asked about another host's request)
	HostOK bool `json:"host_ok"`
}

// checkRendered cross-checks the renderer: what the real parser understood must
// agree with the abstract rule on everything the exported accessors show.
func checkRendered(a *aRule, r *rules.NetworkRule) error {
	if r.IsRegexRule() {
		return fmt.Errorf("the rendered pattern is a regular expression by syntax, the abstract rule is a mask")
	}
	if r.Whitelist != a.White {
		return fmt.Errorf("whitelist flag")
	}
	if r.IsOptionEnabled(rules.OptionImportant) != a.Important || r.IsOptionEnabled(rules.OptionBadfilter) != a.Badfilter {
		return fmt.Errorf("important/badfilter")
	}
	if r.IsOptionEnabled(rules.OptionThirdParty) != (a.Third == "on") || r.IsOptionDisabled(rules.OptionThirdParty) != (a.Third == "off") {
		return fmt.Errorf("third-party")
	}
	if r.IsOptionEnabled(rules.OptionMatchCase) != (a.Mcase == "on") {
		return fmt.Errorf("match-case")
	}
	got := append([]string{}, r.GetPermittedDomains()...)
	want := hostsToStrings(a.PermDom)
	sort.Strings(got)
	sort.Strings(want)
	if strings.Join(got, "|") != strings.Join(want, "|") {
		return fmt.Errorf("permitted domains %v vs %v", got, want)
	}
	if r.VerifPattern() != strings.TrimSuffix(intsToString(a.Pat), "/*")+map[bool]string{true: "^", false: ""}[strings.HasSuffix(intsToString(a.Pat), "/*")] {
		return fmt.Errorf("pattern %q vs %q", r.VerifPattern(), intsToString(a.Pat))
	}
	return nil
}

// vh drive-rule n=<events> out=<trace.ndjson>
func cmdDriveRule(args []string) error {
	m := argMap(args)
	n := argInt(m, "n", 20000)
	out, err := newNDWriter(m["out"])
	if err != nil {
		return err
	}
	defer out.close()
	rnd := rand.New(rand.NewSource(seed()*7919 + 17))
	matches, rejected, panics := 0, 0, 0
	var samples []string
	for out.n < n {
		q, url, host := rndReq(rnd)
		for k := 0; k < 4 && out.n < n; k++ {
			a := rndRule(rnd, url, host)
			text := a.text(rnd.Intn(3), rnd)
			rule, perr := rules.NewNetworkRule(text, 1)
			if perr != nil {
				// too wide / two-character patterns etc.: not part of the contract, count and go on
				rejected++
				continue
			}
			if rule.IsRegexRule() {
				// a pattern that starts and ends with '/' is a regular expression by syntax, not a mask: the abstract
				// rule (mask semantics) would misrepresent it - outside this check's vocabulary, count and go on
				rejected++
				continue
			}
			if cerr := checkRendered(a, rule); cerr != nil {
				return rejectedErr("the rule %q is parsed differently from what the specification says: %v", text, cerr)
			}
			real, berr := q.build(nil)
			if berr != nil {
				return berr
			}
			hostOK := true
			if !q.Hostreq {
				// derived fields are environment inputs of this check
				q2 := *q
				q2.ThirdParty = real.ThirdParty
				hostOK = real.Hostname == host && real.SourceHostname == q.Src.String()
				if !hostOK {
					// logged, and rejected by the trace specification: the rule was matched against another host's request
					real.Hostname, real.SourceHostname = host, q.Src.String()
				}
				q = &q2
			}
			res, pv := safeMatch(rule, real)
			if pv != "" {
				panics++
				fmt.Printf("PANIC %q on %s: %s\n", text, q.describe(), pv)
				continue
			}
			if res {
				matches++
			}
			if len(samples) < 5 && res {
				samples = append(samples, text+"  <-  "+q.describe())
			}
			out.write(ruleEvent{Rule: a, Req: q, Res: res, Text: text, HostOK: hostOK})
		}
	}
	summary(map[string]any{"events": out.n, "matches": matches, "rejected": rejected, "panics": panics, "samples": samples})
	return nil
}

func init() {
	register("drive-rule", cmdDriveRule)
}
