package main

// C16: replay of the 2^9 exception-modifier subsets into GetCosmeticOption and
// Engine.GetCosmeticResult.

import (
	"fmt"
	"sort"
	"strings"

	"github.com/AdguardTeam/urlfilter"
	"github.com/AdguardTeam/urlfilter/rules"
)

type cosRec struct {
	Kind   string   `json:"kind"`
	Mods   []string `json:"mods"`
	Option []string `json:"option"`
	// Ctype is a content-type modifier written next to the others ("none" or absent: no such modifier); Direct the
	// option of a verdict built directly from the rule, whether or not it matches the page's request.
	Ctype  string   `json:"ctype"`
	Direct []string `json:"direct"`
}

func optionSet(o rules.CosmeticOption) []string {
	var out []string
	if o&rules.CosmeticOptionCSS != 0 {
		out = append(out, "css")
	}
	if o&rules.CosmeticOptionGenericCSS != 0 {
		out = append(out, "gcss")
	}
	if o&rules.CosmeticOptionJS != 0 {
		out = append(out, "js")
	}
	sort.Strings(out)
	return out
}

// vh replay-cosopt in=<cases.ndjson> out=<mismatches.ndjson>
func cmdReplayCosOpt(args []string) error {
	m := argMap(args)
	recs, err := readND[cosRec](m["in"])
	if err != nil {
		return err
	}
	out, err := newNDWriter(m["out"])
	if err != nil {
		return err
	}
	defer out.close()
	evals, mism, nontrivial := 0, 0, 0
	var samples []string
	for _, c := range recs {
		sort.Strings(c.Option)
		exp := strings.Join(c.Option, ",")
		if c.Direct == nil {
			c.Direct = c.Option
		}
		sort.Strings(c.Direct)
		expDirect := strings.Join(c.Direct, ",")
		if len(c.Option) < 3 {
			nontrivial++
		}
		for _, order := range []int{0, 1} {
			mods := append([]string{}, c.Mods...)
			if c.Ctype != "" && c.Ctype != "none" {
				mods = append(mods, c.Ctype)
			}
			sort.Strings(mods)
			if order == 1 {
				for i, j := 0, len(mods)-1; i < j; i, j = i+1, j-1 {
					mods[i], mods[j] = mods[j], mods[i]
				}
			}
			text := ""
			var rs []*rules.NetworkRule
			if c.Kind != "absent" {
				text = "||h.test^"
				if c.Kind == "exception" {
					text = "@@" + text
				}
				if len(mods) > 0 {
					text += "$" + strings.Join(mods, ",")
				}
				r, err := rules.NewNetworkRule(text, 1)
				if err != nil {
					// the specification gives this text a meaning: a parser that refuses it loses the rule (the
					// engine below then answers as if it were absent)
					evals++
					mism++
					out.write(map[string]any{"entry": "NewNetworkRule", "rule": text, "expected": c.Option, "got": []string{"rejected"}, "detail": err.Error(), "case": c})
				} else {
					rs = append(rs, r)
				}
			}
			if len(samples) < 6 && evals%97 == 3 {
				samples = append(samples, text+" -> "+exp)
			}
			want := exp
			check := func(entry string, got []string, extra string) {
				evals++
				if strings.Join(got, ",") != want {
					mism++
					out.write(map[string]any{"entry": entry, "rule": text, "expected": c.Option, "got": got, "detail": extra, "case": c})
				}
			}
			want = expDirect
			check("GetCosmeticOption", optionSet(rules.NewMatchingResult(rs, nil).GetCosmeticOption()), "")
			// the option of a request is decided by the rules of that request: what the page it comes from is excepted
			// from (MC_Cosmetic ReferrerIrrelevant) changes which blocking rules count, never the cosmetic option
			for _, ref := range []string{"@@||ref.test^$document", "@@||ref.test^$urlblock", "@@||ref.test^$genericblock", "@@||ref.test^$elemhide"} {
				if rr, err := rules.NewNetworkRule(ref, 2); err == nil {
					check("GetCosmeticOption(the referrer matches "+ref+")", optionSet(rules.NewMatchingResult(rs, []*rules.NetworkRule{rr}).GetCosmeticOption()), "")
				}
			}
			// a $badfilter rule is never a result (Verdict!RemoveBadfilter): alone, with nothing to disable, it leaves the
			// request without a basic rule and every cosmetic option on; next to its twin it takes the twin with it
			if len(rs) == 1 && len(mods) > 0 {
				if bf, err := rules.NewNetworkRule(text+",badfilter", 1); err == nil {
					want = "css,gcss,js"
					check("GetCosmeticOption(the $badfilter rule alone)", optionSet(rules.NewMatchingResult([]*rules.NetworkRule{bf}, nil).GetCosmeticOption()), "")
					check("GetCosmeticOption(the rule and its $badfilter twin)", optionSet(rules.NewMatchingResult([]*rules.NetworkRule{rs[0], bf}, nil).GetCosmeticOption()), "")
					check("GetCosmeticOption(the $badfilter twin and the rule)", optionSet(rules.NewMatchingResult([]*rules.NetworkRule{bf, rs[0]}, nil).GetCosmeticOption()), "")
				}
			}
			want = exp
			// through the engine: the option drives which selectors the cosmetic engine returns
			// (a generic rule, a rule for the host, and - for a second host, under a real public suffix - a rule for the
			// host and one for the name under any public suffix: "specific" selectors, which only the css option governs)
			list := "##.generic\nh.test##.specific\nh.com##.specific\nh.*##.wild\n" + text + "\n"
			if c.Kind == "exception" && len(mods) >= 2 {
				// a second exception with ONE of the modifiers, in front of or behind the full one: the one with more
				// modifiers outranks it and decides, wherever it stands
				for _, one := range mods {
					if one != "document" && one != "important" && !strings.HasPrefix(one, "~") && !isContentTypeName(one) {
						if order == 0 {
							list = "@@||h.test^$" + one + "\n" + list
						} else {
							list += "@@||h.test^$" + one + "\n"
						}
						if weaker, err := rules.NewNetworkRule("@@||h.test^$"+one, 1); err == nil && len(rs) == 1 {
							want = expDirect
							if order == 0 {
								check("GetCosmeticOption(a weaker exception first)", optionSet(rules.NewMatchingResult([]*rules.NetworkRule{weaker, rs[0]}, nil).GetCosmeticOption()), "")
							} else {
								check("GetCosmeticOption(a weaker exception last)", optionSet(rules.NewMatchingResult([]*rules.NetworkRule{rs[0], weaker}, nil).GetCosmeticOption()), "")
							}
							want = exp
						}
						break
					}
				}
			}
			if c.Kind == "exception" && len(mods) >= 2 && order == 1 {
				// a $badfilter rule naming only ONE of the exception's modifiers is not its twin: it disables nothing
				// ("document" stands for five modifiers and may well be the twin of "document,content": not used)
				for _, one := range mods {
					if one != "document" {
						list += "@@||h.test^$" + one + ",badfilter\n"
						break
					}
				}
			}
			// (a rule for another content type in front, so that something is read from the list before the exception -
			// the last line - is; the list is laid out in memory or in a file, with or without a final line break)
			list = "||h.test^$image,domain=some-longer-name-to-fill-the-read-buffer.example|another.example\n" + list
			st, err := layoutStorage([]string{list}, []int{[]int{1, 0, -7}[evals%3]})
			if err != nil {
				return err
			}
			e := urlfilter.NewEngine(st)
			res := e.MatchRequest(rules.NewRequest("http://h.test/", "", rules.TypeDocument))
			opt := res.GetCosmeticOption()
			check("Engine.MatchRequest+GetCosmeticOption", optionSet(opt), "")
			// the same page as its own referrer: the exception also acts as a referrer-level rule, which must not
			// change the cosmetic option of the page
			res2 := e.MatchRequest(rules.NewRequest("http://h.test/", "http://h.test/index.html", rules.TypeDocument))
			check("Engine.MatchRequest(same-site referrer)+GetCosmeticOption", optionSet(res2.GetCosmeticOption()), "")
			// a domain-specific exception outranks a generic one, however many modifiers the generic one has: the case's
			// rule restricted to its own site, against a generic exception with four modifiers that do not touch the
			// cosmetic options
			if c.Kind == "exception" && len(mods) >= 1 && len(mods) <= 2 && (c.Ctype == "" || c.Ctype == "none") && !containsStr(mods, "document") {
				g := "@@||h.test^$content,extension,urlblock,genericblock"
				if containsStr(mods, "important") {
					g += ",important"
				}
				l3 := "##.generic\nh.test##.specific\n" + g + "\n" + text + ",domain=h.test\n"
				if order == 1 {
					l3 = "##.generic\nh.test##.specific\n" + text + ",domain=h.test\n" + g + "\n"
				}
				st3, err := layoutStorage([]string{l3}, []int{2})
				if err != nil {
					return err
				}
				res3 := urlfilter.NewEngine(st3).MatchRequest(rules.NewRequest("http://h.test/", "http://h.test/index.html", rules.TypeDocument))
				check("Engine.MatchRequest(domain-specific exception against a generic one with more modifiers)", optionSet(res3.GetCosmeticOption()), l3)
			}
			// (an unrestricted lookup for the same host first: what it returns must not colour the restricted one)
			_ = e.GetCosmeticResult("h.test", rules.CosmeticOptionAll)
			cr := e.GetCosmeticResult("h.test", opt)
			// decoded observation: specific selectors need css, generic ones css and gcss
			var dec []string
			if len(cr.ElementHiding.Specific) == 1 && cr.ElementHiding.Specific[0] == ".specific" {
				dec = append(dec, "css")
			}
			if len(cr.ElementHiding.Generic) == 1 && cr.ElementHiding.Generic[0] == ".generic" {
				dec = append(dec, "gcss")
			}
			var wantDec []string
			hasCSS := false
			for _, o := range c.Option {
				if o == "css" {
					hasCSS = true
					wantDec = append(wantDec, "css")
				}
			}
			for _, o := range c.Option {
				if o == "gcss" && hasCSS {
					wantDec = append(wantDec, "gcss")
				}
			}
			// the second host: the option bits mean the same for every page they are applied to
			cr2 := e.GetCosmeticResult("h.com", opt)
			sp2 := append([]string{}, cr2.ElementHiding.Specific...)
			sort.Strings(sp2)
			wantSp2, wantGen2 := "", ""
			for _, o := range wantDec {
				if o == "css" {
					wantSp2 = ".specific,.wild"
				}
				if o == "gcss" {
					wantGen2 = ".generic"
				}
			}
			evals++
			if strings.Join(sp2, ",") != wantSp2 || strings.Join(cr2.ElementHiding.Generic, ",") != wantGen2 {
				mism++
				out.write(map[string]any{"entry": "Engine.GetCosmeticResult(h.com)", "rule": text, "expected": []string{wantSp2, wantGen2},
					"got": []string{strings.Join(sp2, ","), strings.Join(cr2.ElementHiding.Generic, ",")}, "detail": fmt.Sprintf("%+v", cr2.ElementHiding), "case": c})
			}
			// a generic rule that only excludes some sites is a generic rule: the generic-CSS bit governs it like any other
			if st4, err4 := layoutStorage([]string{"##.generic\n~other.example##.generic-but\nh.*##.wild\n"}, []int{4}); err4 == nil {
				cr4 := urlfilter.NewEngine(st4).GetCosmeticResult("h.org", opt)
				gen4 := append([]string{}, cr4.ElementHiding.Generic...)
				sort.Strings(gen4)
				wantSp4, wantGen4 := "", ""
				for _, o := range wantDec {
					if o == "css" {
						wantSp4 = ".wild"
					}
					if o == "gcss" {
						wantGen4 = ".generic,.generic-but"
					}
				}
				evals++
				if strings.Join(cr4.ElementHiding.Specific, ",") != wantSp4 || strings.Join(gen4, ",") != wantGen4 {
					mism++
					out.write(map[string]any{"entry": "Engine.GetCosmeticResult(h.org, a generic rule with an excluded site)", "rule": text,
						"expected": []string{wantSp4, wantGen4}, "got": []string{strings.Join(cr4.ElementHiding.Specific, ","), strings.Join(gen4, ",")},
						"detail": fmt.Sprintf("%+v", cr4.ElementHiding), "case": c})
				}
			}
			evals++
			if strings.Join(dec, ",") != strings.Join(wantDec, ",") {
				mism++
				out.write(map[string]any{"entry": "Engine.GetCosmeticResult", "rule": text, "expected": wantDec, "got": dec,
					"detail": fmt.Sprintf("%+v", cr.ElementHiding), "case": c})
			}
		}
	}
	summary(map[string]any{"cases": len(recs), "evaluations": evals, "mismatches": mism, "nontrivial": nontrivial, "samples": samples})
	return nil
}

func containsStr(xs []string, x string) bool {
	for _, y := range xs {
		if y == x {
			return true
		}
	}
	return false
}

func isContentTypeName(m string) bool {
	switch strings.TrimPrefix(m, "~") {
	case "script", "subdocument", "image", "stylesheet", "object", "media", "font", "xmlhttprequest", "websocket", "ping", "other":
		return true
	}
	return false
}

func init() {
	register("replay-cosopt", cmdReplayCosOpt)
}
