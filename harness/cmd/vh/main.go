// Command vh is the Go side of the verification harness: it renders abstract
// cases to concrete rule text / URLs / bytes, runs the real urlfilter code
// built from /repo (build tag verif), projects the observations back into the
// vocabulary of the TLA+ specification and compares values the case file tells
// it to compare.  It contains no semantic oracle of its own.
package main

import (
	"bufio"
	"encoding/json"
	"errors"
	"fmt"
	"os"
	"sort"
	"strconv"
	"strings"
)

type cmdFunc func(args []string) error

var commands = map[string]cmdFunc{}

func register(name string, f cmdFunc) { commands[name] = f }

func main() {
	if len(os.Args) < 2 {
		names := []string{}
		for n := range commands {
			names = append(names, n)
		}
		sort.Strings(names)
		fmt.Fprintln(os.Stderr, "usage: vh <command> [args]; commands:", names)
		os.Exit(2)
	}
	f, ok := commands[os.Args[1]]
	if !ok {
		fmt.Fprintln(os.Stderr, "unknown command", os.Args[1])
		os.Exit(2)
	}
	// the out= file of a replay command holds mismatches; a change that breaks everything would fill the disk (and the
	// memory of whoever reads the file) with millions of them: the first few thousand are kept, all are counted
	if strings.HasPrefix(os.Args[1], "replay-") {
		recordCap = 4000
	}
	err := f(os.Args[2:])
	layoutCleanup()
	var sr *specRejectedError
	if errors.As(err, &sr) {
		// not a harness problem: the real parser refuses a rule text the specification gives a meaning to
		fmt.Fprintln(os.Stderr, "SPEC-REJECTED:", sr.msg)
		os.Exit(3)
	}
	if err != nil {
		fmt.Fprintln(os.Stderr, "vh:", err)
		os.Exit(2)
	}
}

// specRejectedError: a pool or symbol rule, which every replay needs, is rejected by the real parser.  On the unchanged
// tree this never happens (the pools are rendered from rules the specification defines and the renderer is checked);
// when it does, the parser has changed what it accepts.
type specRejectedError struct{ msg string }

func (e *specRejectedError) Error() string { return e.msg }

func rejectedErr(format string, a ...any) error {
	return &specRejectedError{msg: fmt.Sprintf(format, a...)}
}

func seed() int64 {
	s, err := strconv.ParseInt(os.Getenv("VERIF_SEED"), 10, 64)
	if err != nil {
		return 1
	}
	return s
}

func tier() string {
	if t := os.Getenv("VERIF_TIER"); t != "" {
		return t
	}
	return "quick"
}

// summary prints the final one-line JSON summary read by lib/vf.py.
func summary(v any) {
	b, _ := json.Marshal(v)
	fmt.Println(string(b))
}

type ndWriter struct {
	f *os.File
	w *bufio.Writer
	n int
}

// recordCap: if positive, the number of records an ndWriter keeps (the rest is only counted in n)
var recordCap int

func newNDWriter(path string) (*ndWriter, error) {
	f, err := os.Create(path)
	if err != nil {
		return nil, err
	}
	return &ndWriter{f: f, w: bufio.NewWriterSize(f, 1<<20)}, nil
}

func (n *ndWriter) write(v any) {
	if recordCap > 0 && n.n >= recordCap {
		n.n++
		return
	}
	b, err := json.Marshal(v)
	if err != nil {
		panic(err)
	}
	n.w.Write(b)
	n.w.WriteByte('\n')
	n.n++
}

func (n *ndWriter) close() {
	n.w.Flush()
	n.f.Close()
}

func readND[T any](path string) ([]T, error) {
	f, err := os.Open(path)
	if err != nil {
		return nil, err
	}
	defer f.Close()
	var out []T
	sc := bufio.NewScanner(f)
	sc.Buffer(make([]byte, 1<<20), 1<<28)
	for sc.Scan() {
		if len(sc.Bytes()) == 0 {
			continue
		}
		var v T
		if err := json.Unmarshal(sc.Bytes(), &v); err != nil {
			return nil, fmt.Errorf("%s: %w", path, err)
		}
		out = append(out, v)
	}
	return out, sc.Err()
}

// argMap parses "k=v" arguments.
func argMap(args []string) map[string]string {
	m := map[string]string{}
	for _, a := range args {
		for i := 0; i < len(a); i++ {
			if a[i] == '=' {
				m[a[:i]] = a[i+1:]
				break
			}
		}
	}
	return m
}

func argInt(m map[string]string, k string, def int) int {
	if v, ok := m[k]; ok {
		n, err := strconv.Atoi(v)
		if err == nil {
			return n
		}
	}
	return def
}

func bytesToInts(s string) []int {
	out := make([]int, len(s))
	for i := 0; i < len(s); i++ {
		out[i] = int(s[i])
	}
	return out
}

func intsToString(a []int) string {
	b := make([]byte, len(a))
	for i, x := range a {
		b[i] = byte(x)
	}
	return string(b)
}
