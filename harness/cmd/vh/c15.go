package main

// C15: cosmetic engine.

import (
	"fmt"
	"math/rand"
	"sort"
	"strings"

	"github.com/AdguardTeam/urlfilter"
	"github.com/AdguardTeam/urlfilter/rules"
)

type cosRule struct {
	Exc     bool    `json:"exc"`
	Content string  `json:"content"`
	PermDom []aHost `json:"permDom"`
	RestDom []aHost `json:"restDom"`
}

type cosCell struct {
	G []string `json:"g"`
	S []string `json:"s"`
}

type cosEngRec struct {
	Kind      string    `json:"kind"`
	Pool      []cosRule `json:"pool,omitempty"`
	Hosts     []aHost   `json:"hosts,omitempty"`
	Psl       []aPsl    `json:"psl,omitempty"`
	Sel       []int     `json:"sel,omitempty"`
	On        []cosCell `json:"on,omitempty"`
	NoGeneric []cosCell `json:"nogeneric,omitempty"`
}

var selectorText = map[string]string{"s1": ".banner", "s2": "#ad-top", "s3": "div[class^=\"ad\"]"}

func (r *cosRule) text(variant int) string {
	var ds []string
	for _, d := range r.PermDom {
		ds = append(ds, d.String())
	}
	for _, d := range r.RestDom {
		ds = append(ds, "~"+d.String())
	}
	if variant == 1 {
		for i, j := 0, len(ds)-1; i < j; i, j = i+1, j-1 {
			ds[i], ds[j] = ds[j], ds[i]
		}
	}
	marker := "##"
	if r.Exc {
		marker = "#@#"
	}
	return strings.Join(ds, ",") + marker + selectorText[r.Content]
}

func setStr(xs []string) string {
	m := map[string]bool{}
	for _, x := range xs {
		m[x] = true
	}
	var out []string
	for x := range m {
		out = append(out, x)
	}
	sort.Strings(out)
	return strings.Join(out, " | ")
}

func selSet(ids []string) string {
	var out []string
	for _, id := range ids {
		out = append(out, selectorText[id])
	}
	return setStr(out)
}

func cosCause(pool []cosRule, sel []int, host string) string {
	sub, wild, both := false, false, false
	for _, i := range sel {
		r := pool[i-1]
		for _, d := range r.PermDom {
			ds := d.String()
			if strings.HasSuffix(ds, ".*") {
				wild = true
			} else if strings.HasSuffix(host, "."+ds) {
				sub = true
			}
			for _, x := range r.RestDom {
				if x.String() == ds || strings.HasSuffix(x.String(), "."+ds) {
					both = true
				}
			}
		}
	}
	switch {
	case sub:
		return "subdomain-of-listed-domain"
	case wild:
		return "wildcard-tld-domain"
	case both:
		return "listed-and-excluded"
	default:
		return "other"
	}
}

// vh replay-cosmetic in=<cases.ndjson> out=<mismatches.ndjson>
func cmdReplayCosmetic(args []string) error {
	m := argMap(args)
	recs, err := readND[cosEngRec](m["in"])
	if err != nil {
		return err
	}
	out, err := newNDWriter(m["out"])
	if err != nil {
		return err
	}
	defer out.close()
	var pool *cosEngRec
	for i := range recs {
		if recs[i].Kind == "POOL" {
			pool = &recs[i]
		}
	}
	if pool == nil {
		return fmt.Errorf("no POOL record")
	}
	for k, h := range pool.Hosts {
		if realPsl(h.String()) != pool.Psl[k] {
			return fmt.Errorf("the model's abstract PSL disagrees with the real list on %s", h.String())
		}
	}
	// renderer self-check against the parsed rule
	for _, r := range pool.Pool {
		for v := 0; v < 2; v++ {
			cr, err := rules.NewCosmeticRule(r.text(v), 1)
			if err != nil {
				return rejectedErr("pool rule %q rejected: %v", r.text(v), err)
			}
			if cr.Whitelist != r.Exc || cr.Content != selectorText[r.Content] || cr.IsGeneric() != (len(r.PermDom) == 0) {
				return rejectedErr("cosmetic rule %q is parsed differently from what the specification says (exception %v, content %q, generic %v)",
					r.text(v), cr.Whitelist, cr.Content, cr.IsGeneric())
			}
		}
	}
	rnd := rand.New(rand.NewSource(seed()))
	cases, evals, mism, nontrivial := 0, 0, 0, 0
	var samples []map[string]any
	for _, c := range recs {
		if c.Kind != "CASE" {
			continue
		}
		cases++
		sort.Ints(c.Sel)
		var texts []string
		for _, i := range c.Sel {
			texts = append(texts, pool.Pool[i-1].text(rnd.Intn(2)))
		}
		rnd.Shuffle(len(texts), func(i, j int) { texts[i], texts[j] = texts[j], texts[i] })
		lists := splitLists(append([]string{"||unrelated.example^", "! comment"}, texts...), 1+rnd.Intn(2), rnd)
		st, err := buildStorage(lists)
		if err != nil {
			return err
		}
		ce := urlfilter.NewCosmeticEngine(st)
		eng := urlfilter.NewEngine(st)
		for k, h := range pool.Hosts {
			host := h.String()
			if len(c.On[k].G)+len(c.On[k].S) > 0 {
				nontrivial++
			}
			for flags := 0; flags < 8; flags++ {
				css, gcss, js := flags&1 != 0, flags&2 != 0, flags&4 != 0
				var expG, expS string
				switch {
				case css && gcss:
					expG, expS = selSet(c.On[k].G), selSet(c.On[k].S)
				case css:
					expG, expS = selSet(c.NoGeneric[k].G), selSet(c.NoGeneric[k].S)
				}
				for _, entry := range []string{"CosmeticEngine.Match", "Engine.GetCosmeticResult"} {
					evals++
					var res urlfilter.CosmeticResult
					pv := safeCall(func() {
						if entry == "CosmeticEngine.Match" {
							res = ce.Match(host, css, js, gcss)
						} else {
							var o rules.CosmeticOption
							if css {
								o |= rules.CosmeticOptionCSS
							}
							if gcss {
								o |= rules.CosmeticOptionGenericCSS
							}
							if js {
								o |= rules.CosmeticOptionJS
							}
							res = eng.GetCosmeticResult(host, o)
						}
					})
					gotG, gotS := setStr(res.ElementHiding.Generic), setStr(res.ElementHiding.Specific)
					if pv != "" || gotG != expG || gotS != expS {
						mism++
						out.write(map[string]any{"entry": entry, "rules": texts, "host": host, "css": css, "gcss": gcss, "js": js,
							"expected_generic": expG, "expected_specific": expS, "got_generic": gotG, "got_specific": gotS, "panic": pv,
							"cause": cosCause(pool.Pool, c.Sel, host), "case": c})
					}
				}
			}
		}
		if len(samples) < 5 && len(c.Sel) >= 2 && cases%97 == 5 {
			samples = append(samples, map[string]any{"rules": texts, "host": pool.Hosts[1].String(), "generic": c.On[1].G, "specific": c.On[1].S})
		}
	}
	summary(map[string]any{"cases": cases, "evaluations": evals, "mismatches": mism, "nontrivial": nontrivial, "samples": samples})
	return nil
}

func init() {
	register("replay-cosmetic", cmdReplayCosmetic)
}

// ---- code -> spec: the element-hiding rules of the bundled lists ----

type cosApplicable struct {
	Content string `json:"content"`
	Exc     bool   `json:"exc"`
	Generic bool   `json:"generic"`
}

type cosEvent struct {
	Host       string          `json:"host"`
	CSS        bool            `json:"css"`
	GCSS       bool            `json:"gcss"`
	Applicable []cosApplicable `json:"applicable"`
	Generic    []string        `json:"generic"`
	Specific   []string        `json:"specific"`
	Panic      bool            `json:"panic"`
}

// vh drive-cosmetic n=<hostnames> out=<trace.ndjson>
func cmdDriveCosmetic(args []string) error {
	m := argMap(args)
	n := argInt(m, "n", 300)
	out, err := newNDWriter(m["out"])
	if err != nil {
		return err
	}
	defer out.close()
	rnd := rand.New(rand.NewSource(seed()*29 + 10))
	var cos []*rules.CosmeticRule
	var texts []string
	generic := 0
	for _, line := range listRuleLines(repoDir()) {
		r, err := rules.NewRule(line, 1)
		cr, ok := r.(*rules.CosmeticRule)
		if err != nil || !ok {
			continue
		}
		if cr.IsGeneric() && !cr.Whitelist {
			// thousands of generic rules apply everywhere: keep a seeded sample of them
			if rnd.Intn(40) != 0 {
				continue
			}
			generic++
		}
		cos = append(cos, cr)
		texts = append(texts, line)
	}
	// a few synthetic rules around the sampled hosts exercise sub-domains, wildcards and exclusions on real data
	var domains []string
	for _, cr := range cos {
		for _, d := range cr.GetPermittedDomains() {
			if !strings.HasSuffix(d, ".*") {
				domains = append(domains, d)
			}
		}
	}
	if len(domains) == 0 {
		return fmt.Errorf("the bundled lists contain no domain-specific cosmetic rules")
	}
	// lines longer than the 4 KiB read buffer, in the middle of each list: a rule for 400 domains, its exception for a
	// few of them, and an over-long comment; what follows them must still be found where it is
	{
		var wide []string
		for i := 0; i < 400; i++ {
			wide = append(wide, fmt.Sprintf("wide%03d.example", i))
		}
		// rules whose permitted domain is itself a public suffix (private or ICANN): they apply to every site under it
		for _, l := range []string{"dup.example,~shop.dup.example##.promo", "dup.example,~blog.dup.example##.promo", "blog.dup.example#@#.other",
			"blogspot.com##.suffix-rule", "co.uk,~shop.co.uk##.suffix-rule-2", "github.io#@#.generic-never", "lan##.suffix-rule-3"} {
			if r, err := rules.NewRule(l, 1); err == nil {
				if cr, ok := r.(*rules.CosmeticRule); ok && cr != nil {
					cos = append(cos, cr)
					texts = append(texts, l)
				}
			}
		}
		domains = append(domains, "shop.dup.example", "blog.dup.example", "dup.example", "myblog.blogspot.com", "blogspot.com", "news.co.uk", "x.shop.co.uk", "user.github.io", "printer.lan")
		long := []string{strings.Join(wide, ",") + "##.wide-banner", "! " + strings.Repeat("long comment ", 400),
			strings.Join(wide[100:380], ",") + "#@#.wide-banner", "wide001.example,~sub.wide001.example##.after-long-lines"}
		for _, l := range long {
			if r, err := rules.NewRule(l, 1); err == nil {
				if cr, ok := r.(*rules.CosmeticRule); ok && cr != nil {
					cos = append(cos, cr)
				}
			}
		}
		mid := len(texts) / 4
		texts = append(texts[:mid], append(append([]string{}, long...), texts[mid:]...)...)
		mid = 3 * len(texts) / 4
		texts = append(texts[:mid], append([]string{long[1]}, texts[mid:]...)...)
		domains = append(domains, "wide000.example", "wide001.example", "wide099.example", "wide100.example", "wide250.example", "wide399.example",
			"wide001.example", "wide380.example")
	}
	st, err := buildStorage([][]string{texts[:len(texts)/2], texts[len(texts)/2:]})
	if err != nil {
		return err
	}
	eng := urlfilter.NewCosmeticEngine(st)
	weng := urlfilter.NewEngine(st)
	nonEmpty := 0
	for i := 0; i < n; i++ {
		d := domains[rnd.Intn(len(domains))]
		host := d
		switch rnd.Intn(5) {
		case 0:
			host = "www." + d
		case 1:
			host = "a.b." + d
		case 2:
			host = "not" + d
		case 3:
			if k := strings.IndexByte(d, '.'); k > 0 {
				host = d[k+1:]
			}
		}
		forced := []string{"wide000.example", "wide001.example", "sub.wide001.example", "wide099.example", "www.wide100.example", "wide250.example",
			"wide380.example", "wide399.example", "myblog.blogspot.com", "a.b.blogspot.com", "news.co.uk", "x.shop.co.uk", "user.github.io", "printer.lan",
			"shop.dup.example", "blog.dup.example", "www.dup.example"}
		if i < len(forced) {
			host = forced[i]
		}
		flags := rnd.Intn(4)
		if i < len(forced) {
			flags = 0
		} else if i < len(forced)+16 {
			// the same two hosts with every flag combination in a row, the unrestricted one last: one engine answers them
			// all, an answer must not depend on what was asked before
			host = []string{"wide001.example", "myblog.blogspot.com"}[(i-len(forced))/8]
			flags = 3 - (i-len(forced))%4
		}
		ev := cosEvent{Host: host, CSS: flags&1 == 0, GCSS: flags&2 == 0, Applicable: []cosApplicable{}, Generic: []string{}, Specific: []string{}}
		for _, cr := range cos {
			if cr.Match(host) {
				ev.Applicable = append(ev.Applicable, cosApplicable{Content: cr.Content, Exc: cr.Whitelist, Generic: cr.IsGeneric()})
			}
		}
		pv := safeCall(func() {
			res := eng.Match(host, ev.CSS, true, ev.GCSS)
			ev.Generic = append(ev.Generic, res.ElementHiding.Generic...)
			ev.Specific = append(ev.Specific, res.ElementHiding.Specific...)
		})
		ev.Panic = pv != ""
		if len(ev.Specific) > 0 {
			nonEmpty++
		}
		out.write(ev)
		// the same question through Engine.GetCosmeticResult, which takes the flags as option bits
		ev2 := ev
		ev2.Generic, ev2.Specific = []string{}, []string{}
		opt := rules.CosmeticOptionJS
		if ev.CSS {
			opt |= rules.CosmeticOptionCSS
		}
		if ev.GCSS {
			opt |= rules.CosmeticOptionGenericCSS
		}
		pv = safeCall(func() {
			res := weng.GetCosmeticResult(host, opt)
			ev2.Generic = append(ev2.Generic, res.ElementHiding.Generic...)
			ev2.Specific = append(ev2.Specific, res.ElementHiding.Specific...)
		})
		ev2.Panic = pv != ""
		out.write(ev2)
	}
	summary(map[string]any{"events": out.n, "cosmetic_rules": len(cos), "generic_sampled": generic, "with_specific_result": nonEmpty})
	return nil
}

func init() {
	register("drive-cosmetic", cmdDriveCosmetic)
}
