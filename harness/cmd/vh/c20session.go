package main

// spec/ProxySession.tla <-> proxy.Server: every exchange goes through a real proxy listening on the loopback interface,
// with a real origin server behind it and a real HTTP client in front.
//
//	vh replay-session blocked=<t1,t2> docexc=<0|1> in=<cases.ndjson> out=<mismatches.ndjson>    (spec -> code)
//	vh drive-session  blocked=<t1,t2> docexc=<0|1> n=<exchanges> out=<trace.ndjson>            (code -> spec)

import (
	"bytes"
	"compress/gzip"
	"fmt"
	"io"
	"math/rand"
	"net"
	"net/http"
	"net/url"
	"os"
	"path/filepath"
	"regexp"
	"sort"
	"strconv"
	"strings"
	"sync"
	"time"

	"github.com/AdguardTeam/golibs/log"
	"github.com/AdguardTeam/gomitmproxy"
	"github.com/AdguardTeam/urlfilter/proxy"
)

type psReq struct {
	Upgrade   string `json:"upgrade"`
	Ping      bool   `json:"ping"`
	FetchDest string `json:"fetchDest"`
	Accept    string `json:"accept"`
	Ext       string `json:"ext"`
	Cond      bool   `json:"cond"`
	Area      string `json:"area"`
}

type psOutcome struct {
	Origin bool   `json:"origin"`
	Cond   bool   `json:"cond"`
	Status int    `json:"status"`
	Body   string `json:"body"`
	// Option: the cosmetic option the injected tag names (0: no tag)
	Option int `json:"option"`
}

type psExp struct {
	psOutcome
	Type1 string `json:"type1"`
	Type2 string `json:"type2"`
}

type psScript struct {
	Method   string `json:"method"`
	Hostname string `json:"hostname"`
	Option   string `json:"option"`
	Ts       string `json:"ts"`
	Ims      bool   `json:"ims"`
	Ae       string `json:"ae"`
}

type psCase struct {
	Kind   string    `json:"kind"`
	Req    psReq     `json:"req"`
	Ct     string    `json:"ct"`
	Exp    psExp     `json:"exp"`
	C      *psScript `json:"c,omitempty"`
	Status int       `json:"status,omitempty"`
	Hides  *psHides  `json:"hides,omitempty"`
}

// psHides: which element-hiding rules the served content script carries
type psHides struct {
	Specific bool `json:"specific"`
	Generic  bool `json:"generic"`
}

var psTypeModifier = map[string]string{"subdocument": "subdocument", "script": "script", "stylesheet": "stylesheet", "image": "image", "object": "object",
	"media": "media", "font": "font", "xmlhttprequest": "xmlhttprequest", "websocket": "websocket", "ping": "ping", "other": "other"}

var psContentTypes = map[string]string{"none": "", "html": "text/html", "html-charset": "text/html; charset=utf-8", "xhtml": "application/xhtml+xml",
	"css": "text/css", "js": "application/javascript", "image": "image/png", "json": "application/json", "m3u": "audio/x-mpegURL", "plain": "text/plain"}

var psAccept = map[string]string{"none": "", "html": "text/html,application/xhtml+xml,application/xml;q=0.9,*/*;q=0.8", "css": "text/css,*/*;q=0.1",
	"image": "image/avif,image/webp,*/*", "json": "application/json, text/plain, */*", "any": "*/*"}

var psFetchDest = map[string]string{"none": "", "document": "document", "iframe": "iframe", "script": "script", "style": "style", "image": "image",
	"empty": "empty", "embed": "embed", "bogus": "no-such-destination"}

var psExt = map[string]string{"none": "", "js": ".js", "png": ".png", "css": ".css", "woff": ".woff", "json": ".json", "xyz": ".xyz"}

const psOriginBody = "<!DOCTYPE html>\n<html><head><title>origin page \xe9\xff</title></head>\n<body><p class=\"ad-banner\">hello</p></body></html>\n"

type psEnv struct {
	srv      *proxy.Server
	origin   *http.Server
	originLn net.Listener
	client   *http.Client
	mu       sync.Mutex
	hits     map[string]bool // exchange id -> conditional headers seen
	dir      string
	seq      int
}

func (e *psEnv) close() {
	e.srv.Close()
	_ = e.origin.Close()
	_ = os.RemoveAll(e.dir)
}

func newPsEnv(blocked []string, docExc bool, compress bool) (*psEnv, error) {
	log.SetLevel(log.ERROR)
	e := &psEnv{hits: map[string]bool{}}
	var err error
	if e.dir, err = os.MkdirTemp("", "vh-proxy-"); err != nil {
		return nil, err
	}
	var lines []string
	for _, t := range blocked {
		m, ok := psTypeModifier[t]
		if !ok {
			return nil, fmt.Errorf("no modifier for content type %q", t)
		}
		lines = append(lines, "||localhost^$"+m)
	}
	if docExc {
		lines = append(lines, "@@||localhost^$document")
	}
	// one part of the site has an element-hiding exception of its own: its pages get scripts only (option 4)
	lines = append(lines, "@@||localhost*/nocss/$elemhide")
	lines = append(lines, "localhost##.ad-banner", "##.generic-ad", "||never.matches.example^")
	fp := filepath.Join(e.dir, "filter.txt")
	if err = os.WriteFile(fp, []byte(strings.Join(lines, "\n")+"\n"), 0o600); err != nil {
		return nil, err
	}
	// the origin
	if e.originLn, err = net.Listen("tcp", "127.0.0.1:0"); err != nil {
		return nil, err
	}
	e.origin = &http.Server{Handler: http.HandlerFunc(func(w http.ResponseWriter, r *http.Request) {
		id := r.URL.Query().Get("id")
		cond := r.Header.Get("If-Modified-Since") != "" || r.Header.Get("If-None-Match") != ""
		e.mu.Lock()
		e.hits[id] = cond
		e.mu.Unlock()
		if ct := psContentTypes[r.URL.Query().Get("ct")]; ct != "" {
			w.Header().Set("Content-Type", ct)
		} else {
			w.Header()["Content-Type"] = nil // no sniffing: the header stays away
		}
		w.Header().Set("Content-Security-Policy", "default-src 'self'")
		_, _ = io.WriteString(w, psOriginBody)
	})}
	go func() { _ = e.origin.Serve(e.originLn) }()
	// the proxy
	e.srv, err = proxy.NewServer(proxy.Config{
		ProxyConfig:  gomitmproxy.Config{ListenAddr: &net.TCPAddr{IP: net.IPv4(127, 0, 0, 1), Port: 0}},
		FiltersPaths: map[int]string{1: fp},

		CompressContentScript: compress,
	})
	if err != nil {
		return nil, err
	}
	if err = e.srv.Start(); err != nil {
		return nil, err
	}
	pu, _ := url.Parse("http://" + e.srv.VerifAddr().String())
	e.client = &http.Client{Transport: &http.Transport{Proxy: http.ProxyURL(pu), DisableCompression: true, MaxIdleConnsPerHost: 4},
		Timeout: 10 * time.Second, CheckRedirect: func(*http.Request, []*http.Request) error { return http.ErrUseLastResponse }}
	return e, nil
}

// exchange runs one request through the proxy and classifies what came back.
func (e *psEnv) exchange(q psReq, ct string) (got psOutcome, detail string, err error) {
	e.mu.Lock()
	e.seq++
	id := fmt.Sprintf("x%d", e.seq)
	e.mu.Unlock()
	port := e.originLn.Addr().(*net.TCPAddr).Port
	dir := "p"
	if q.Area == "nocss" {
		dir = "nocss"
	}
	u := fmt.Sprintf("http://localhost:%d/%s/file%s?id=%s&ct=%s", port, dir, psExt[q.Ext], id, ct)
	r, err := http.NewRequest(http.MethodGet, u, nil)
	if err != nil {
		return got, "", err
	}
	if q.Upgrade == "websocket" {
		r.Header.Set("Upgrade", "websocket")
	}
	if q.Ping {
		r.Header.Set("Ping-To", "http://landing.example/")
	}
	if v := psFetchDest[q.FetchDest]; v != "" {
		r.Header.Set("Sec-Fetch-Dest", v)
	}
	if v := psAccept[q.Accept]; v != "" {
		r.Header.Set("Accept", v)
	}
	if q.Cond {
		r.Header.Set("If-Modified-Since", "Wed, 01 Jan 2020 01:00:00 GMT")
		r.Header.Set("If-None-Match", "\"abc\"")
	}
	resp, err := e.client.Do(r)
	if err != nil {
		return got, "", err
	}
	body, err := io.ReadAll(resp.Body)
	_ = resp.Body.Close()
	if err != nil {
		return got, "", err
	}
	e.mu.Lock()
	cond, hit := e.hits[id]
	e.mu.Unlock()
	got = psOutcome{Origin: hit, Cond: hit && cond, Status: resp.StatusCode}
	// the injected text is whatever sits between the two halves of the origin's bytes; it must be the script tag for
	// this page (host, all cosmetic options, this server's time stamp) - its exact spelling is the template's business
	at := strings.Index(psOriginBody, "</head")
	inserted := ""
	if len(body) > len(psOriginBody) && bytes.HasPrefix(body, []byte(psOriginBody[:at])) && bytes.HasSuffix(body, []byte(psOriginBody[at:])) {
		inserted = string(body[at : len(body)-(len(psOriginBody)-at)])
	}
	switch {
	case string(body) == psOriginBody:
		got.Body = "origin"
	case inserted != "":
		got.Body = "filtered"
		if mo := psOptionRe.FindStringSubmatch(inserted); mo != nil {
			got.Option, _ = strconv.Atoi(mo[1])
		}
		for _, need := range []string{"<script", "</script>", "content-script.js", "hostname=localhost", "option=",
			fmt.Sprintf("ts=%d", e.srv.VerifCreatedAt().Unix())} {
			if !strings.Contains(inserted, need) {
				got.Body = "filtered, but the inserted text lacks " + need
				detail = inserted
			}
		}
		if strings.Count(inserted, "<script") != 1 {
			got.Body = "filtered with more than one tag"
		}
		if resp.ContentLength >= 0 && resp.ContentLength != int64(len(body)) {
			got.Body = "filtered with a wrong Content-Length"
		}
		if resp.Header.Get("Content-Security-Policy") != "" {
			got.Body = "filtered but the Content-Security-Policy header is still there"
		}
	case resp.StatusCode == http.StatusInternalServerError && strings.HasPrefix(resp.Header.Get("Content-Type"), "text/html") &&
		bytes.Contains(body, []byte("localhost")) && !bytes.Contains(body, []byte("origin page")):
		got.Body = "blockpage"
	default:
		got.Body = fmt.Sprintf("something else (%d bytes)", len(body))
		detail = string(body[:min(len(body), 300)])
	}
	return got, detail, nil
}

var psOptionRe = regexp.MustCompile(`[?&]option=(\d+)`)

func psConfig(m map[string]string) (blocked []string, docExc bool) {
	if m["blocked"] != "" {
		blocked = strings.Split(m["blocked"], ",")
	}
	return blocked, m["docexc"] == "1"
}

func (e *psEnv) script(c *psScript) (status int, hides psHides, err error) {
	q := url.Values{}
	switch c.Hostname {
	case "one":
		q.Add("hostname", "localhost")
	case "twice":
		q.Add("hostname", "localhost")
		q.Add("hostname", "other.example")
	}
	switch c.Option {
	case "zero":
		q.Add("option", "0")
	case "garbage":
		q.Add("option", "seven")
	default:
		if len(c.Option) == 2 && c.Option[0] == 'o' {
			q.Add("option", c.Option[1:])
		}
	}
	switch c.Ts {
	case "zero":
		q.Add("ts", "0")
	case "created":
		q.Add("ts", fmt.Sprint(e.srv.VerifCreatedAt().Unix()))
	case "other":
		q.Add("ts", fmt.Sprint(e.srv.VerifCreatedAt().Unix()-86400))
	}
	r, err := http.NewRequest(c.Method, "http://injections.adguard.org/content-script.js?"+q.Encode(), nil)
	if err != nil {
		return 0, psHides{}, err
	}
	if c.Ims {
		r.Header.Set("If-Modified-Since", "Wed, 01 Jan 2010 01:00:00 GMT")
	}
	if c.Ae == "gzip" {
		r.Header.Set("Accept-Encoding", "gzip, deflate")
	} else if c.Ae == "identity" {
		r.Header.Set("Accept-Encoding", "identity")
	}
	resp, err := e.client.Do(r)
	if err != nil {
		// a connection the proxy closed after its previous answer: POST is not retried by the transport itself
		e.client.CloseIdleConnections()
		if resp, err = e.client.Do(r); err != nil {
			return 0, psHides{}, err
		}
	}
	b, _ := io.ReadAll(resp.Body)
	_ = resp.Body.Close()
	// the body is read the way its own Content-Encoding header says
	if ce := resp.Header.Get("Content-Encoding"); ce == "gzip" {
		zr, err := gzip.NewReader(bytes.NewReader(b))
		if err != nil {
			return resp.StatusCode, psHides{}, nil // labelled gzip, but it is not
		}
		if b, err = io.ReadAll(zr); err != nil {
			return resp.StatusCode, psHides{}, nil
		}
	} else if ce != "" {
		return resp.StatusCode, psHides{}, nil
	}
	return resp.StatusCode, psHides{Specific: bytes.Contains(b, []byte(".ad-banner")), Generic: bytes.Contains(b, []byte(".generic-ad"))}, nil
}

func cmdReplaySession(args []string) error {
	m := argMap(args)
	recs, err := readND[psCase](m["in"])
	if err != nil {
		return err
	}
	out, err := newNDWriter(m["out"])
	if err != nil {
		return err
	}
	defer out.close()
	blocked, docExc := psConfig(m)
	env, err := newPsEnv(blocked, docExc, false)
	if err != nil {
		return err
	}
	defer env.close()
	envZ, err := newPsEnv(blocked, docExc, true) // the same server, configured to compress the content script
	if err != nil {
		return err
	}
	defer envZ.close()
	evals, mism, tunnels, scripts, nontrivial := 0, 0, 0, 0, 0
	var samples []string
	for i := range recs {
		c := &recs[i]
		switch c.Kind {
		case "SCRIPT":
			scripts++
			evals++
			for zi, e := range []*psEnv{env, envZ} {
				st, hides, err := e.script(c.C)
				if err != nil {
					return fmt.Errorf("content script request %+v: %v", *c.C, err)
				}
				want := psHides{}
				if c.Hides != nil && c.Status == 200 {
					want = *c.Hides
				}
				if st != c.Status || hides != want {
					mism++
					out.write(map[string]any{"entry": "content-script endpoint", "case": c, "expected": fmt.Sprintf("%d hiding %+v", c.Status, want), "got": fmt.Sprintf("%d hiding %+v", st, hides),
						"server_compresses": zi == 1})
				}
			}
		case "CASE":
			if c.Exp.Body == "tunnel" {
				tunnels++ // an upgraded connection is piped, there is no response to classify
				continue
			}
			evals++
			got, detail, err := env.exchange(c.Req, c.Ct)
			if err != nil {
				return fmt.Errorf("exchange %+v ct=%s: %v", c.Req, c.Ct, err)
			}
			if c.Exp.Body != "origin" {
				nontrivial++
			}
			if len(samples) < 6 && evals%397 == 5 {
				samples = append(samples, fmt.Sprintf("%+v content-type=%s -> %+v", c.Req, c.Ct, got))
			}
			if got != c.Exp.psOutcome {
				mism++
				out.write(map[string]any{"entry": "exchange", "case": c, "expected": c.Exp.psOutcome, "got": got, "detail": detail,
					"types": c.Exp.Type1 + "/" + c.Exp.Type2})
			}
		}
	}
	summary(map[string]any{"cases": len(recs), "evaluations": evals, "mismatches": mism, "tunnels_not_executed": tunnels, "script_cases": scripts,
		"nontrivial": nontrivial, "samples": samples})
	return nil
}

func cmdDriveSession(args []string) error {
	m := argMap(args)
	out, err := newNDWriter(m["out"])
	if err != nil {
		return err
	}
	defer out.close()
	blocked, docExc := psConfig(m)
	env, err := newPsEnv(blocked, docExc, false)
	if err != nil {
		return err
	}
	defer env.close()
	rnd := rand.New(rand.NewSource(seed()*211 + int64(len(m["blocked"]))))
	pick := func(mm map[string]string) string {
		ks := make([]string, 0, len(mm))
		for k := range mm {
			ks = append(ks, k)
		}
		sort.Strings(ks)
		return ks[rnd.Intn(len(ks))]
	}
	n := argInt(m, "n", 500)
	nontrivial := 0
	// several exchanges in flight at once: sessions do not share state
	type job struct {
		q  psReq
		ct string
	}
	jobs := make(chan job)
	var wg sync.WaitGroup
	var wmu sync.Mutex
	var firstErr error
	for w := 0; w < 4; w++ {
		wg.Add(1)
		go func() {
			defer wg.Done()
			for j := range jobs {
				got, _, err := env.exchange(j.q, j.ct)
				wmu.Lock()
				if err != nil && firstErr == nil {
					firstErr = fmt.Errorf("exchange %+v ct=%s: %v", j.q, j.ct, err)
				}
				if err == nil {
					if got.Body != "origin" {
						nontrivial++
					}
					out.write(map[string]any{"req": j.q, "ct": j.ct, "got": got})
				}
				wmu.Unlock()
			}
		}()
	}
	for i := 0; i < n; i++ {
		q := psReq{Upgrade: "none", Ping: rnd.Intn(8) == 0, FetchDest: pick(psFetchDest), Accept: pick(psAccept), Ext: pick(psExt), Cond: rnd.Intn(2) == 0,
			Area: []string{"main", "main", "nocss"}[rnd.Intn(3)]}
		if rnd.Intn(2) == 0 {
			q.FetchDest = []string{"none", "embed", "bogus"}[rnd.Intn(3)]
		}
		blockedWS := false
		for _, b := range blocked {
			blockedWS = blockedWS || b == "websocket"
		}
		if blockedWS && rnd.Intn(10) == 0 {
			q.Upgrade = "websocket"
		}
		jobs <- job{q, pick(psContentTypes)}
	}
	close(jobs)
	wg.Wait()
	if firstErr != nil {
		return firstErr
	}
	summary(map[string]any{"events": out.n, "nontrivial": nontrivial})
	return nil
}

func init() {
	register("replay-session", cmdReplaySession)
	register("drive-session", cmdDriveSession)
}
