package main

// C12: crash-freedom and the parse trichotomy; seeded line driver.

import (
	"fmt"
	"math/rand"
	"net/netip"
	"strings"

	"github.com/AdguardTeam/urlfilter"
	"github.com/AdguardTeam/urlfilter/filterlist"
	"github.com/AdguardTeam/urlfilter/rules"
)

type lineEvent struct {
	Ev      string `json:"ev"`
	Outcome string `json:"outcome"`
	Line    []int  `json:"line"`
	Trimmed []int  `json:"trimmed"`
	Text    []int  `json:"text"`
	ID      int    `json:"id"`
	GotID   int    `json:"gotid"`
	Kind    string `json:"kind"`
	Detail  string `json:"detail"`
}

var grammarLines = []string{
	"||example.org^", "@@||example.org^$important", "||example.org^$script,third-party,domain=a.com|~b.com",
	"example.org##.banner", "example.org#@#.banner", "~example.org##.x", "##.generic", "example.org#$#body { color: red }",
	"example.org#%#window.x = 1", "example.org$$script[data-src=\"banner\"]", "0.0.0.0 example.org", "::1 localhost ip6-localhost",
	"example.org", "127.0.0.1 a.b c.d # comment", "! comment", "# comment", "#", "", "   ", "\t", "/banner\\d+/", "/(/", "/[a-z/",
	"||example.org^$dnsrewrite=1.2.3.4", "||example.org^$dnsrewrite=NOERROR;MX;10 mx.example.org", "||example.org^$client='Frank\\'s laptop'|~10.0.0.0/8",
	"||example.org^$ctag=a|~b", "||example.org^$dnstype=A|~AAAA", "||example.org^$denyallow=x.com|y.com", "*$domain=example.org",
	"|http://example.org/|", "||example.org/*", "^$client=1.1.1.1", "a$domain=b.c", "||x^$badfilter", "@@||x^$document", "@@||x^$elemhide,generichide",
	"||example.org^$match-case", "||example.org^$~third-party,~script", "|https://*examp", "://", "||", "|", "*", "@@", "$", "$$", "##", "#@#", "$domain=",
	"||example.org^$", "||example.org^$,", "||example.org^$domain=", "||example.org^$client=", "||example.org^$dnsrewrite=;", "||a^$replace=/x/y/", "||a^$csp=script-src 'none'",
	"_$domain=example.org", "-$domain=b.c", "^$ctag=a", "/*$client=1.1.1.1", "~$dnstype=A", "%$denyallow=x.com",
	"! " + "----------------------------------------------------------------" + "||example.org^",
	"||example.org^$domain=example.*", "||example.org^$domain=*.example.org", "example.*##.x",
	"||example.org^$dnsrewrite=NOERROR;SRV;30 60 8080", "||example.org^$dnsrewrite=NOERROR;SRV;30 60", "||example.org^$dnsrewrite=NOERROR;SRV;1 2 3 a.b extra",
	"||example.org^$dnsrewrite=NOERROR;MX;10", "||example.org^$dnsrewrite=NOERROR;MX;", "||example.org^$dnsrewrite=NOERROR;SVCB;1", "||example.org^$dnsrewrite=NOERROR;HTTPS;1 .",
	"||example.org^$dnsrewrite=NOERROR;HTTPS;1 . alpn", "||example.org^$dnsrewrite=NOERROR;PTR;", "||example.org^$dnsrewrite=NOERROR;A;", "||example.org^$dnsrewrite=;;;",
	"||example.org^$client='", "||example.org^$client=~\"", "||example.org^$client=''", "||example.org^$client='a", "||example.org^$client=|", "||example.org^$ctag=~",
	// bytes that are not UTF-8 in a basic pattern, in a regular expression, in an option value, in a cosmetic rule
	"||exa\xffmple.org^", "/ad\xfe", "\xff\xfe$domain=b.c", "/[\xff]+/", "||example.org^$domain=ex\xffample.com", "example.org##.ban\xffner", "0.0.0.0 ex\xffample.org",
	// blank-only elements of a list-valued option, in the middle and at the ends
	"||example.org^$dnstype=A| |AAAA", "||example.org^$dnstype= |A", "||example.org^$dnstype=~ ", "||example.org^$ctag=a| |b", "||example.org^$client=a| |b",
	"||example.org^$domain=a.com| |b.com", "||example.org^$denyallow=a.com| ", "||example.org^$dnstype=A||AAAA", "||example.org^$domain=a.com||b.com",
	"||example.org^$domain=~", "||example.org^$denyallow=|", "||example.org^$dnstype=~", "||example.org^$client=~'", "$client='",
	"*$domain=co.*,script", "||example.org^$denyallow=edu.*", "co.*##.y", "edu.*,~act.edu.*##.z", "/x$domain=uk.*|co.*", "[Adblock Plus 2.0]", "||пример.рф^", "xn--e1afmkfd.xn--p1ai", "||example.org^$popup",
}

func observeParse(line string, id int) lineEvent {
	e := lineEvent{Ev: "parse", Line: bytesToInts(line), Trimmed: bytesToInts(strings.TrimSpace(line)), ID: id, Text: []int{}, Kind: ""}
	var r rules.Rule
	var err error
	pv := safeCall(func() { r, err = rules.NewRule(line, id) })
	switch {
	case pv != "":
		e.Outcome, e.Detail = "panic", pv
	case err != nil:
		e.Outcome = "error"
	case r == nil:
		e.Outcome = "nothing"
	default:
		// what comes back as a rule is used as one: its accessors are part of "parsing never crashes"
		if pv2 := safeCall(func() {
			e.Outcome = "rule"
			e.Kind = kindOfRule(r, nil)
			e.Text = bytesToInts(r.Text())
			e.GotID = r.GetFilterListID()
		}); pv2 != "" {
			e.Outcome, e.Detail, e.Kind, e.Text = "panic", "the value returned as a rule cannot be used: "+pv2, "", []int{}
		}
	}
	return e
}

func driveRequests(rnd *rand.Rand) (out []*rules.Request, panics []string) {
	// every request is built under a recover: a constructor that panics is an event of its own
	build := func(u, src string, t rules.RequestType) {
		var q *rules.Request
		if pv := safeCall(func() { q = rules.NewRequest(u, src, t) }); pv != "" {
			panics = append(panics, fmt.Sprintf("NewRequest(url of %d bytes, source of %d bytes): %s", len(u), len(src), pv))
			return
		}
		out = append(out, q)
	}
	long := strings.Repeat("http://a/", 600)
	for _, pr := range [][2]string{{"http://example.org/x", long}, {long, "http://example.org/"}, {long, long + "x"}, {"http://b/" + long, long},
		{"http://example.org/\u212a\u0130\u212b/x", ""}, {"http://example.org/?q=\u212a", "http://\u0130.example/"}, {"HTTP://EXAMPLE.ORG/\u00c4\u1e9e", ""}} {
		build(pr[0], pr[1], rules.TypeScript)
	}
	urls := []string{"http://co.uk/", "https://act.edu.au/x", "http://example.org/", "https://sub.example.org/ads/banner1.js?x=1", "http://localhost/", "https://example.com/a/b", "ws://x/", "", "http://", "://", "http://[::1]:8080/x", "stun:example.org", strings.Repeat("http://a/", 600)}
	for _, u := range urls {
		build(u, urls[rnd.Intn(len(urls))], rules.RequestType(1<<uint(rnd.Intn(12))))
	}
	// requests that satisfy the restricting modifiers short patterns need, so that their pattern is really evaluated
	for _, src := range []string{"http://example.org/", "http://b.c/", "https://sub.example.org/x"} {
		build("http://example.org/_-^~%/a*b", src, rules.TypeScript)
	}
	for _, h := range []string{"example.org", "a_b-c.example.org"} {
		q := rules.NewRequestForHostname(h)
		q.ClientIP = netip.MustParseAddr("1.1.1.1")
		q.SortedClientTags = []string{"a"}
		q.DNSType = 1
		out = append(out, q)
	}
	for _, h := range []string{"example.org", "sub.example.org", "localhost", "1.2.3.4", "", ".", "a..b", "::1", strings.Repeat("a", 300),
		"co.uk", "act.edu.au", "uk", "github.io", "example.co.uk"} {
		q := rules.NewRequestForHostname(h)
		q.ClientName = "Frank's laptop"
		q.SortedClientTags = []string{"a", "b"}
		q.DNSType = 1
		out = append(out, q)
	}
	return out, panics
}

// vh drive-lines n=<lines> out=<trace.ndjson>
func cmdDriveLines(args []string) error {
	m := argMap(args)
	n := argInt(m, "n", 20000)
	out, err := newNDWriter(m["out"])
	if err != nil {
		return err
	}
	defer out.close()
	rnd := rand.New(rand.NewSource(seed()*977 + 11))
	listLines := listRuleLines(repoDir())
	reqs, reqPanics := driveRequests(rnd)
	counts := map[string]int{}
	for _, rp := range reqPanics {
		counts["request-panic"]++
		out.write(lineEvent{Ev: "request", Outcome: "panic", Detail: rp, Line: []int{}, Trimmed: []int{}, Text: []int{}})
	}
	var batch []string
	var samples []string
	flush := func() {
		if len(batch) == 0 {
			return
		}
		e := lineEvent{Ev: "engine", Outcome: "ok", Line: []int{}, Trimmed: []int{}, Text: []int{}}
		var sep string
		switch rnd.Intn(3) {
		case 0:
			sep = "\n"
		case 1:
			sep = "\r\n"
		default:
			sep = "\n\n"
		}
		text := strings.Join(batch, sep)
		listID := []int{1, 0, -3}[rnd.Intn(3)]
		if rnd.Intn(2) == 0 {
			// the very first line (storage offset 0 of its list) is a rule the requests ask for
			text = []string{"0.0.0.0 example.org", "||example.org^", "example.org"}[rnd.Intn(3)] + sep + text
		}
		// answers of both engines to the whole request universe, as one text
		answers := func(text string) string {
			var b strings.Builder
			st, err := filterlist.NewRuleStorage([]filterlist.RuleList{&filterlist.StringRuleList{ID: listID, RulesText: text}})
			if err != nil {
				panic(err)
			}
			eng := urlfilter.NewEngine(st)
			dns := urlfilter.NewDNSEngine(st)
			for _, q := range reqs {
				if q.IsHostnameRequest {
					res, m := dns.MatchRequest(&urlfilter.DNSRequest{Hostname: q.Hostname, ClientName: q.ClientName, ClientIP: q.ClientIP, SortedClientTags: q.SortedClientTags, DNSType: q.DNSType})
					rw := res.DNSRewrites()
					fmt.Fprintf(&b, "dns %q: %v net=%v v4=%d v6=%d rw=%v\n", q.Hostname, m, textsOf(res.NetworkRules), len(res.HostRulesV4), len(res.HostRulesV6), textsOf(rw))
				} else {
					mr := eng.MatchRequest(q)
					br := mr.GetBasicResult()
					cr := eng.GetCosmeticResult(q.Hostname, mr.GetCosmeticOption())
					bt := ""
					if br != nil {
						bt = br.RuleText
					}
					fmt.Fprintf(&b, "web %q: %s cos=%v|%v\n", q.URL, bt, cr.ElementHiding.Generic, cr.ElementHiding.Specific)
				}
			}
			return b.String()
		}
		var plain string
		pv := safeCall(func() { plain = answers(text) })
		if pv == "" {
			// comments and blank lines are inert: the same list behind two lines of noise answers the same
			ne := lineEvent{Ev: "noise", Outcome: "ok", Line: []int{}, Trimmed: []int{}, Text: []int{}}
			var noisy string
			noise := "! a comment in front\n\n"
			if rnd.Intn(5) == 0 {
				noise = strings.Repeat("! "+strings.Repeat("-", 1000)+"\r\n\n", 70) + noise // 70 KB of it
			}
			if pv2 := safeCall(func() { noisy = answers(noise + text) }); pv2 != "" {
				ne.Outcome, ne.Detail = "panic", pv2
			} else if noisy != plain {
				ne.Outcome = "differs"
				pl, nl := strings.Split(plain, "\n"), strings.Split(noisy, "\n")
				for k := range pl {
					if k < len(nl) && pl[k] != nl[k] {
						ne.Detail = fmt.Sprintf("list id %d: without noise %s / with noise %s | lines: %s", listID, pl[k], nl[k], strings.Join(batch, " ⏎ "))
						break
					}
				}
			}
			counts["noise-"+ne.Outcome]++
			out.write(ne)
		}
		if pv != "" {
			e.Outcome, e.Detail = "panic", pv+" | lines: "+strings.Join(batch, " ⏎ ")
		}
		counts["engine-"+e.Outcome]++
		out.write(e)
		batch = batch[:0]
	}
	for i := 0; i < n; i++ {
		var line string
		switch rnd.Intn(5) {
		case 0:
			line = grammarLines[rnd.Intn(len(grammarLines))]
		case 1:
			line = mutateBytes(rnd, grammarLines[rnd.Intn(len(grammarLines))])
		case 2:
			line = listLines[rnd.Intn(len(listLines))]
		default:
			line = mutateBytes(rnd, listLines[rnd.Intn(len(listLines))])
		}
		if rnd.Intn(40) == 0 {
			line = "! " + strings.Repeat("-", 4090+rnd.Intn(12)) + line
		}
		if rnd.Intn(6) == 0 {
			line = []string{" ", "\t", " ", "\r"}[rnd.Intn(4)] + line + []string{" ", "\r", "\t \t"}[rnd.Intn(3)]
		}
		if strings.ContainsAny(line, "\n") {
			continue
		}
		id := []int{1, 0, -7, 2147483647, -2147483648}[rnd.Intn(5)]
		e := observeParse(line, id)
		counts["parse-"+e.Outcome]++
		out.write(e)
		if len(samples) < 6 && i%1777 == 13 {
			samples = append(samples, fmt.Sprintf("%q -> %s %s", line, e.Outcome, e.Kind))
		}
		if e.Outcome == "rule" && e.Kind == "net" {
			// matching a parsed rule against the request universe terminates normally
			me := lineEvent{Ev: "match", Outcome: "ok", Line: bytesToInts(line), Trimmed: []int{}, Text: []int{}}
			pv := safeCall(func() {
				r, _ := rules.NewRule(line, id)
				nr := r.(*rules.NetworkRule)
				for _, q := range reqs {
					_ = nr.Match(q)
				}
			})
			if pv != "" {
				me.Outcome, me.Detail = "panic", pv
			}
			counts["match-"+me.Outcome]++
			out.write(me)
		}
		batch = append(batch, line)
		if rnd.Intn(25) == 0 {
			// a family of near-twins in the same list: a rule, the rule with one modifier less, and their $badfilter
			// versions - all of them match the hostname requests above, so every pair is compared when a query runs
			pool := []string{"client=1.1.1.1", "client='Frank\\'s laptop'", "ctag=a", "dnstype=A", "denyallow=x.com", "important", "ctag=~zz", "client=~9.9.9.9"}
			rnd.Shuffle(len(pool), func(i, j int) { pool[i], pool[j] = pool[j], pool[i] })
			opts := pool[:1+rnd.Intn(3)]
			pat := []string{"||example.org^", "@@||example.org^"}[rnd.Intn(2)]
			fam := []string{pat, pat + "$badfilter", pat + "$" + strings.Join(opts, ","), pat + "$" + strings.Join(opts, ",") + ",badfilter"}
			if len(opts) > 1 {
				fam = append(fam, pat+"$"+strings.Join(opts[1:], ","), pat+"$"+strings.Join(opts[1:], ",")+",badfilter")
			}
			rnd.Shuffle(len(fam), func(i, j int) { fam[i], fam[j] = fam[j], fam[i] })
			batch = append(batch, fam[:2+rnd.Intn(len(fam)-1)]...)
		}
		if len(batch) >= 40 {
			flush()
		}
	}
	flush()
	summary(map[string]any{"events": out.n, "counts": counts, "samples": samples})
	return nil
}

func init() {
	register("drive-lines", cmdDriveLines)
}
