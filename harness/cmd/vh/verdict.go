package main

// C06 / C07 (selection) / C08: replay of TLC-enumerated verdict cases (a bag of
// rules matching one request, a set of rules matching its referrer, the class
// and the admissible winners computed by spec/Verdict.tla) through
// rules.NewMatchingResult, rules.GetDNSBasicRule, urlfilter.Engine,
// urlfilter.NetworkEngine and urlfilter.DNSEngine, for every permutation and
// several splits into lists.

import (
	"fmt"
	"math/rand"
	"sort"
	"strings"

	"github.com/AdguardTeam/urlfilter"
	"github.com/AdguardTeam/urlfilter/filterlist"
	"github.com/AdguardTeam/urlfilter/rules"
	"github.com/miekg/dns"
)

type verdictRec struct {
	Kind       string  `json:"kind"`
	Main       []aRule `json:"main,omitempty"`
	Src        []aRule `json:"src,omitempty"`
	Bag        []int   `json:"bag,omitempty"`
	Sb         []int   `json:"sb,omitempty"`
	Web        string  `json:"web,omitempty"`
	Winners    []int   `json:"winners,omitempty"`
	Cands      []int   `json:"cands,omitempty"`
	DNS        string  `json:"dns,omitempty"`
	DNSWinners []int   `json:"dnswinners,omitempty"`
	DNSCands   []int   `json:"dnscands,omitempty"`
	// DocWinners: the referrer-level exceptions (indexes into the src pool) that may be reported when no rule of the
	// request itself decides
	DocWinners []int `json:"docwinners,omitempty"`
	// Web2 / Winners2 / Cands2: the verdict for a script request to the same URL from the same page
	Web2     string `json:"web2,omitempty"`
	Winners2 []int  `json:"winners2,omitempty"`
	Cands2   []int  `json:"cands2,omitempty"`
}

type verdictMismatch struct {
	Entry    string     `json:"entry"`
	Rules    []string   `json:"rules"`
	SrcRules []string   `json:"source_rules"`
	Lists    [][]string `json:"lists,omitempty"`
	Expected string     `json:"expected"`
	Got      string     `json:"got"`
	GotRule  string     `json:"got_rule"`
	Why      string     `json:"why"`
	Cause    string     `json:"cause"`
	Case     verdictRec `json:"case"`
}

func classOf(r *rules.NetworkRule) string {
	switch {
	case r == nil:
		return "none"
	case r.Whitelist:
		return "allow"
	default:
		return "block"
	}
}

func permutations(n int) [][]int {
	var out [][]int
	p := make([]int, n)
	for i := range p {
		p[i] = i
	}
	var rec func(k int)
	rec = func(k int) {
		if k == n {
			out = append(out, append([]int{}, p...))
			return
		}
		for i := k; i < n; i++ {
			p[k], p[i] = p[i], p[k]
			rec(k + 1)
			p[k], p[i] = p[i], p[k]
		}
	}
	rec(0)
	return out
}

func inInts(xs []int, x int) bool {
	for _, y := range xs {
		if x == y {
			return true
		}
	}
	return false
}

type verdictEnv struct {
	mainText, srcText []string
	mainRule, srcRule []*rules.NetworkRule
	hostLevel         []bool
	req               *rules.Request
	dnsReq            *urlfilter.DNSRequest
}

const verdictURL, verdictSrcURL, verdictHost = "http://h.test/", "http://src.test/", "h.test"

// verdictSubst rewrites a pool rule for the variant "referrer under a private public suffix, on a page below /dir/": the
// $domain values become github.io, the referrer-level patterns name the site and the directory, and the request-level
// patterns become too short for the shortcut index.
func verdictSubst(t string) string {
	t = strings.ReplaceAll(t, "||src.test^", "||user.github.io/dir/")
	t = strings.ReplaceAll(t, "src.test", "github.io")
	// (the pool's second spelling of the same pattern, "||h.test/*", goes the same way: it is the same rule)
	t = strings.ReplaceAll(t, "||h.test/*/*", "||h.t*/*")
	t = strings.ReplaceAll(t, "||h.test/*", "||h.t*")
	return strings.ReplaceAll(t, "||h.test^", "||h.t*")
}

func newVerdictReq() *rules.Request {
	r := rules.NewRequest(verdictURL, verdictSrcURL, rules.TypeDocument)
	r.SortedClientTags = []string{"t1"}
	r.ClientName = "phone"
	r.DNSType = dns.TypeA
	return r
}

func loadVerdictPool(rec *verdictRec) (*verdictEnv, error) {
	e := &verdictEnv{req: newVerdictReq()}
	e.dnsReq = &urlfilter.DNSRequest{Hostname: verdictHost, SortedClientTags: []string{"t1"}, ClientName: "phone", DNSType: dns.TypeA}
	srcReq := rules.NewRequest(verdictSrcURL, "", rules.TypeDocument)
	rnd := rand.New(rand.NewSource(1))
	seen := map[string]bool{}
	for i := range rec.Main {
		t := rec.Main[i].text(0, rnd)
		r, err := rules.NewNetworkRule(t, 1)
		if err != nil {
			return nil, rejectedErr("pool rule %q rejected: %v", t, err)
		}
		if err = checkRendered(&rec.Main[i], r); err != nil {
			return nil, rejectedErr("the rule %q is parsed differently from what the specification says: %v", t, err)
		}
		if seen[t] {
			return nil, fmt.Errorf("pool text %q twice", t)
		}
		seen[t] = true
		if !r.Match(e.req) {
			return nil, fmt.Errorf("pool rule %q does not match the replay request", t)
		}
		e.mainText = append(e.mainText, t)
		e.mainRule = append(e.mainRule, r)
		e.hostLevel = append(e.hostLevel, r.IsHostLevelNetworkRule())
	}
	for i := range rec.Src {
		t := rec.Src[i].text(0, rnd)
		r, err := rules.NewNetworkRule(t, 1)
		if err != nil {
			return nil, rejectedErr("pool rule %q rejected: %v", t, err)
		}
		if !r.Match(srcReq) || r.Match(e.req) {
			return nil, fmt.Errorf("source pool rule %q does not match exactly the referrer request", t)
		}
		if seen[t] {
			return nil, fmt.Errorf("pool text %q twice", t)
		}
		seen[t] = true
		e.srcText = append(e.srcText, t)
		e.srcRule = append(e.srcRule, r)
	}
	for i, r := range e.mainRule {
		if r.Match(srcReq) {
			return nil, fmt.Errorf("main pool rule %q also matches the referrer request", e.mainText[i])
		}
	}
	return e, nil
}

func verdictCause(e *verdictEnv, c *verdictRec) string {
	bf, docs := 0, 0
	for _, i := range c.Bag {
		if e.mainRule[i-1].IsOptionEnabled(rules.OptionBadfilter) {
			bf++
		}
	}
	for _, j := range c.Sb {
		r := e.srcRule[j-1]
		if r.IsOptionEnabled(rules.OptionBadfilter) {
			bf++
		} else if r.Whitelist && (r.IsOptionEnabled(rules.OptionUrlblock) || r.IsOptionEnabled(rules.OptionGenericblock)) {
			docs++
		}
	}
	switch {
	case bf >= 2:
		return "several-badfilter-rules"
	case bf == 1:
		return "badfilter"
	case docs >= 2:
		return "several-document-level-referrer-exceptions"
	default:
		return "other"
	}
}

func safeCall(f func()) (panicV string) {
	defer func() {
		if x := recover(); x != nil {
			panicV = fmt.Sprint(x)
		}
	}()
	f()
	return ""
}

func buildStorage(lists [][]string) (*filterlist.RuleStorage, error) {
	var texts []string
	for _, l := range lists {
		texts = append(texts, strings.Join(l, "\n"))
	}
	// the list ids rotate too: 0 is an id like any other
	layoutMu.Lock()
	k := layoutCounter
	layoutMu.Unlock()
	ids := [][]int{{7, -5, 0, 2147483647}, {0, 3, -1, 9}, {-2147483648, 0, 5, 1}}[k%3]
	return layoutStorage(texts, ids)
}

func splitLists(texts []string, k int, rnd *rand.Rand) [][]string {
	if k <= 1 || len(texts) < 2 {
		return [][]string{texts}
	}
	lists := make([][]string, k)
	for _, t := range texts {
		i := rnd.Intn(k)
		lists[i] = append(lists[i], t)
	}
	var out [][]string
	for _, l := range lists {
		if len(l) > 0 {
			out = append(out, l)
		}
	}
	return out
}

// vh replay-verdict in=<cases.ndjson> out=<mismatches.ndjson>
func cmdReplayVerdict(args []string) error {
	m := argMap(args)
	recs, err := readND[verdictRec](m["in"])
	if err != nil {
		return err
	}
	out, err := newNDWriter(m["out"])
	if err != nil {
		return err
	}
	defer out.close()
	var env *verdictEnv
	var pool *verdictRec
	for i := range recs {
		if recs[i].Kind == "POOL" {
			pool = &recs[i]
			if env, err = loadVerdictPool(pool); err != nil {
				return err
			}
		}
	}
	if env == nil {
		return fmt.Errorf("no POOL record")
	}
	rnd := rand.New(rand.NewSource(seed()))
	perms := map[int][][]int{}
	for n := 0; n <= 5; n++ {
		perms[n] = permutations(n)
	}
	cases, evals, mism, nontrivial := 0, 0, 0, 0
	byEntry := map[string]int{}
	var samples []map[string]any
	report := func(c *verdictRec, entry string, main, src []string, lists [][]string, exp, got, gotRule, why string) {
		mism++
		cc := *c
		cc.Main, cc.Src = pool.Main, pool.Src
		out.write(verdictMismatch{Entry: entry, Rules: main, SrcRules: src, Lists: lists, Expected: exp, Got: got, GotRule: gotRule,
			Why: why, Cause: verdictCause(env, c), Case: cc})
	}
	for ci := range recs {
		c := &recs[ci]
		if c.Kind != "CASE" {
			continue
		}
		cases++
		sort.Ints(c.Bag)
		sort.Ints(c.Sb)
		if c.Web != "none" || c.DNS != "none" {
			nontrivial++
		}
		nb, ns := len(c.Bag), len(c.Sb)
		if len(samples) < 5 && nb >= 2 && cases%211 == 0 {
			var mt, st []string
			for _, i := range c.Bag {
				mt = append(mt, env.mainText[i-1])
			}
			for _, j := range c.Sb {
				st = append(st, env.srcText[j-1])
			}
			samples = append(samples, map[string]any{"rules": mt, "referrer_rules": st, "web": c.Web, "dns": c.DNS})
		}
		allHostLevel := true
		for _, i := range c.Bag {
			if !env.hostLevel[i-1] {
				allHostLevel = false
			}
		}
		check := func(entry string, p, sp []int, lists [][]string, expClass string, winners, cands []int, got *rules.NetworkRule, fromDoc bool, pv string) {
			evals++
			byEntry[entry]++
			var mt, st []string
			for _, k := range p {
				mt = append(mt, env.mainText[c.Bag[k]-1])
			}
			for _, k := range sp {
				st = append(st, env.srcText[c.Sb[k]-1])
			}
			if pv != "" {
				report(c, entry, mt, st, lists, expClass, "panic", "", pv)
				return
			}
			gc := classOf(got)
			gt := ""
			if got != nil {
				gt = got.RuleText
			}
			if gc != expClass {
				report(c, entry, mt, st, lists, expClass, gc, gt, "verdict class")
				return
			}
			if got != nil && fromDoc {
				// the verdict comes from a referrer-level exception: it must be one that no other one outranks
				dj := -1
				for _, j := range c.Sb {
					if env.srcText[j-1] == gt || verdictSubst(env.srcText[j-1]) == gt {
						dj = j
					}
				}
				if dj < 0 || !inInts(c.DocWinners, dj) {
					report(c, entry, mt, st, lists, expClass, gc, gt, "reported referrer-level exception is not an admissible winner")
				}
				return
			}
			if got == nil || fromDoc {
				return
			}
			// the reported rule is one of the admissible winners and no candidate outranks it (C07)
			wi := -1
			for _, i := range c.Bag {
				if env.mainText[i-1] == gt {
					wi = i
				}
			}
			if wi < 0 || !inInts(winners, wi) {
				report(c, entry, mt, st, lists, expClass, gc, gt, "reported rule is not an admissible winner")
				return
			}
			for _, i := range cands {
				if env.mainRule[i-1].IsHigherPriority(got) && !got.IsHigherPriority(env.mainRule[i-1]) {
					report(c, entry, mt, st, lists, expClass, gc, gt, "reported rule is outranked by candidate "+env.mainText[i-1])
					return
				}
			}
		}
		// (a) NewMatchingResult on every permutation, (b) GetDNSBasicRule
		for _, p := range perms[nb] {
			mr := make([]*rules.NetworkRule, nb)
			for k, x := range p {
				mr[k] = env.mainRule[c.Bag[x]-1]
			}
			for _, sp := range perms[ns] {
				sr := make([]*rules.NetworkRule, ns)
				for k, x := range sp {
					sr[k] = env.srcRule[c.Sb[x]-1]
				}
				var got *rules.NetworkRule
				fromDoc := false
				pv := safeCall(func() {
					res := rules.NewMatchingResult(append([]*rules.NetworkRule{}, mr...), append([]*rules.NetworkRule{}, sr...))
					got = res.GetBasicResult()
					fromDoc = res.BasicRule == nil
				})
				check("NewMatchingResult", p, sp, nil, c.Web, c.Winners, c.Cands, got, fromDoc, pv)
			}
			if ns == 0 {
				var got *rules.NetworkRule
				pv := safeCall(func() { got = rules.GetDNSBasicRule(append([]*rules.NetworkRule{}, mr...)) })
				check("GetDNSBasicRule", p, nil, nil, c.DNS, c.DNSWinners, c.DNSCands, got, false, pv)
			}
		}
		// (a') the same rules present twice (as in two lists carrying the same line): the verdict is a function of the SET
		// of matching rules, so it is the one of the bag; the copies are placed at seeded positions
		if nb > 0 {
			for rep := 0; rep < 2; rep++ {
				p := perms[nb][rnd.Intn(len(perms[nb]))]
				sp := perms[ns][rnd.Intn(len(perms[ns]))]
				var mr, sr []*rules.NetworkRule
				for _, x := range p {
					mr = append(mr, env.mainRule[c.Bag[x]-1])
				}
				for _, x := range p {
					if rep == 1 && env.mainRule[c.Bag[x]-1].IsOptionEnabled(rules.OptionBadfilter) {
						continue // second round: one $badfilter rule has to disable both copies of its target
					}
					twin, err := rules.NewNetworkRule(env.mainText[c.Bag[x]-1], 99)
					if err != nil {
						return err
					}
					pos := rnd.Intn(len(mr) + 1)
					mr = append(mr[:pos], append([]*rules.NetworkRule{twin}, mr[pos:]...)...)
				}
				for _, x := range sp {
					sr = append(sr, env.srcRule[c.Sb[x]-1])
				}
				var got *rules.NetworkRule
				fromDoc := false
				pv := safeCall(func() {
					res := rules.NewMatchingResult(append([]*rules.NetworkRule{}, mr...), append([]*rules.NetworkRule{}, sr...))
					got = res.GetBasicResult()
					fromDoc = res.BasicRule == nil
				})
				check("NewMatchingResult(each rule twice)", p, sp, [][]string{textsOf(mr)}, c.Web, c.Winners, c.Cands, got, fromDoc, pv)
				if ns == 0 {
					pv = safeCall(func() { got = rules.GetDNSBasicRule(append([]*rules.NetworkRule{}, mr...)) })
					check("GetDNSBasicRule(each rule twice)", p, nil, [][]string{textsOf(mr)}, c.DNS, c.DNSWinners, c.DNSCands, got, false, pv)
				}
				// through the engine: two lists, each with one copy of every rule
				var l1, l2 []string
				for _, x := range p {
					l1 = append(l1, env.mainText[c.Bag[x]-1])
				}
				for _, x := range sp {
					l1 = append(l1, env.srcText[c.Sb[x]-1])
				}
				for _, t := range l1 {
					if rep == 1 && strings.Contains(t, "badfilter") {
						continue
					}
					l2 = append(l2, t)
				}
				if len(l2) == 0 {
					continue
				}
				rnd.Shuffle(len(l2), func(i, j int) { l2[i], l2[j] = l2[j], l2[i] })
				st, err := buildStorage([][]string{l1, l2})
				if err != nil {
					return err
				}
				pv = safeCall(func() {
					res := urlfilter.NewEngine(st).MatchRequest(newVerdictReq())
					got = res.GetBasicResult()
					fromDoc = res.BasicRule == nil
				})
				check("Engine.MatchRequest(two lists with the same rules)", p, sp, [][]string{l1, l2}, c.Web, c.Winners, c.Cands, got, fromDoc, pv)
			}
		}
		// (c)-(e) engines: two seeded permutations, split into 1..3 lists
		for rep := 0; rep < 2; rep++ {
			p := perms[nb][rnd.Intn(len(perms[nb]))]
			sp := perms[ns][rnd.Intn(len(perms[ns]))]
			var texts []string
			for _, x := range p {
				texts = append(texts, env.mainText[c.Bag[x]-1])
			}
			for _, x := range sp {
				pos := rnd.Intn(len(texts) + 1)
				texts = append(texts[:pos], append([]string{env.srcText[c.Sb[x]-1]}, texts[pos:]...)...)
			}
			if len(texts) == 0 {
				continue
			}
			lists := splitLists(texts, 1+rnd.Intn(3), rnd)
			st, err := buildStorage(lists)
			if err != nil {
				return err
			}
			var got *rules.NetworkRule
			fromDoc := false
			pv := safeCall(func() {
				res := urlfilter.NewEngine(st).MatchRequest(newVerdictReq())
				got = res.GetBasicResult()
				fromDoc = res.BasicRule == nil
			})
			check("Engine.MatchRequest", p, sp, lists, c.Web, c.Winners, c.Cands, got, fromDoc, pv)
			if rep == 1 && c.Web2 != "" {
				// a script of the same page: document-level rules of the bag do not apply to it
				pv2 := safeCall(func() {
					q := rules.NewRequest(verdictURL, verdictSrcURL, rules.TypeScript)
					q.SortedClientTags, q.ClientName, q.DNSType = []string{"t1"}, "phone", dns.TypeA
					res := urlfilter.NewEngine(st).MatchRequest(q)
					got = res.GetBasicResult()
					fromDoc = res.BasicRule == nil
				})
				check("Engine.MatchRequest(script request)", p, sp, lists, c.Web2, c.Winners2, c.Cands2, got, fromDoc, pv2)
			}
			if rep == 0 {
				// the same bag with the referrer under a private public suffix (user.github.io, $domain=github.io) and
				// patterns too short for the shortcut index ("||h.t*"), so that the rules are filed under their $domain:
				// nothing the verdict depends on has changed
				subst := verdictSubst
				var l2 [][]string
				for _, l := range lists {
					var x []string
					for _, t := range l {
						x = append(x, subst(t))
					}
					l2 = append(l2, x)
				}
				st2, err := buildStorage(l2)
				if err != nil {
					return err
				}
				var got2 *rules.NetworkRule
				pv2 := safeCall(func() {
					q := rules.NewRequest(verdictURL, "http://user.github.io/dir/page.html", rules.TypeDocument)
					q.SortedClientTags, q.ClientName, q.DNSType = []string{"t1"}, "phone", dns.TypeA
					res := urlfilter.NewEngine(st2).MatchRequest(q)
					got2 = res.GetBasicResult()
					fromDoc = res.BasicRule == nil
				})
				if got2 != nil && !fromDoc {
					// back to the pool's own rule object, for the winner checks
					var back *rules.NetworkRule
					for _, i := range c.Bag {
						if subst(env.mainText[i-1]) == got2.RuleText {
							back = env.mainRule[i-1]
						}
					}
					if back == nil {
						back = got2
					}
					got2 = back
				}
				check("Engine.MatchRequest(referrer under a private suffix, rules filed by $domain)", p, sp, l2, c.Web, c.Winners, c.Cands, got2, fromDoc, pv2)
			}
			if ns == 0 {
				pv = safeCall(func() { got, _ = urlfilter.NewNetworkEngine(st).Match(newVerdictReq()) })
				check("NetworkEngine.Match", p, sp, lists, c.Web, c.Winners, c.Cands, got, false, pv)
				if allHostLevel {
					var matched bool
					var netRules []*rules.NetworkRule
					pv = safeCall(func() {
						var res *urlfilter.DNSResult
						res, matched = urlfilter.NewDNSEngine(st).MatchRequest(env.dnsReq)
						got = res.NetworkRule
						_ = res.DNSRewrites()
						netRules = res.NetworkRules
					})
					check("DNSEngine.MatchRequest", p, sp, lists, c.DNS, c.DNSWinners, c.DNSCands, got, false, pv)
					if pv == "" && matched != (got != nil) {
						report(c, "DNSEngine.MatchRequest", texts, nil, lists, c.DNS, classOf(got), "", "matched flag")
					}
					if pv == "" {
						// every rule of the bag matches the request: NetworkRules is the bag, each rule once
						a, b := append([]string{}, texts...), textsOf(netRules)
						sort.Strings(a)
						sort.Strings(b)
						if strings.Join(a, "\n") != strings.Join(b, "\n") {
							report(c, "DNSEngine.MatchRequest", texts, nil, lists, strings.Join(a, " | "), strings.Join(b, " | "), "", "NetworkRules is not the list of matching rules")
						}
					}
				}
			}
		}
	}
	summary(map[string]any{"cases": cases, "evaluations": evals, "mismatches": mism, "nontrivial": nontrivial,
		"by_entry": byEntry, "samples": samples})
	return nil
}

func init() {
	register("replay-verdict", cmdReplayVerdict)
}

// ---- code -> spec: random bags ----

type verdictEvent struct {
	Rules []*aRule `json:"rules"`
	Src   []*aRule `json:"src"`
	DNS   bool     `json:"dns"`
	Entry string   `json:"entry"`
	Class string   `json:"class"`
	Rule  int      `json:"rule"`
	Texts []string `json:"texts"`
	SrcT  []string `json:"src_texts"`
}

func rndVerdictRule(rnd *rand.Rand, src bool, k int) *aRule {
	pat := "||h.test^"
	if src {
		pat = "||src.test^"
	}
	r := emptyRule(pat)
	has := func(p int) bool { return rnd.Intn(100) < p }
	r.White = has(45)
	r.Important = has(25)
	if !src && has(35) {
		r.PermDom = hostsOf([]string{"src.test"})
	}
	if has(25) {
		r.Third = "on"
	}
	if src {
		r.Third = "none"
	}
	if has(20) {
		r.RestTypes = []string{[]string{"script", "image", "media"}[rnd.Intn(3)]}
	}
	if r.White && has(40) {
		r.DocOpts = [][]string{{"urlblock"}, {"genericblock"}, {"elemhide"}, {"elemhide", "jsinject", "urlblock", "content", "extension"}, {"urlblock", "genericblock"}}[rnd.Intn(5)]
	} else if r.White && has(10) {
		r.Misc = []string{"stealth"}
	}
	if has(12) {
		r.Rewrite = [][]int{bytesToInts([]string{"1.2.3.4", "NXDOMAIN", "c.test"}[rnd.Intn(3)])}
	}
	if !src && has(15) {
		r.RestDom = hostsOf([]string{fmt.Sprintf("x%d.test", k%3)})
	}
	return r
}

// vh drive-verdict n=<events> out=<trace.ndjson>
func cmdDriveVerdict(args []string) error {
	m := argMap(args)
	n := argInt(m, "n", 5000)
	out, err := newNDWriter(m["out"])
	if err != nil {
		return err
	}
	defer out.close()
	rnd := rand.New(rand.NewSource(seed()*23 + 8))
	req := newVerdictReq()
	srcReq := rules.NewRequest(verdictSrcURL, "", rules.TypeDocument)
	nontrivial := 0
	var samples []any
	for out.n < n {
		ev := verdictEvent{Rules: []*aRule{}, Src: []*aRule{}, Texts: []string{}, SrcT: []string{}}
		var objs, sobjs []*rules.NetworkRule
		seen := map[string]bool{}
		add := func(a *aRule, src bool) bool {
			t := a.text(rnd.Intn(3), rnd)
			key := a.text(0, rand.New(rand.NewSource(1)))
			if seen[key] {
				return false
			}
			r, perr := rules.NewNetworkRule(t, 1)
			if perr != nil {
				return false
			}
			if src {
				if !r.Match(srcReq) || r.Match(req) {
					return false
				}
				ev.Src, sobjs, ev.SrcT = append(ev.Src, a), append(sobjs, r), append(ev.SrcT, t)
			} else {
				if !r.Match(req) || r.Match(srcReq) {
					return false
				}
				ev.Rules, objs, ev.Texts = append(ev.Rules, a), append(objs, r), append(ev.Texts, t)
			}
			seen[key] = true
			return true
		}
		nb := rnd.Intn(13)
		for k := 0; k < nb; k++ {
			a := rndVerdictRule(rnd, false, k)
			if add(a, false) && rnd.Intn(5) == 0 {
				// its $badfilter twin, sometimes
				b := *a
				b.Badfilter = true
				add(&b, false)
			}
		}
		ev.DNS = rnd.Intn(3) == 0
		if !ev.DNS {
			for k := 0; k < rnd.Intn(4); k++ {
				a := rndVerdictRule(rnd, true, k)
				if a.Misc != nil && len(a.Misc) > 0 && len(a.DocOpts) > 0 {
					continue
				}
				if add(a, true) && rnd.Intn(6) == 0 {
					b := *a
					b.Badfilter = true
					add(&b, true)
				}
			}
		}
		// the order the code sees is a random permutation
		rnd.Shuffle(len(objs), func(i, j int) {
			objs[i], objs[j] = objs[j], objs[i]
			ev.Rules[i], ev.Rules[j] = ev.Rules[j], ev.Rules[i]
			ev.Texts[i], ev.Texts[j] = ev.Texts[j], ev.Texts[i]
		})
		var got *rules.NetworkRule
		fromDoc := false
		pv := safeCall(func() {
			if ev.DNS {
				ev.Entry = "GetDNSBasicRule"
				got = rules.GetDNSBasicRule(append([]*rules.NetworkRule{}, objs...))
			} else {
				ev.Entry = "NewMatchingResult"
				res := rules.NewMatchingResult(append([]*rules.NetworkRule{}, objs...), append([]*rules.NetworkRule{}, sobjs...))
				got = res.GetBasicResult()
				fromDoc = res.BasicRule == nil
			}
		})
		ev.Class = classOf(got)
		if pv != "" {
			ev.Class = "panic " + pv
		}
		if got != nil && !fromDoc {
			for i, o := range objs {
				if o == got {
					ev.Rule = i + 1
				}
			}
			if ev.Rule == 0 {
				ev.Class = "reported a rule that was not given"
			}
		}
		if ev.Class != "none" {
			nontrivial++
		}
		if len(samples) < 3 && len(ev.Texts) >= 4 && out.n%211 == 7 {
			samples = append(samples, map[string]any{"rules": ev.Texts, "referrer": ev.SrcT, "class": ev.Class})
		}
		out.write(ev)
	}
	summary(map[string]any{"events": out.n, "nontrivial": nontrivial, "samples": samples})
	return nil
}

func init() {
	register("drive-verdict", cmdDriveVerdict)
}
