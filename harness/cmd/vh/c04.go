package main

// C04: replay of TLC-enumerated (rule, request-universe) rows into
// rules.NewNetworkRule / NetworkRule.Match, and the grammar-random trace
// driver whose events are validated by spec/Trace_Rule.tla.

import (
	"encoding/json"
	"fmt"
	"math/rand"
	"strings"

	"github.com/AdguardTeam/urlfilter/rules"
)

type rowRec struct {
	Kind string   `json:"kind"`
	Reqs []aReq   `json:"reqs,omitempty"`
	Fam  []string `json:"fam,omitempty"`
	Rule *aRule   `json:"rule,omitempty"`
	Exp  []int    `json:"exp,omitempty"`
	// Text: if set, the first rendering of the row is this very text (an event of a trace is re-executed as it was written)
	Text string          `json:"text,omitempty"`
	Raw  json.RawMessage `json:"-"`
}

type ruleMismatch struct {
	Fam      []string `json:"fam"`
	RuleText string   `json:"rule_text"`
	Variant  int      `json:"variant"`
	Request  string   `json:"request"`
	Expected bool     `json:"expected"`
	Got      bool     `json:"got"`
	Panic    string   `json:"panic,omitempty"`
	Cause    string   `json:"cause"`
	Rule     *aRule   `json:"rule"`
	Req      *aReq    `json:"req"`
}

func safeMatch(r *rules.NetworkRule, q *rules.Request) (ok bool, panicV string) {
	defer func() {
		if x := recover(); x != nil {
			panicV = fmt.Sprint(x)
		}
	}()
	return r.Match(q), ""
}

func hasWild(hs []aHost) bool {
	for _, h := range hs {
		if len(h) > 0 && intsToString(h[len(h)-1]) == "*" {
			return true
		}
	}
	return false
}

// c04Cause gives a coarse signature of a disagreement for known_findings.json.
func c04Cause(r *aRule, q *aReq, panicV string) string {
	switch {
	case panicV != "":
		return "panic"
	case hasWild(r.PermDom) || hasWild(r.RestDom) || hasWild(r.Denyallow):
		return "wildcard-tld-domain"
	default:
		return "other"
	}
}

// vh replay-rule in=<rows.ndjson> out=<mismatches.ndjson> variants=<n>
func cmdReplayRule(args []string) error {
	m := argMap(args)
	recs, err := readND[rowRec](m["in"])
	if err != nil {
		return err
	}
	out, err := newNDWriter(m["out"])
	if err != nil {
		return err
	}
	defer out.close()
	nvar := argInt(m, "variants", 3)
	rnd := rand.New(rand.NewSource(seed()))
	var reqs []aReq
	for _, r := range recs {
		if r.Kind == "REQS" {
			reqs = r.Reqs
		}
	}
	if len(reqs) == 0 {
		return fmt.Errorf("no REQS record")
	}
	env := &envStats{}
	real := make([]*rules.Request, len(reqs))
	rows, evals, mism, rejected, posExp := 0, 0, 0, 0, 0
	for i := range reqs {
		before := *env
		real[i], err = reqs[i].build(env)
		if err != nil {
			return err
		}
		if env.ThirdFixed != before.ThirdFixed || env.HostMismatch != before.HostMismatch {
			// the request the real constructor built differs from the one Request.tla derives for the same URLs: the
			// rule is matched against the wrong third-party flag / hostnames whatever the rule says
			mism++
			rq := reqs[i]
			got := rq.ThirdParty
			if env.ThirdFixed != before.ThirdFixed {
				got = !got
			}
			out.write(ruleMismatch{Fam: []string{"request"}, RuleText: "(any rule: request construction, third-party flag / hostnames)",
				Request: rq.describe(), Expected: rq.ThirdParty, Got: got, Cause: "request-derivation", Req: &rq})
		}
	}
	if env.PslMismatch > 0 {
		return fmt.Errorf("the model's abstract PSL disagrees with the real Public Suffix List on %d request hosts", env.PslMismatch)
	}
	var samples []string
	for _, rec := range recs {
		if rec.Kind != "ROW" {
			continue
		}
		rows++
		if len(rec.Exp) != len(reqs) {
			return fmt.Errorf("row with %d bits for %d requests", len(rec.Exp), len(reqs))
		}
		for v := 0; v < nvar; v++ {
			text := rec.Rule.text(v, rnd)
			if v == 0 && rec.Text != "" {
				text = rec.Text
			}
			if v == 0 && len(samples) < 6 && rows%37 == 1 {
				samples = append(samples, text)
			}
			rule, perr := rules.NewNetworkRule(text, 1)
			if perr != nil {
				// the row's rule has a meaning in the specification (Rule!Match on every request): a parser that refuses
				// its text loses the rule
				rejected++
				mism++
				rq := reqs[0]
				out.write(ruleMismatch{Fam: rec.Fam, RuleText: text, Variant: v, Request: "(rejected by NewNetworkRule: " + perr.Error() + ")",
					Expected: true, Got: false, Cause: "rejected-valid-rule", Rule: rec.Rule, Req: &rq})
				continue
			}
			for k := range reqs {
				evals++
				exp := rec.Exp[k] == 1
				if exp && v == 0 {
					posExp++
				}
				got, pv := safeMatch(rule, real[k])
				if got != exp || pv != "" {
					// re-execute once more with a fresh rule and a fresh request before believing it
					rule2, _ := rules.NewNetworkRule(text, 1)
					q2, _ := reqs[k].build(&envStats{})
					got2, pv2 := safeMatch(rule2, q2)
					if got2 == exp && pv2 == "" {
						return fmt.Errorf("unstable result for %q on %s", text, reqs[k].describe())
					}
					mism++
					rq := reqs[k]
					out.write(ruleMismatch{Fam: rec.Fam, RuleText: text, Variant: v, Request: rq.describe(), Expected: exp, Got: got2,
						Panic: pv2, Cause: c04Cause(rec.Rule, &rq, pv2), Rule: rec.Rule, Req: &rq})
				}
			}
		}
	}
	summary(map[string]any{"rows": rows, "requests": len(reqs), "evaluations": evals, "mismatches": mism,
		"rejected": rejected, "expected_matches": posExp, "env": env, "samples": samples})
	return nil
}

func init() {
	register("replay-rule", cmdReplayRule)
}

var _ = strings.Join

// ---- rule TEXT level: syntax trees from spec/MC_RuleText.tla, rendered literally ----

type rtVal struct {
	Neg bool            `json:"neg"`
	V   json.RawMessage `json:"v"`
}

type rtOpt struct {
	Name string  `json:"name"`
	Neg  bool    `json:"neg"`
	Vals []rtVal `json:"vals"`
}

type rtTree struct {
	White bool    `json:"white"`
	Pat   []int   `json:"pat"`
	Opts  []rtOpt `json:"opts"`
}

type rtRec struct {
	Kind  string  `json:"kind"`
	Reqs  []aReq  `json:"reqs,omitempty"`
	Tree  *rtTree `json:"tree,omitempty"`
	Error bool    `json:"error"`
	Exp   []int   `json:"exp,omitempty"`
}

var rtListNames = map[string]bool{"domain": true, "denyallow": true, "dnstype": true, "ctag": true, "client": true}

func (t *rtTree) text() (string, error) {
	s := ""
	if t.White {
		s = "@@"
	}
	s += intsToString(t.Pat)
	var opts []string
	for _, o := range t.Opts {
		x := o.Name
		if o.Neg {
			x = "~" + x
		}
		if rtListNames[o.Name] {
			var vs []string
			for _, v := range o.Vals {
				var txt string
				switch o.Name {
				case "domain", "denyallow":
					var h aHost
					if err := json.Unmarshal(v.V, &h); err != nil {
						return "", err
					}
					txt = h.String()
				case "dnstype":
					if err := json.Unmarshal(v.V, &txt); err != nil {
						return "", err
					}
				case "ctag":
					var c []int
					if err := json.Unmarshal(v.V, &c); err != nil {
						return "", err
					}
					txt = intsToString(c)
				case "client":
					var c aCli
					if err := json.Unmarshal(v.V, &c); err != nil {
						return "", err
					}
					txt = c.render(0)
				}
				if v.Neg {
					txt = "~" + txt
				}
				vs = append(vs, txt)
			}
			x += "=" + strings.Join(vs, "|")
		}
		opts = append(opts, x)
	}
	if len(opts) > 0 {
		s += "$" + strings.Join(opts, ",")
	}
	return s, nil
}

// vh replay-ruletext in=<records.ndjson> out=<mismatches.ndjson>
func cmdReplayRuleText(args []string) error {
	m := argMap(args)
	recs, err := readND[rtRec](m["in"])
	if err != nil {
		return err
	}
	out, err := newNDWriter(m["out"])
	if err != nil {
		return err
	}
	defer out.close()
	var reqs []aReq
	for _, r := range recs {
		if r.Kind == "REQS" {
			reqs = r.Reqs
		}
	}
	env := &envStats{}
	real := make([]*rules.Request, len(reqs))
	for i := range reqs {
		if real[i], err = reqs[i].build(env); err != nil {
			return err
		}
	}
	texts, evals, mism, errorsExp, posExp := 0, 0, 0, 0, 0
	var samples []string
	for _, rec := range recs {
		if rec.Kind != "TEXT" {
			continue
		}
		texts++
		text, err := rec.Tree.text()
		if err != nil {
			return err
		}
		if len(samples) < 8 && texts%211 == 5 {
			samples = append(samples, fmt.Sprintf("%s  (error expected: %v)", text, rec.Error))
		}
		if rec.Error {
			errorsExp++
		}
		rule, perr := rules.NewNetworkRule(text, 1)
		if (perr != nil) != rec.Error {
			mism++
			out.write(map[string]any{"text": text, "why": "accepted / rejected", "expected_error": rec.Error, "got_error": fmt.Sprint(perr), "cause": "parse-outcome", "case": rec})
			continue
		}
		if perr != nil {
			evals++
			continue
		}
		for k := range reqs {
			evals++
			exp := rec.Exp[k] == 1
			if exp {
				posExp++
			}
			got, pv := safeMatch(rule, real[k])
			if got != exp || pv != "" {
				mism++
				out.write(map[string]any{"text": text, "why": "match on " + reqs[k].describe(), "expected": exp, "got": got, "panic": pv, "cause": "match", "case": rec, "req": reqs[k]})
				break
			}
		}
	}
	summary(map[string]any{"texts": texts, "evaluations": evals, "mismatches": mism, "errors_expected": errorsExp, "expected_matches": posExp, "samples": samples})
	return nil
}

func init() {
	register("replay-ruletext", cmdReplayRuleText)
}
