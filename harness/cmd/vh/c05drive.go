package main

// C05, code -> spec: the request side of the shortcut pre-check.  spec/ShortcutSound.tla decides, per rule, that every
// URL the compiled pattern accepts contains the shortcut once lower-cased; that argument is about ONE text.  This driver
// binds it to requests as the library builds them: the pattern of every sampled rule is instantiated into URLs (short,
// mixed-case, and longer than the 4 KiB the constructor keeps, with the shortcut before, across and after the cut),
// NewRequest builds the request, and the rule is asked with its shortcut and with the shortcut cleared.

import (
	"fmt"
	"math/rand"
	"strings"

	"github.com/AdguardTeam/urlfilter"
	"github.com/AdguardTeam/urlfilter/rules"
)

type scEvent struct {
	Text    string `json:"text"`
	Pat     []int  `json:"pat"`
	Mcase   bool   `json:"mcase"`
	Variant string `json:"variant"`
	URLLen  int    `json:"url_len"`
	// URL: the text the request keeps (Request.URL), only for URLs the trace specification re-decides itself (<= 160 bytes)
	URL     []int `json:"url"`
	With    bool  `json:"with"`
	Without bool  `json:"without"`
	// LowerOK: Request.URLLowerCase is the lower-cased Request.URL - the one text both sides of the argument talk about
	LowerOK bool `json:"lower_ok"`
	HasSC   bool `json:"has_shortcut"`
	// Engine: a network engine holding only this rule reports it for the request
	Engine bool `json:"engine"`
	// Used: a rule object that has answered other requests before - the same request, and the request of the other kind
	// (web / hostname) for the same name - gives the same answer as the fresh one
	Used bool `json:"used"`
	// Hostreq / Hostname: the request is the hostname request of a DNS query for this name
	Hostreq  bool  `json:"hostreq"`
	Hostname []int `json:"hostname"`
}

const scFill = "abcdefghijklmnopqrstuvwxyz0123456789-_"

func fill(rnd *rand.Rand, n int) string {
	b := make([]byte, n)
	for i := range b {
		b[i] = scFill[rnd.Intn(len(scFill))]
	}
	return string(b)
}

// instantiate turns a mask pattern into a URL that the mask is meant to accept; pad is put where a '*' stands (or in
// front of an unanchored pattern), flip upper-cases some letters.
func instantiate(pat string, rnd *rand.Rand, pad int, flip bool) string {
	var b strings.Builder
	p := pat
	switch {
	case strings.HasPrefix(p, "||"):
		p = p[2:]
		b.WriteString([]string{"http://", "https://", "ws://", "http://www."}[rnd.Intn(4)])
	case strings.HasPrefix(p, "|"):
		p = p[1:]
	default:
		b.WriteString("http://host.example/")
		b.WriteString(fill(rnd, pad))
		pad = 0
	}
	end := false
	if strings.HasSuffix(p, "|") && len(p) > 0 {
		p = p[:len(p)-1]
		end = true
	}
	for i := 0; i < len(p); i++ {
		c := p[i]
		switch c {
		case '*':
			n := rnd.Intn(4)
			if pad > 0 {
				n, pad = pad, 0
			}
			b.WriteString(fill(rnd, n))
		case '^':
			if i == len(p)-1 && rnd.Intn(3) == 0 {
				continue
			}
			b.WriteByte("/?:&="[rnd.Intn(5)])
		default:
			if flip && c >= 'a' && c <= 'z' && rnd.Intn(3) == 0 {
				c -= 32
			}
			b.WriteByte(c)
		}
	}
	if !end && pad > 0 {
		b.WriteString("/" + fill(rnd, pad)) // nowhere else to put it: a long tail behind the match
	} else if !end && rnd.Intn(2) == 0 {
		b.WriteString("/" + fill(rnd, rnd.Intn(6)))
	}
	return b.String()
}

// scRequest builds the request: a URL, or - for "hostname:<name>" - the hostname request of a DNS query, which the
// library matches as the URL "http://<name>"
func scRequest(url string) *rules.Request {
	if h, ok := strings.CutPrefix(url, "hostname:"); ok {
		return rules.NewRequestForHostname(h)
	}
	return rules.NewRequest(url, "", rules.TypeOther)
}

func scObserve(text, url string) (with, without, lowerOK, hasSC, engine, used bool, kept string, pv string) {
	pv = safeCall(func() {
		r1, err := rules.NewNetworkRule(text, 1)
		if err != nil {
			panic("rejected: " + err.Error())
		}
		r2, _ := rules.NewNetworkRule(text, 1)
		hasSC = r2.Shortcut != ""
		r2.Shortcut = ""
		q := scRequest(url)
		kept = q.URL
		lowerOK = q.URLLowerCase == strings.ToLower(q.URL)
		with = r1.Match(q)
		without = r2.Match(scRequest(url))
		// a rule object is asked again and again by an engine: what it answered before must not colour the next answer
		r3, _ := rules.NewNetworkRule(text, 1)
		if h, ok := strings.CutPrefix(url, "hostname:"); ok {
			_ = r3.Match(rules.NewRequest("http://"+h, "", rules.TypeOther))
		} else if q.Hostname != "" {
			_ = r3.Match(rules.NewRequestForHostname(q.Hostname))
			if q.URL == "http://"+q.Hostname {
				_ = r3.Match(rules.NewRequest("https://"+q.Hostname, "", rules.TypeOther))
			}
		}
		_ = r3.Match(scRequest(url))
		used = r3.Match(scRequest(url))
		// ... and through the index of a network engine that holds nothing but this rule (unless a list would not read
		// this text as a network rule at all: "name.example" alone on a line is a hosts entry)
		if lr, lerr := rules.NewRule(text, 1); lerr != nil || lr == nil {
			engine = with
			return
		} else if _, isNet := lr.(*rules.NetworkRule); !isNet {
			engine = with
			return
		}
		st, err := layoutStorage([]string{text}, []int{1})
		if err != nil {
			panic(err)
		}
		engine = false
		for _, r := range urlfilter.NewNetworkEngine(st).MatchAll(scRequest(url)) {
			engine = engine || r.RuleText == text
		}
	})
	return
}

// vh drive-shortcut n=<rules> out=<trace.ndjson>
func cmdDriveShortcut(args []string) error {
	m := argMap(args)
	n := argInt(m, "n", 400)
	out, err := newNDWriter(m["out"])
	if err != nil {
		return err
	}
	defer out.close()
	rnd := rand.New(rand.NewSource(seed()*193 + 5))
	var pats []string
	seen := map[string]bool{}
	for _, l := range listRuleLines(repoDir()) {
		r, err := rules.NewRule(l, 1)
		nr, ok := r.(*rules.NetworkRule)
		if err != nil || !ok || nr == nil || nr.IsRegexRule() || nr.Shortcut == "" {
			continue
		}
		p := nr.VerifPattern()
		if strings.ContainsAny(p, "$,\\ ") || len(p) > 80 || seen[p] {
			continue
		}
		printable := true
		for i := 0; i < len(p); i++ {
			if p[i] < 33 || p[i] > 126 {
				printable = false
			}
		}
		if printable {
			seen[p] = true
			pats = append(pats, p)
		}
	}
	// grammar-made patterns next to the ones of the bundled lists (the grammar-made ones are all kept)
	fromLists := len(pats)
	labelPats := map[string]bool{}
	for i := 0; i < n/4; i++ {
		p := []string{"||", "|http://", "", "", "||", "https://", "|https://", "://", "http*", "https^", "|http*"}[rnd.Intn(11)] + fill(rnd, 2+rnd.Intn(5)) + ".example"
		for k := rnd.Intn(3); k > 0; k-- {
			p += []string{"^", "*", "/", "/*/", "^*"}[rnd.Intn(5)] + fill(rnd, 1+rnd.Intn(8))
		}
		p += []string{"", "^", "|", "^|", "*", "/*", "/*"}[rnd.Intn(7)]
		if i%9 == 7 {
			// "/label.": for a hostname request such a pattern is matched against "http://<hostname>"
			p = "/" + []string{"zone0", "cdn-z9", "a0z", "x", "ads_1"}[rnd.Intn(5)] + fill(rnd, rnd.Intn(3)) + "."
			labelPats[p] = true
		}
		if i%9 == 4 {
			// a dollar sign that is the last character of the rule text has no options behind it: it is a literal
			p = strings.TrimRight(p, "|^*") + []string{"/price$", "?cost=$", "$"}[rnd.Intn(3)]
		}
		if !seen[p] {
			seen[p] = true
			pats = append(pats, p)
		}
	}
	grammar := append([]string{}, pats[fromLists:]...)
	pats = pats[:fromLists]
	rnd.Shuffle(len(pats), func(i, j int) { pats[i], pats[j] = pats[j], pats[i] })
	if len(pats) > n-len(grammar) {
		pats = pats[:max(0, n-len(grammar))]
	}
	pats = append(pats, grammar...)
	matches, long, panics := 0, 0, 0
	var samples []string
	for _, p := range pats {
		mc := rnd.Intn(4) == 0 && !strings.HasSuffix(p, "$")
		text := p
		if mc {
			text += "$match-case"
		}
		type variant struct {
			name string
			url  string
		}
		vs := []variant{
			{"plain", instantiate(p, rnd, 0, false)},
			{"mixed-case", instantiate(p, rnd, 0, true)},
			{"upper-case", strings.ToUpper(instantiate(p, rnd, 0, false))},
			// the whole match behind the 4 KiB the request keeps / the shortcut across the cut / just in front of it
			{"behind-cut", instantiate(p, rnd, 4200, false)},
			{"across-cut", instantiate(p, rnd, 4096-20-len(p)/2-rnd.Intn(8), false)},
			{"before-cut", instantiate(p, rnd, 4096-30-2*len(p), true)},
			{"long-tail", instantiate(p, rnd, 0, false) + "?" + fill(rnd, 5000)},
			// near misses: the URL of the pattern without its last / without its first character
			{"last-character-missing", instantiate(p[:len(p)-1], rnd, 0, false)},
			{"first-character-missing", instantiate(p[1:], rnd, 0, false)},
		}
		if labelPats[p] {
			lab := strings.Trim(p, "/.")
			vs = append(vs, variant{"hostname-request", "hostname:" + lab + ".example.org"}, variant{"hostname-request", "hostname:sub." + lab + ".example"},
				variant{"hostname-request", "hostname:" + lab + "x.example.org"})
		}
		// the hostname request of a DNS query for the name a URL of the pattern has, and for that name with one more label
		if hn := scRequest(vs[0].url).Hostname; plainName(hn) {
			vs = append(vs, variant{"hostname-request", "hostname:" + hn}, variant{"hostname-request", "hostname:www." + hn})
		}
		// ... and for the name the pattern itself spells out behind its anchor or scheme (in lower case: "hostname
		// validation should be performed by the function caller", FillRequestForHostname keeps the name as it is given)
		if hn := nameOfPattern(p); plainName(hn) && strings.Contains(hn, ".") {
			vs = append(vs, variant{"hostname-request", "hostname:" + hn}, variant{"hostname-request", "hostname:sub." + hn})
		}
		for _, v := range vs {
			with, without, lowerOK, hasSC, engine, used, kept, pv := scObserve(text, v.url)
			if pv != "" {
				panics++
				fmt.Printf("PANIC %q on a %d-byte URL: %s\n", text, len(v.url), pv)
				continue
			}
			ev := scEvent{Text: text, Pat: bytesToInts(p), Mcase: mc, Variant: v.name, URLLen: len(v.url), With: with, Without: without,
				LowerOK: lowerOK, HasSC: hasSC, Engine: engine, Used: used, URL: []int{}}
			if len(kept) <= 160 {
				ev.URL = bytesToInts(kept)
			}
			ev.Hostname = []int{}
			if h, ok := strings.CutPrefix(v.url, "hostname:"); ok {
				ev.Hostreq, ev.Hostname = true, bytesToInts(h)
			}
			if len(v.url) > 4096 {
				long++
			}
			if with {
				matches++
				if len(samples) < 5 && rnd.Intn(40) == 0 {
					samples = append(samples, fmt.Sprintf("%s accepts a %d-byte URL (%s)", text, len(v.url), v.name))
				}
			}
			out.write(ev)
		}
	}
	summary(map[string]any{"events": out.n, "patterns": len(pats), "matches": matches, "long_urls": long, "panics": panics, "samples": samples})
	return nil
}

// nameOfPattern: the run of name characters at the start of the pattern, behind "||", "|", a scheme or "://"
func nameOfPattern(p string) string {
	p = strings.TrimLeft(p, "|")
	for _, sch := range []string{"https://", "http://", "://", "https^", "http^", "https*", "http*"} {
		p = strings.TrimPrefix(p, sch)
	}
	n := 0
	for n < len(p) && (p[n] >= 'a' && p[n] <= 'z' || p[n] >= '0' && p[n] <= '9' || p[n] == '-' || p[n] == '_' || p[n] == '.') {
		n++
	}
	return strings.TrimRight(p[:n], ".")
}

// plainName: letters, digits, '-', '_' and dots, no empty label
func plainName(h string) bool {
	if h == "" || strings.HasPrefix(h, ".") || strings.HasSuffix(h, ".") || strings.Contains(h, "..") {
		return false
	}
	for i := 0; i < len(h); i++ {
		c := h[i]
		if !(c >= 'a' && c <= 'z' || c >= 'A' && c <= 'Z' || c >= '0' && c <= '9' || c == '-' || c == '_' || c == '.') {
			return false
		}
	}
	return true
}

// vh replay-shortcut text=<rule> url=<url>: one observation, printed
func cmdReplayShortcut(args []string) error {
	m := argMap(args)
	with, without, lowerOK, hasSC, engine, used, kept, pv := scObserve(m["text"], m["url"])
	summary(map[string]any{"with": with, "without": without, "lower_ok": lowerOK, "has_shortcut": hasSC, "engine": engine, "used": used, "kept_len": len(kept), "panic": pv,
		"differs": with != without || engine != with || used != with || !lowerOK || pv != ""})
	return nil
}

func init() {
	register("drive-shortcut", cmdDriveShortcut)
	register("replay-shortcut", cmdReplayShortcut)
}
