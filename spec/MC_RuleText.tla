----------------------------- MODULE MC_RuleText -----------------------------
(* C04 (rule text level), spec -> code: every sequence of up to MaxOpts options *)
(* from a vocabulary that covers every modifier name, its aliases and           *)
(* negations, valid and invalid uses (exception-only and blocking-only          *)
(* modifiers, negated value-less modifiers, $denyallow with an excluded value,  *)
(* unknown names, the $document macro), written twice or contradicting each     *)
(* other; RuleText!Meaning gives Error or the abstract rule, whose row of match *)
(* bits against the request universe of MC_Rule is emitted.                     *)
EXTENDS MC_Rule, RuleText

CONSTANT MaxOpts
Flag(n, neg) == [name |-> n, neg |-> neg, vals |-> <<>>]
Val(neg, v)  == [neg |-> neg, v |-> v]
List(n, vs)  == [name |-> n, neg |-> FALSE, vals |-> vs]
Vocabulary == {
    Flag("third-party", FALSE), Flag("third-party", TRUE), Flag("first-party", FALSE), Flag("first-party", TRUE),
    Flag("match-case", FALSE), Flag("important", FALSE), Flag("badfilter", FALSE),
    Flag("script", FALSE), Flag("script", TRUE), Flag("image", TRUE), Flag("subdocument", FALSE),
    List("domain", <<Val(FALSE, exampleOrg)>>), List("domain", <<Val(TRUE, subExampleOrg), Val(FALSE, exampleOrg)>>),
    List("domain", <<Val(FALSE, exampleCom), Val(FALSE, googleWild)>>), List("domain", <<>>),
    List("denyallow", <<Val(FALSE, exampleOrg)>>), List("denyallow", <<Val(TRUE, exampleOrg)>>),
    List("dnstype", <<Val(FALSE, "A"), Val(TRUE, "AAAA")>>), List("ctag", <<Val(TRUE, Tag1), Val(FALSE, Tag2)>>),
    List("client", <<Val(FALSE, Name(namePhone)), Val(TRUE, Net(4, <<10, 0, 0, 0>>, 7))>>),
    Flag("elemhide", FALSE), Flag("document", FALSE), Flag("urlblock", FALSE), Flag("stealth", FALSE),
    Flag("popup", FALSE), Flag("empty", FALSE), Flag("important", TRUE), Flag("nosuchmodifier", FALSE), Flag("replace", FALSE) }
Pats == { AnyPat, Str("||example.org^"), Str("ad") }

VARIABLES stt, rt
Init2 == stt = "root" /\ rt = [white |-> FALSE, pat |-> AnyPat, opts |-> <<>>]
         /\ st = "unused" /\ fam = <<>> /\ r = R0          \* the variables of MC_Rule are not used here
Next2 == /\ UNCHANGED <<st, fam, r>>
         /\ \/ /\ stt = "root" /\ stt' = "build"
               /\ \E w \in BOOLEAN, p \in Pats : rt' = [white |-> w, pat |-> p, opts |-> <<>>]
            \/ /\ stt = "build" /\ Len(rt.opts) < MaxOpts /\ stt' = stt
               /\ \E o \in Vocabulary : rt' = [rt EXCEPT !.opts = Append(@, o)]
M == Meaning(rt)
AllPats2    == PatU \cup {AnyPat} \cup Pats
PatCache2   == [p \in AllPats2, m \in BOOLEAN, t \in AllTargets |-> Accepts(p, m, t)]
MatchT(x, q) == ModifiersOK(x, q) /\ PatCache2[x.pat, MatchCase(x), Target(x, q)]
Emit2 == /\ (stt = "root" => PrintT(ToJson([kind |-> "REQS", reqs |-> Q])))
         /\ ((stt = "build" /\ M # Unspecified) =>
                PrintT(ToJson([kind |-> "TEXT", tree |-> rt, error |-> M = Error,
                               exp |-> IF M = Error THEN <<>> ELSE [k \in 1..NQ |-> B(MatchT(M, Q[k]))]])))
\* the order of flags and content types never matters; a later list-valued modifier replaces an earlier one of the same name
OrderFree == (stt = "build" /\ Len(rt.opts) = 2 /\ rt.opts[1].name # rt.opts[2].name) =>
                Meaning([rt EXCEPT !.opts = <<rt.opts[2], rt.opts[1]>>]) = M
=============================================================================
