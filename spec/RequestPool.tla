---------------------------- MODULE RequestPool ----------------------------
(* C14 / C13: the pool of request records of the DNS engine.  A goroutine    *)
(* takes a record out of the pool (or makes a new one), overwrites every     *)
(* field matching reads with the values of ITS request, matches, and only    *)
(* then puts the record back.  The pool hands a record to one goroutine at a  *)
(* time.  Invariants: no record is held by two goroutines; what a goroutine   *)
(* reads while matching is what it wrote.                                     *)
(* EarlyPut = TRUE is the attack variant "the record is put back before the   *)
(* match is over" (it must violate an invariant); PartialFill = TRUE is the   *)
(* variant "one field is only written when the request carries a value" (it   *)
(* must violate ReadsOwn through a stale value).                              *)
EXTENDS Integers, Sequences, FiniteSets, TLC
CONSTANTS G, Rounds, EarlyPut, PartialFill
NObj == Cardinality(G)
(* --algorithm pool {
  variables free = {}, made = 0,
            field = [ob \in 1..NObj |-> [name |-> 0, host |-> 0]],   \* 0: never written
            holder = [ob \in 1..NObj |-> {}],
            seen = [p \in G |-> [name |-> 0, host |-> 0]],
            mine = [p \in G |-> [name |-> 0, host |-> 0]];
  process (g \in G)
    variables o = 0, round = 0, val = 0;
  {
   loop: while (round < Rounds) {
           round := round + 1;
           \* the request of this round: a host, and a client name that is empty (0) every other round
           val := 10 * self + round;
           mine[self] := [name |-> IF round % 2 = 0 THEN 0 ELSE val, host |-> val];
   get:    if (free # {}) { with (x \in free) { o := x; free := free \ {x} } }
           else { made := made + 1; o := made };
           holder[o] := holder[o] \cup {self};
   fillh:  field[o].host := mine[self].host;
   filln:  if (~PartialFill \/ mine[self].name # 0) { field[o].name := mine[self].name };
   early:  if (EarlyPut) { free := free \cup {o}; holder[o] := holder[o] \ {self} };
   match:  seen[self] := field[o];
   put:    if (~EarlyPut) { free := free \cup {o}; holder[o] := holder[o] \ {self} };
   chk:    assert TRUE;
         }
  }
} *)
\* BEGIN TRANSLATION
VARIABLES pc, free, made, field, holder, seen, mine, o, round, val

vars == << pc, free, made, field, holder, seen, mine, o, round, val >>

ProcSet == (G)

Init == (* Global variables *)
        /\ free = {}
        /\ made = 0
        /\ field = [ob \in 1..NObj |-> [name |-> 0, host |-> 0]]
        /\ holder = [ob \in 1..NObj |-> {}]
        /\ seen = [p \in G |-> [name |-> 0, host |-> 0]]
        /\ mine = [p \in G |-> [name |-> 0, host |-> 0]]
        (* Process g *)
        /\ o = [self \in G |-> 0]
        /\ round = [self \in G |-> 0]
        /\ val = [self \in G |-> 0]
        /\ pc = [self \in ProcSet |-> "loop"]

loop(self) == /\ pc[self] = "loop"
              /\ IF round[self] < Rounds
                    THEN /\ round' = [round EXCEPT ![self] = round[self] + 1]
                         /\ val' = [val EXCEPT ![self] = 10 * self + round'[self]]
                         /\ mine' = [mine EXCEPT ![self] = [name |-> IF round'[self] % 2 = 0 THEN 0 ELSE val'[self], host |-> val'[self]]]
                         /\ pc' = [pc EXCEPT ![self] = "get"]
                    ELSE /\ pc' = [pc EXCEPT ![self] = "Done"]
                         /\ UNCHANGED << mine, round, val >>
              /\ UNCHANGED << free, made, field, holder, seen, o >>

get(self) == /\ pc[self] = "get"
             /\ IF free # {}
                   THEN /\ \E x \in free:
                             /\ o' = [o EXCEPT ![self] = x]
                             /\ free' = free \ {x}
                        /\ made' = made
                   ELSE /\ made' = made + 1
                        /\ o' = [o EXCEPT ![self] = made']
                        /\ free' = free
             /\ holder' = [holder EXCEPT ![o'[self]] = holder[o'[self]] \cup {self}]
             /\ pc' = [pc EXCEPT ![self] = "fillh"]
             /\ UNCHANGED << field, seen, mine, round, val >>

fillh(self) == /\ pc[self] = "fillh"
               /\ field' = [field EXCEPT ![o[self]].host = mine[self].host]
               /\ pc' = [pc EXCEPT ![self] = "filln"]
               /\ UNCHANGED << free, made, holder, seen, mine, o, round, val >>

filln(self) == /\ pc[self] = "filln"
               /\ IF ~PartialFill \/ mine[self].name # 0
                     THEN /\ field' = [field EXCEPT ![o[self]].name = mine[self].name]
                     ELSE /\ TRUE
                          /\ field' = field
               /\ pc' = [pc EXCEPT ![self] = "early"]
               /\ UNCHANGED << free, made, holder, seen, mine, o, round, val >>

early(self) == /\ pc[self] = "early"
               /\ IF EarlyPut
                     THEN /\ free' = (free \cup {o[self]})
                          /\ holder' = [holder EXCEPT ![o[self]] = holder[o[self]] \ {self}]
                     ELSE /\ TRUE
                          /\ UNCHANGED << free, holder >>
               /\ pc' = [pc EXCEPT ![self] = "match"]
               /\ UNCHANGED << made, field, seen, mine, o, round, val >>

match(self) == /\ pc[self] = "match"
               /\ seen' = [seen EXCEPT ![self] = field[o[self]]]
               /\ pc' = [pc EXCEPT ![self] = "put"]
               /\ UNCHANGED << free, made, field, holder, mine, o, round, val >>

put(self) == /\ pc[self] = "put"
             /\ IF ~EarlyPut
                   THEN /\ free' = (free \cup {o[self]})
                        /\ holder' = [holder EXCEPT ![o[self]] = holder[o[self]] \ {self}]
                   ELSE /\ TRUE
                        /\ UNCHANGED << free, holder >>
             /\ pc' = [pc EXCEPT ![self] = "chk"]
             /\ UNCHANGED << made, field, seen, mine, o, round, val >>

chk(self) == /\ pc[self] = "chk"
             /\ Assert(TRUE, "Failure of assertion at line 37, column 12.")
             /\ pc' = [pc EXCEPT ![self] = "loop"]
             /\ UNCHANGED << free, made, field, holder, seen, mine, o, round, 
                             val >>

g(self) == loop(self) \/ get(self) \/ fillh(self) \/ filln(self)
              \/ early(self) \/ match(self) \/ put(self) \/ chk(self)

(* Allow infinite stuttering to prevent deadlock on termination. *)
Terminating == /\ \A self \in ProcSet: pc[self] = "Done"
               /\ UNCHANGED vars

Next == (\E self \in G: g(self))
           \/ Terminating

Spec == Init /\ [][Next]_vars

Termination == <>(\A self \in ProcSet: pc[self] = "Done")

\* END TRANSLATION
Exclusive == \A x \in 1..NObj : Cardinality(holder[x]) <= 1
ReadsOwn  == \A p \in G : pc[p] \in {"put", "chk"} => seen[p] = mine[p]
=============================================================================
