------------------------------ MODULE LineKind ------------------------------
(* What a line of a filter list IS (rules/rule.go NewRule and the parsers it  *)
(* dispatches to): nothing (blank or comment), a cosmetic rule, a hosts-file  *)
(* entry, or - everything else - a network rule candidate.  The decision is   *)
(* made on the text alone, in this order, and has sharp edges which the       *)
(* specification spells out as the code has them:                             *)
(*                                                                            *)
(*  - a line starting with '#' is a comment unless a cosmetic marker starts   *)
(*    right there ("##.ad" is a rule, "# .ad" and "#.ad" are comments);       *)
(*  - the cosmetic marker is looked for at the FIRST '#' of the line only,    *)
(*    and not at all when a blank precedes that '#'; only when that fails is  *)
(*    the first '$' tried, the same way ("a #x##.ad" has no marker);          *)
(*  - a cosmetic rule needs valid domains in front of the marker (if any),    *)
(*    non-blank content behind it, one of the two supported markers, and an   *)
(*    exception needs at least one permitted domain; otherwise the line is    *)
(*    REJECTED - it does not fall through to the other parsers;               *)
(*  - a hosts entry is "name" alone, with name a domain name in the sense of  *)
(*    IsDomainName below (the last label at least two letters), or an IP      *)
(*    address followed by names; everything from the first '#' on is dropped  *)
(*    first; the names after an address are not validated at all;             *)
(*  - anything else goes to the network-rule parser (Rule.tla / RuleText.tla  *)
(*    say what that makes of it, or that it is rejected).                     *)
(*                                                                            *)
(* Fields are separated by space or tab; lines and cosmetic content are        *)
(* trimmed with strings.TrimSpace (Trim below).  Whether a field is an IP is   *)
(* decided by net/netip in the code; the model takes the set of address       *)
(* literals that can occur as a constant (IPv4Lits, IPv6Lits), computed by    *)
(* the harness with netip itself for exactly the fields of the bounded model. *)
EXTENDS Chars, SequencesExt

CONSTANTS IPv4Lits, IPv6Lits        \* sets of code sequences

SP == 32  TAB == 9  HASH == 35  DOLLAR == 36  BANG == 33  COMMA == 44  TILDE == 126  DOT == 46  DASH == 45
IsBlank(c) == c \in {SP, TAB}

RECURSIVE TrimL(_)
TrimL(s) == IF s # <<>> /\ IsBlank(s[1]) THEN TrimL(Tail(s)) ELSE s
\* strings.TrimSpace, on the bytes of a UTF-8 text: the ASCII white space \t \n \v \f \r and blank, and - of the
\* non-ASCII white space of Unicode - the two that are two bytes long, U+0085 (C2 85) and U+00A0 (C2 A0); the
\* three-byte ones (U+1680, U+2000.., U+3000) are outside the alphabet of the model
IsSpace1(c) == c \in {9, 10, 11, 12, 13, 32}
IsSpace2(a, b) == a = 194 /\ b \in {133, 160}
RECURSIVE TrimSpaceL(_)
TrimSpaceL(s) == IF s # <<>> /\ IsSpace1(s[1]) THEN TrimSpaceL(Tail(s))
                 ELSE IF Len(s) >= 2 /\ IsSpace2(s[1], s[2]) THEN TrimSpaceL(SubSeq(s, 3, Len(s)))
                 ELSE s
RECURSIVE TrimSpaceR(_)
TrimSpaceR(s) == IF s # <<>> /\ IsSpace1(s[Len(s)]) THEN TrimSpaceR(SubSeq(s, 1, Len(s) - 1))
                 ELSE IF Len(s) >= 2 /\ IsSpace2(s[Len(s) - 1], s[Len(s)]) THEN TrimSpaceR(SubSeq(s, 1, Len(s) - 2))
                 ELSE s
Trim(s) == TrimSpaceR(TrimSpaceL(s))

MinOf(S) == CHOOSE x \in S : \A y \in S : x <= y
StartsAt(s, i, m) == i + Len(m) - 1 <= Len(s) /\ SubSeq(s, i, i + Len(m) - 1) = m

(* ---- cosmetic markers ---- *)
MHide == Str("##")      MHideExc == Str("#@#")
Markers == {Str("##"), Str("#@#"), Str("#?#"), Str("#@?#"), Str("#$#"), Str("#@$#"), Str("#$?#"), Str("#@$?#"),
            Str("#%#"), Str("#@%#"), Str("$$"), Str("$@$")}
NoMarker == [at |-> 0, m |-> <<>>]
\* the marker search of findCosmeticRuleMarker for one first character
TryChar(s, ch) ==
    LET P == { i \in 1..Len(s) : s[i] = ch } IN
    IF P = {} THEN NoMarker
    ELSE LET i == MinOf(P) IN
         IF i > 1 /\ s[i - 1] = SP THEN NoMarker                   \* a blank (space only) in front: not looked at
         ELSE IF \E m \in Markers : StartsAt(s, i, m)
              THEN [at |-> i, m |-> CHOOSE m \in Markers : StartsAt(s, i, m)]
              ELSE NoMarker
FindMarker(s) == IF TryChar(s, HASH) # NoMarker THEN TryChar(s, HASH) ELSE TryChar(s, DOLLAR)

IsComment(s) == s # <<>> /\ (s[1] = BANG \/ (s[1] = HASH /\ (Len(s) = 1 \/ ~\E m \in Markers : StartsAt(s, 1, m))))

(* ---- filterutil.IsDomainName ---- *)
IsLetter(c) == IsLowerCh(c) \/ IsUpperCh(c)
RECURSIVE SplitOn(_, _)
SplitOn(s, ch) == LET P == { i \in 1..Len(s) : s[i] = ch } IN
                  IF P = {} THEN <<s>> ELSE <<SubSeq(s, 1, MinOf(P) - 1)>> \o SplitOn(SubSeq(s, MinOf(P) + 1, Len(s)), ch)
LabelOK(l) == /\ l # <<>> /\ Len(l) <= 63
              /\ IsAlnumCh(l[1])
              /\ \A k \in 2..Len(l) : IsAlnumCh(l[k]) \/ l[k] = DASH
\* the last label: letters only and at least two of them, or a punycode label ("xn--" or "Xn--" and >= 8 characters)
LastLabelOK(l) == \/ (Len(l) >= 2 /\ \A k \in 1..Len(l) : IsLetter(l[k]))
                  \/ (Len(l) >= 8 /\ l[1] \in {120, 88} /\ SubSeq(l, 2, 4) = Str("n--"))
IsDomainName(s) ==
    /\ s # <<>> /\ Len(s) <= 253
    /\ LET ls == SplitOn(s, DOT) IN
       /\ \A k \in 1..Len(ls) : LabelOK(ls[k])
       /\ \A k \in 1..(Len(ls) - 1) : ls[k][Len(ls[k])] # DASH        \* no label ends with '-' in front of a dot
       /\ LastLabelOK(ls[Len(ls)])

(* ---- rules.loadDomains(domains, ",") as used by cosmetic rules ---- *)
DomainItemOK(d) == LET x == IF d # <<>> /\ d[1] = TILDE THEN Tail(d) ELSE d IN IsDomainName(x) \/ HasSuffix(x, Str(".*"))
StripTilde(d) == IF d # <<>> /\ d[1] = TILDE THEN Tail(d) ELSE d

(* ---- hosts-file entries (rules.NewHostRule) ---- *)
\* splitNextByWhitespace: <<field, rest>>
RECURSIVE TakeField(_)
TakeField(s) == IF s = <<>> \/ IsBlank(s[1]) THEN <<>> ELSE <<s[1]>> \o TakeField(Tail(s))
SplitNext(s) == LET a == TrimL(s) f == TakeField(a) IN <<f, TrimL(SubSeq(a, Len(f) + 1, Len(a)))>>
RECURSIVE Fields(_)
Fields(s) == IF s = <<>> THEN <<>> ELSE LET x == SplitNext(s) IN <<x[1]>> \o Fields(x[2])
IsIP(f) == f \in IPv4Lits \/ f \in IPv6Lits
NotHost == [ok |-> FALSE, addr |-> "none", names |-> <<>>, ip |-> <<>>]
HostParse(t) ==
    LET P == { i \in 1..Len(t) : t[i] = HASH }
        cut == IF P # {} /\ MinOf(P) > 1 THEN SubSeq(t, 1, MinOf(P) - 1) ELSE t
        x == SplitNext(cut)
    IN IF x[2] = <<>>
       THEN IF IsDomainName(x[1]) THEN [ok |-> TRUE, addr |-> "unspecified", names |-> <<x[1]>>, ip |-> <<>>] ELSE NotHost
       ELSE IF IsIP(x[1]) THEN [ok |-> TRUE, addr |-> IF x[1] \in IPv4Lits THEN "v4" ELSE "v6", names |-> Fields(x[2]), ip |-> x[1]]
       ELSE NotHost

(* ---- the meaning of a line ---- *)
\* kind: "nothing" | "cosmetic" | "rejected" | "unsupported" | "host" | "network"
\*   "network": handed to the network-rule parser, which makes a rule of it or rejects it - never a hosts entry,
\*   a cosmetic rule or nothing
Result(k) == [kind |-> k, white |-> FALSE, perm |-> <<>>, restr |-> <<>>, content |-> <<>>, addr |-> "none", names |-> <<>>, ip |-> <<>>]
CosmeticOf(t) ==
    LET f == FindMarker(t)
        doms == SplitOn(SubSeq(t, 1, f.at - 1), COMMA)
        content == Trim(SubSeq(t, f.at + Len(f.m), Len(t)))
        perm == SelectSeq(doms, LAMBDA d : d = <<>> \/ d[1] # TILDE)
        restr == SelectSeq(doms, LAMBDA d : d # <<>> /\ d[1] = TILDE)
    IN IF f.at > 1 /\ \E k \in 1..Len(doms) : ~DomainItemOK(doms[k]) THEN Result("rejected")
       ELSE IF content = <<>> THEN Result("rejected")
       ELSE IF f.m \notin {MHide, MHideExc} THEN Result("unsupported")
       ELSE IF f.m = MHideExc /\ (f.at = 1 \/ perm = <<>>) THEN Result("rejected")
       ELSE [Result("cosmetic") EXCEPT !.white = (f.m = MHideExc),
                                        !.perm = IF f.at = 1 THEN <<>> ELSE perm,
                                        !.restr = IF f.at = 1 THEN <<>> ELSE [k \in 1..Len(restr) |-> Tail(restr[k])],
                                        !.content = content]
Meaning(line) ==
    LET t == Trim(line) IN
    IF t = <<>> \/ IsComment(t) THEN Result("nothing")
    ELSE IF FindMarker(t) # NoMarker THEN CosmeticOf(t)
    ELSE LET h == HostParse(t) IN
         IF h.ok THEN [Result("host") EXCEPT !.addr = h.addr, !.names = h.names, !.ip = h.ip]
         ELSE Result("network")

(* ---- laws (checked on the bounded model) ---- *)
\* blanks around a line never matter
TrimInert(line) == Meaning(line) = Meaning(Trim(line))
\* a comment stays a comment whatever follows its sign, as long as no marker starts at the sign
CommentStable(line, more) == (Trim(line) # <<>> /\ Trim(line)[1] = BANG) => Meaning(line \o more).kind = "nothing"
\* what follows the comment sign of a hosts entry never changes its names (C18, here for every line of the model) -
\* for lines whose white space is blank and tab.  Deviation of the code, modelled as it is (ExoticBlankBeforeComment):
\* white space that only strings.TrimSpace knows (vertical tab, form feed, NBSP, ...) in front of the comment sign is
\* cut off when the line ends there, but stays part of the last name when a comment follows, because the hosts parser
\* splits on blank and tab only ("1.2.3.4 a.com<VT>" names a.com, "1.2.3.4 a.com<VT># x" names "a.com<VT>").
PlainSpaceOnly(s) == \A k \in 1..Len(s) : s[k] \notin {10, 11, 12, 13, 133, 160, 194}
HostCommentInert(line) ==
    LET t == Trim(line) m == Meaning(line) IN
    (PlainSpaceOnly(t) /\ m.kind = "host" /\ \E i \in 2..Len(t) : t[i] = HASH) =>
        LET P == { i \in 2..Len(t) : t[i] = HASH } IN Meaning(SubSeq(t, 1, MinOf(P) - 1)).names = m.names
=============================================================================
