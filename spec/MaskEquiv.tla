----------------------------- MODULE MaskEquiv -----------------------------
(* C03: for every exported rule, the language of the regular expression the  *)
(* implementation compiled for its pattern equals the documented mask        *)
(* language - decided for ALL strings over the printable alphabet by         *)
(* exploring the product of the determinised program (Pike) with the         *)
(* determinised reference automaton (Mask).                                   *)
(* Cases come from the real code (vh export-progs): pattern characters,      *)
(* match-case flag, compile status and the regexp/syntax instruction list.    *)
(* The alphabet is partitioned per case into classes that no instruction and *)
(* no reference predicate separates; the partition is proposed by the        *)
(* exporter and verified here (PartitionOK), so a wrong partition can never   *)
(* hide a string.                                                             *)
EXTENDS Mask, Pike, TLC, Json, SequencesExt

Cases == ndJsonDeserialize("cases.ndjson")
N == Len(Cases)
NCH == 64

Progs == [i \in 1..N |-> Cases[i].prog]
Sets  == [i \in 1..N |-> [p \in 1..Len(Cases[i].prog) |-> RangesToSet(Cases[i].prog[p].set)]]
Toks  == [i \in 1..N |-> Tokenize(Cases[i].pat)]
Word  == [i \in 1..N |-> NeedsWord(Cases[i].prog)]

Sig(i, c) == << { p \in 1..Len(Progs[i]) : c \in Sets[i][p] },
                { k \in 1..Len(Toks[i]) : Toks[i][k].t = "lit" /\ EqCh(c, Toks[i][k].c, Cases[i].mc) },
                IsSepCh(c), IsSubCh(c, Cases[i].mc), Word[i] /\ IsWordCh(c),
                IF Len(Toks[i]) > 0 /\ Toks[i][1].t = "surl"
                THEN {d \in {104, 116, 112, 115, 119, 58, 47, 46} : EqCh(c, d, Cases[i].mc)} ELSE {} >>
ClassesOK(i) == /\ UNION { ToSet(Cases[i].classes[k]) : k \in 1..Len(Cases[i].classes) } = Alpha
                /\ \A k \in 1..Len(Cases[i].classes) : \A c \in ToSet(Cases[i].classes[k]) :
                       Sig(i, c) = Sig(i, Cases[i].classes[k][1])
RepsOf(i) == { Cases[i].classes[k][1] : k \in 1..Len(Cases[i].classes) }

VARIABLES ch, ci, U, S, atStart, prevWord, pm, rm, w
vars == <<ch, ci, U, S, atStart, prevWord, pm, rm, w>>
View == <<ch, ci, U, S, atStart, prevWord, pm, rm>>

Init == ch = 0 /\ ci = 0 /\ U = {} /\ S = {} /\ atStart = TRUE /\ prevWord = FALSE
        /\ pm = FALSE /\ rm = FALSE /\ w = <<>>

\* root -> chunk -> case, so that all workers share the cases
Fan == \/ /\ ch = 0 /\ ci = 0
          /\ ch' \in 1..NCH
          /\ UNCHANGED <<ci, U, S, atStart, prevWord, pm, rm, w>>
       \/ /\ ch > 0 /\ ci = 0
          /\ ci' \in {i \in 1..N : i % NCH = ch - 1 /\ Cases[i].status # "panic"}
          /\ UNCHANGED <<ch, U, S, atStart, prevWord, pm, rm, w>>

PAccEnd == pm \/ HasMatch(Progs[ci], PClosure(Progs[ci], Cases[ci].start, U, atStart, prevWord, EOT))
RAccEnd == rm \/ RDone(Toks[ci], RClosure(Toks[ci], S, atStart, EOT))

Read == /\ ci > 0
        /\ ~(pm /\ rm)           \* both accepted for good: absorbing, nothing new can be learnt
        /\ PAccEnd = RAccEnd     \* a difference is reported by Equivalent; keep only the shortest witness
        /\ \E c \in RepsOf(ci) :
             LET PC  == PClosure(Progs[ci], Cases[ci].start, U, atStart, prevWord, c)
                 RC  == RClosure(Toks[ci], S, atStart, c)
                 pm2 == pm \/ HasMatch(Progs[ci], PC)
                 rm2 == rm \/ RDone(Toks[ci], RC)
             IN /\ atStart' = FALSE /\ w' = Append(w, c)
                /\ prevWord' = (Word[ci] /\ IsWordCh(c))
                /\ pm' = pm2 /\ rm' = rm2
                /\ U' = IF pm2 THEN {} ELSE PStep(Progs[ci], Sets[ci], PC, c)
                /\ S' = IF rm2 THEN {} ELSE RStep(Toks[ci], Cases[ci].mc, RC, c)
                /\ UNCHANGED <<ch, ci>>
Next == Fan \/ Read

\* the property: same verdict on the string read so far, at every reachable product state
Equivalent == ci > 0 =>
    \/ PAccEnd = RAccEnd
    \/ ~PrintT(ToJson([kind |-> "DIFF", id |-> Cases[ci].id, w |-> w, prog |-> PAccEnd, ref |-> RAccEnd]))
PartitionOK == (ci > 0 /\ w = <<>>) =>
    \/ ClassesOK(ci)
    \/ ~PrintT(ToJson([kind |-> "BADPARTITION", id |-> Cases[ci].id, w |-> <<>>, prog |-> FALSE, ref |-> FALSE]))
=============================================================================
