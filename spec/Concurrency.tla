---------------------------- MODULE Concurrency ----------------------------
(* C14: the lock protocol around the shared caches, one label per critical-    *)
(* section step of the implementation:                                         *)
(*   rl/lk/ru   RuleStorage.RetrieveRule: read-lock the cache, look up, unlock  *)
(*   fl/sk/rd/cp/fu  FileRuleList.RetrieveRule: file mutex, Seek, read into the *)
(*              shared buffer, copy the line out, unlock                        *)
(*   mk         rules.NewRule: a fresh rule object                              *)
(*   wl/ins/wu  write-lock the cache, insert, unlock                            *)
(*   pl/ck/st/pu  NetworkRule.preparePattern: rule mutex, check, compile+store  *)
(* The four yield points of the verif hook (cache-miss, file-read,             *)
(* cache-insert, compile) are the labels miss, btw, bi, bc; the history        *)
(* variable sched records them (hidden by the VIEW in exhaustive runs).        *)
(* UseFileLock / UseCacheLock / UseRuleLock = FALSE are the attack variants:   *)
(* each must violate an invariant, and its counterexample is an attack         *)
(* schedule "B enters the window while A is inside it".                        *)
(* Follow = TRUE turns the module into a trace validator: only behaviours      *)
(* whose yield events are exactly TraceSched are allowed.                      *)
EXTENDS Integers, Sequences, FiniteSets, TLC
CONSTANTS G, Idx, UseFileLock, UseCacheLock, UseRuleLock, Warm, Follow, TraceSched, TraceWant
NObj == Cardinality(G) + Cardinality(Warm)
NoTrace == <<>>     \* value of TraceSched / TraceWant when Follow = FALSE
(* --algorithm conc {
  variables
    objText = [o \in 1..NObj |-> 0], objRegex = [o \in 1..NObj |-> 0], nextObj = 1,
    cache = [k \in Idx |-> 0],
    readers = {}, writer = 0,
    fileLock = 0, filePos = 0, buf = 0,
    ruleLock = [o \in 1..NObj |-> 0],
    want = [p \in G |-> 0], answer = [p \in G |-> 0],
    sched = <<>>;
  macro step(l) {
    \* trace-following mode: a yield event may only happen if it is the next event of the recorded trace
    await ~Follow \/ (Len(sched) < Len(TraceSched) /\ TraceSched[Len(sched) + 1] = <<self, l>>);
    sched := Append(sched, <<self, l>>)
  }
  process (g \in G)
    variables i = 0, r = 0, line = 0;
  {
   pick: with (j \in IF Follow THEN {TraceWant[self]} ELSE Idx) { i := j; want[self] := j };
   rl:   if (UseCacheLock) { await writer = 0; readers := readers \cup {self} };
   lk:   r := cache[i];
   ru:   readers := readers \ {self};
         if (r # 0) { goto pl };
   miss: step("cache_miss");
   fl:   if (UseFileLock) { await fileLock = 0; fileLock := self };
   sk:   filePos := i;
   btw:  step("file_between");
   rd:   buf := filePos;
   cp:   line := buf;
   fu:   if (UseFileLock) { fileLock := 0 };
   mk:   r := nextObj; objText[nextObj] := line; nextObj := nextObj + 1;
   bi:   step("before_insert");
   wl:   if (UseCacheLock) { await writer = 0 /\ readers = {}; writer := self };
   ins:  cache[i] := r;
   wu:   if (UseCacheLock) { writer := 0 };
   pl:   if (UseRuleLock) { await ruleLock[r] = 0; ruleLock[r] := self };
   ck:   if (objRegex[r] = 1) { goto pu };
   bc:   step("before_compile");
   st:   objRegex[r] := 1;
   pu:   if (UseRuleLock) { ruleLock[r] := 0 };
   fin:  answer[self] := objText[r];
  }
} *)
\* BEGIN TRANSLATION
VARIABLES pc, objText, objRegex, nextObj, cache, readers, writer, fileLock, 
          filePos, buf, ruleLock, want, answer, sched, i, r, line

vars == << pc, objText, objRegex, nextObj, cache, readers, writer, fileLock, 
           filePos, buf, ruleLock, want, answer, sched, i, r, line >>

ProcSet == (G)

Init == (* Global variables *)
        /\ objText = [o \in 1..NObj |-> 0]
        /\ objRegex = [o \in 1..NObj |-> 0]
        /\ nextObj = 1
        /\ cache = [k \in Idx |-> 0]
        /\ readers = {}
        /\ writer = 0
        /\ fileLock = 0
        /\ filePos = 0
        /\ buf = 0
        /\ ruleLock = [o \in 1..NObj |-> 0]
        /\ want = [p \in G |-> 0]
        /\ answer = [p \in G |-> 0]
        /\ sched = <<>>
        (* Process g *)
        /\ i = [self \in G |-> 0]
        /\ r = [self \in G |-> 0]
        /\ line = [self \in G |-> 0]
        /\ pc = [self \in ProcSet |-> "pick"]

pick(self) == /\ pc[self] = "pick"
              /\ \E j \in IF Follow THEN {TraceWant[self]} ELSE Idx:
                   /\ i' = [i EXCEPT ![self] = j]
                   /\ want' = [want EXCEPT ![self] = j]
              /\ pc' = [pc EXCEPT ![self] = "rl"]
              /\ UNCHANGED << objText, objRegex, nextObj, cache, readers, 
                              writer, fileLock, filePos, buf, ruleLock, answer, 
                              sched, r, line >>

rl(self) == /\ pc[self] = "rl"
            /\ IF UseCacheLock
                  THEN /\ writer = 0
                       /\ readers' = (readers \cup {self})
                  ELSE /\ TRUE
                       /\ UNCHANGED readers
            /\ pc' = [pc EXCEPT ![self] = "lk"]
            /\ UNCHANGED << objText, objRegex, nextObj, cache, writer, 
                            fileLock, filePos, buf, ruleLock, want, answer, 
                            sched, i, r, line >>

lk(self) == /\ pc[self] = "lk"
            /\ r' = [r EXCEPT ![self] = cache[i[self]]]
            /\ pc' = [pc EXCEPT ![self] = "ru"]
            /\ UNCHANGED << objText, objRegex, nextObj, cache, readers, writer, 
                            fileLock, filePos, buf, ruleLock, want, answer, 
                            sched, i, line >>

ru(self) == /\ pc[self] = "ru"
            /\ readers' = readers \ {self}
            /\ IF r[self] # 0
                  THEN /\ pc' = [pc EXCEPT ![self] = "pl"]
                  ELSE /\ pc' = [pc EXCEPT ![self] = "miss"]
            /\ UNCHANGED << objText, objRegex, nextObj, cache, writer, 
                            fileLock, filePos, buf, ruleLock, want, answer, 
                            sched, i, r, line >>

miss(self) == /\ pc[self] = "miss"
              /\ ~Follow \/ (Len(sched) < Len(TraceSched) /\ TraceSched[Len(sched) + 1] = <<self, "cache_miss">>)
              /\ sched' = Append(sched, <<self, "cache_miss">>)
              /\ pc' = [pc EXCEPT ![self] = "fl"]
              /\ UNCHANGED << objText, objRegex, nextObj, cache, readers, 
                              writer, fileLock, filePos, buf, ruleLock, want, 
                              answer, i, r, line >>

fl(self) == /\ pc[self] = "fl"
            /\ IF UseFileLock
                  THEN /\ fileLock = 0
                       /\ fileLock' = self
                  ELSE /\ TRUE
                       /\ UNCHANGED fileLock
            /\ pc' = [pc EXCEPT ![self] = "sk"]
            /\ UNCHANGED << objText, objRegex, nextObj, cache, readers, writer, 
                            filePos, buf, ruleLock, want, answer, sched, i, r, 
                            line >>

sk(self) == /\ pc[self] = "sk"
            /\ filePos' = i[self]
            /\ pc' = [pc EXCEPT ![self] = "btw"]
            /\ UNCHANGED << objText, objRegex, nextObj, cache, readers, writer, 
                            fileLock, buf, ruleLock, want, answer, sched, i, r, 
                            line >>

btw(self) == /\ pc[self] = "btw"
             /\ ~Follow \/ (Len(sched) < Len(TraceSched) /\ TraceSched[Len(sched) + 1] = <<self, "file_between">>)
             /\ sched' = Append(sched, <<self, "file_between">>)
             /\ pc' = [pc EXCEPT ![self] = "rd"]
             /\ UNCHANGED << objText, objRegex, nextObj, cache, readers, 
                             writer, fileLock, filePos, buf, ruleLock, want, 
                             answer, i, r, line >>

rd(self) == /\ pc[self] = "rd"
            /\ buf' = filePos
            /\ pc' = [pc EXCEPT ![self] = "cp"]
            /\ UNCHANGED << objText, objRegex, nextObj, cache, readers, writer, 
                            fileLock, filePos, ruleLock, want, answer, sched, 
                            i, r, line >>

cp(self) == /\ pc[self] = "cp"
            /\ line' = [line EXCEPT ![self] = buf]
            /\ pc' = [pc EXCEPT ![self] = "fu"]
            /\ UNCHANGED << objText, objRegex, nextObj, cache, readers, writer, 
                            fileLock, filePos, buf, ruleLock, want, answer, 
                            sched, i, r >>

fu(self) == /\ pc[self] = "fu"
            /\ IF UseFileLock
                  THEN /\ fileLock' = 0
                  ELSE /\ TRUE
                       /\ UNCHANGED fileLock
            /\ pc' = [pc EXCEPT ![self] = "mk"]
            /\ UNCHANGED << objText, objRegex, nextObj, cache, readers, writer, 
                            filePos, buf, ruleLock, want, answer, sched, i, r, 
                            line >>

mk(self) == /\ pc[self] = "mk"
            /\ r' = [r EXCEPT ![self] = nextObj]
            /\ objText' = [objText EXCEPT ![nextObj] = line[self]]
            /\ nextObj' = nextObj + 1
            /\ pc' = [pc EXCEPT ![self] = "bi"]
            /\ UNCHANGED << objRegex, cache, readers, writer, fileLock, 
                            filePos, buf, ruleLock, want, answer, sched, i, 
                            line >>

bi(self) == /\ pc[self] = "bi"
            /\ ~Follow \/ (Len(sched) < Len(TraceSched) /\ TraceSched[Len(sched) + 1] = <<self, "before_insert">>)
            /\ sched' = Append(sched, <<self, "before_insert">>)
            /\ pc' = [pc EXCEPT ![self] = "wl"]
            /\ UNCHANGED << objText, objRegex, nextObj, cache, readers, writer, 
                            fileLock, filePos, buf, ruleLock, want, answer, i, 
                            r, line >>

wl(self) == /\ pc[self] = "wl"
            /\ IF UseCacheLock
                  THEN /\ writer = 0 /\ readers = {}
                       /\ writer' = self
                  ELSE /\ TRUE
                       /\ UNCHANGED writer
            /\ pc' = [pc EXCEPT ![self] = "ins"]
            /\ UNCHANGED << objText, objRegex, nextObj, cache, readers, 
                            fileLock, filePos, buf, ruleLock, want, answer, 
                            sched, i, r, line >>

ins(self) == /\ pc[self] = "ins"
             /\ cache' = [cache EXCEPT ![i[self]] = r[self]]
             /\ pc' = [pc EXCEPT ![self] = "wu"]
             /\ UNCHANGED << objText, objRegex, nextObj, readers, writer, 
                             fileLock, filePos, buf, ruleLock, want, answer, 
                             sched, i, r, line >>

wu(self) == /\ pc[self] = "wu"
            /\ IF UseCacheLock
                  THEN /\ writer' = 0
                  ELSE /\ TRUE
                       /\ UNCHANGED writer
            /\ pc' = [pc EXCEPT ![self] = "pl"]
            /\ UNCHANGED << objText, objRegex, nextObj, cache, readers, 
                            fileLock, filePos, buf, ruleLock, want, answer, 
                            sched, i, r, line >>

pl(self) == /\ pc[self] = "pl"
            /\ IF UseRuleLock
                  THEN /\ ruleLock[r[self]] = 0
                       /\ ruleLock' = [ruleLock EXCEPT ![r[self]] = self]
                  ELSE /\ TRUE
                       /\ UNCHANGED ruleLock
            /\ pc' = [pc EXCEPT ![self] = "ck"]
            /\ UNCHANGED << objText, objRegex, nextObj, cache, readers, writer, 
                            fileLock, filePos, buf, want, answer, sched, i, r, 
                            line >>

ck(self) == /\ pc[self] = "ck"
            /\ IF objRegex[r[self]] = 1
                  THEN /\ pc' = [pc EXCEPT ![self] = "pu"]
                  ELSE /\ pc' = [pc EXCEPT ![self] = "bc"]
            /\ UNCHANGED << objText, objRegex, nextObj, cache, readers, writer, 
                            fileLock, filePos, buf, ruleLock, want, answer, 
                            sched, i, r, line >>

bc(self) == /\ pc[self] = "bc"
            /\ ~Follow \/ (Len(sched) < Len(TraceSched) /\ TraceSched[Len(sched) + 1] = <<self, "before_compile">>)
            /\ sched' = Append(sched, <<self, "before_compile">>)
            /\ pc' = [pc EXCEPT ![self] = "st"]
            /\ UNCHANGED << objText, objRegex, nextObj, cache, readers, writer, 
                            fileLock, filePos, buf, ruleLock, want, answer, i, 
                            r, line >>

st(self) == /\ pc[self] = "st"
            /\ objRegex' = [objRegex EXCEPT ![r[self]] = 1]
            /\ pc' = [pc EXCEPT ![self] = "pu"]
            /\ UNCHANGED << objText, nextObj, cache, readers, writer, fileLock, 
                            filePos, buf, ruleLock, want, answer, sched, i, r, 
                            line >>

pu(self) == /\ pc[self] = "pu"
            /\ IF UseRuleLock
                  THEN /\ ruleLock' = [ruleLock EXCEPT ![r[self]] = 0]
                  ELSE /\ TRUE
                       /\ UNCHANGED ruleLock
            /\ pc' = [pc EXCEPT ![self] = "fin"]
            /\ UNCHANGED << objText, objRegex, nextObj, cache, readers, writer, 
                            fileLock, filePos, buf, want, answer, sched, i, r, 
                            line >>

fin(self) == /\ pc[self] = "fin"
             /\ answer' = [answer EXCEPT ![self] = objText[r[self]]]
             /\ pc' = [pc EXCEPT ![self] = "Done"]
             /\ UNCHANGED << objText, objRegex, nextObj, cache, readers, 
                             writer, fileLock, filePos, buf, ruleLock, want, 
                             sched, i, r, line >>

g(self) == pick(self) \/ rl(self) \/ lk(self) \/ ru(self) \/ miss(self)
              \/ fl(self) \/ sk(self) \/ btw(self) \/ rd(self) \/ cp(self)
              \/ fu(self) \/ mk(self) \/ bi(self) \/ wl(self) \/ ins(self)
              \/ wu(self) \/ pl(self) \/ ck(self) \/ bc(self) \/ st(self)
              \/ pu(self) \/ fin(self)

(* Allow infinite stuttering to prevent deadlock on termination. *)
Terminating == /\ \A self \in ProcSet: pc[self] = "Done"
               /\ UNCHANGED vars

Next == (\E self \in G: g(self))
           \/ Terminating

Spec == Init /\ [][Next]_vars

Termination == <>(\A self \in ProcSet: pc[self] = "Done")

\* END TRANSLATION

View == <<objText, objRegex, nextObj, cache, readers, writer, fileLock, filePos, buf, ruleLock, want, answer, i, r, line, pc>>
TraceView == <<View, sched>>
\* every goroutine gets the rule stored at the index it asked for (no torn seek/read, no mixed-up objects)
Correct == \A p \in G : pc[p] = "Done" => answer[p] = want[p]
BufAccess == {"rd", "cp"}
\* lockset discipline: no two goroutines at conflicting accesses of one shared variable
BufDiscipline == \A p, q \in G : (p # q /\ pc[p] \in BufAccess) => pc[q] \notin BufAccess
SeekReadAtomic == \A p, q \in G : (p # q /\ pc[p] \in {"btw", "rd"}) => pc[q] \notin {"sk", "btw", "rd"}
CacheDiscipline == \A p, q \in G : (p # q /\ pc[p] = "ins") => pc[q] \notin {"lk", "ins"}
RegexDiscipline == \A p, q \in G : (p # q /\ pc[p] \in {"ck", "bc", "st"} /\ pc[q] \in {"ck", "bc", "st"}) => r[p] # r[q]
\* trace validation: the recorded execution is accepted iff this "invariant" is VIOLATED, i.e. some behaviour of the
\* specification performs exactly the recorded yield events and terminates
NotReplayed == ~(Follow /\ (\A p \in G : pc[p] = "Done") /\ sched = TraceSched)
=============================================================================
