----------------------------- MODULE MC_Rewrites -----------------------------
(* C09, spec -> code: every sequence of distinct symbols of length <= MaxLen  *)
(* over a core alphabet; each symbol is a $dnsrewrite rule (value x important *)
(* x exception).  Emits the expected effective sequence.                      *)
EXTENDS Rewrites, Json, SequencesExt

CONSTANTS Core, MaxLen      \* Core: set of symbol numbers (indices of Syms)

V(c, rc, rr, v) == [cname |-> c, rcode |-> rc, rrtype |-> rr, value |-> v]
\* value table: name, $dnsrewrite text, parsed abstract value
Vals == << [n |-> "A1",    t |-> "1.1.1.1",                    v |-> V("", "NOERROR", "A", "1.1.1.1")],
           [n |-> "A2",    t |-> "2.2.2.2",                    v |-> V("", "NOERROR", "A", "2.2.2.2")],
           [n |-> "A1L",   t |-> "NOERROR;A;1.1.1.1",          v |-> V("", "NOERROR", "A", "1.1.1.1")],
           [n |-> "AAAA",  t |-> "::1",                        v |-> V("", "NOERROR", "AAAA", "::1")],
           [n |-> "C1",    t |-> "c1.test",                    v |-> V("c1.test", "NOERROR", "", "")],
           [n |-> "C2",    t |-> "NOERROR;CNAME;c2.test",      v |-> V("c2.test", "NOERROR", "", "")],
           [n |-> "NX",    t |-> "NXDOMAIN",                   v |-> V("", "NXDOMAIN", "", "")],
           [n |-> "REF",   t |-> "REFUSED;;",                  v |-> V("", "REFUSED", "", "")],
           [n |-> "TXT",   t |-> "NOERROR;TXT;hello",          v |-> V("", "NOERROR", "TXT", "hello")],
           [n |-> "MX",    t |-> "NOERROR;MX;10 mx.test",      v |-> V("", "NOERROR", "MX", "10 mx.test")],
           [n |-> "SRV",   t |-> "NOERROR;SRV;1 2 3 srv.test", v |-> V("", "NOERROR", "SRV", "1 2 3 srv.test")],
           [n |-> "HTTPS", t |-> "NOERROR;HTTPS;1 . alpn=h3",  v |-> V("", "NOERROR", "HTTPS", "1 . alpn=h3")],
           \* a record type without a value parser: the type is kept, the value is not
           [n |-> "NS",    t |-> "NOERROR;NS;ns1.example",     v |-> V("", "NOERROR", "NS", "")],
           \* two service bindings without parameters that differ in nothing but the target
           [n |-> "HT1",   t |-> "NOERROR;HTTPS;1 c1.test",    v |-> V("", "NOERROR", "HTTPS", "1 c1.test")],
           [n |-> "HT2",   t |-> "NOERROR;HTTPS;1 c2.test",    v |-> V("", "NOERROR", "HTTPS", "1 c2.test")],
           \* a canonical name written with capitals, in the short and in the long spelling: one value
           [n |-> "C3",    t |-> "Edge.C1.test",               v |-> V("Edge.C1.test", "NOERROR", "", "")],
           [n |-> "C3L",   t |-> "NOERROR;CNAME;Edge.C1.test", v |-> V("Edge.C1.test", "NOERROR", "", "")],
           [n |-> "EMPTY", t |-> "",                           v |-> Empty] >>
NV == Len(Vals)
\* symbol k: value (k-1) \div 4 + 1, important iff bit 0, exception iff bit 1; the empty value only makes sense on exceptions
SymOf(k) == LET vi == (k - 1) \div 4 + 1
                b  == (k - 1) % 4
            IN [id |-> k, vi |-> vi, exc |-> b \div 2 = 1, important |-> b % 2 = 1, val |-> Vals[vi].v]
AllSyms == { k \in 1..(4 * NV) : ~(Vals[(k - 1) \div 4 + 1].n = "EMPTY" /\ ~SymOf(k).exc) }
Syms == [k \in 1..(4 * NV) |-> SymOf(k)]

VARIABLE s          \* sequence of symbol numbers
Init == s = <<>>
Next == /\ Len(s) < MaxLen
        /\ \E k \in (Core \cap AllSyms) \ Range(s) : s' = Append(s, k)
Rules(q) == [i \in 1..Len(q) |-> Syms[q[i]]]
Exp(q) == LET R == Rules(q) IN [i \in 1..Len(EffectiveIdx(R)) |-> q[EffectiveIdx(R)[i]]]

Emit == /\ (s = <<>> => PrintT(ToJson([kind |-> "ALPHABET", vals |-> Vals, syms |-> [k \in 1..(4 * NV) |-> [id |-> k, vi |-> Syms[k].vi, exc |-> Syms[k].exc, important |-> Syms[k].important, ok |-> k \in AllSyms]]])))
        /\ PrintT(ToJson([kind |-> "CASE", s |-> s, exp |-> Exp(s)]))

(* ---- model-level theorems ---- *)
NoException  == \A i \in 1..Len(Effective(Rules(s))) : ~Effective(Rules(s))[i].exc
\* moving every exception to the front (or to the back) changes nothing
ExcFirst(q) == SelectSeq(q, LAMBDA k : Syms[k].exc) \o SelectSeq(q, LAMBDA k : ~Syms[k].exc)
ExcLast(q)  == SelectSeq(q, LAMBDA k : ~Syms[k].exc) \o SelectSeq(q, LAMBDA k : Syms[k].exc)
PositionFree == Exp(ExcFirst(s)) = Exp(s) /\ Exp(ExcLast(s)) = Exp(s)
\* the two-pass algorithm computes the same thing
LoopAgrees == TwoPass(Rules(s)) = Effective(Rules(s))
\* (self-test only, expected to FAIL) the index-skipping loop of the pinned tree is not the meaning
SkippingAgrees == LoopSkipping(Rules(s), 1) = Effective(Rules(s))
ImportantSafe == \A i \in 1..Len(s) : (Syms[s[i]].important /\ ~Syms[s[i]].exc /\ ~\E j \in 1..Len(s) : Syms[s[j]].exc /\ Syms[s[j]].important)
                                         => s[i] \in Range(Exp(s))
=============================================================================
