----------------------------- MODULE MC_DNSEngine -----------------------------
(* C02, spec -> code: every set of up to MaxRules entries of the pool exported *)
(* by the harness (dnspool.ndjson: network rules as abstract Rule records,     *)
(* hosts entries, DNS requests, real djb2 values of the hostnames - two of     *)
(* which genuinely collide), answered by DNSEngine!RefAnswer.                  *)
EXTENDS DNSEngine, Json, TLC
CONSTANT MaxRules
P == ndJsonDeserialize("dnspool.ndjson")[1]
SetOf(s) == { s[k] : k \in 1..Len(s) }
RuleOfJson(j) ==
    [white |-> j.white, important |-> j.important, badfilter |-> j.badfilter, pat |-> j.pat,
     third |-> j.third, mcase |-> j.mcase,
     permTypes |-> SetOf(j.permTypes), restTypes |-> SetOf(j.restTypes),
     permDom |-> SetOf(j.permDom), restDom |-> SetOf(j.restDom), denyallow |-> SetOf(j.denyallow),
     permDns |-> SetOf(j.permDns), restDns |-> SetOf(j.restDns),
     permTag |-> SetOf(j.permTag), restTag |-> SetOf(j.restTag),
     permCli |-> SetOf(j.permCli), restCli |-> SetOf(j.restCli),
     docOpts |-> SetOf(j.docOpts), misc |-> SetOf(j.misc), rewrite |-> j.rewrite]
Entry(i) == IF P.entries[i].kind = "net" THEN [kind |-> "net", r |-> RuleOfJson(P.entries[i].rule), id |-> i]
            ELSE [kind |-> "host", fam |-> P.entries[i].fam, names |-> SetOf(P.entries[i].names), id |-> i]
Entries == [i \in 1..Len(P.entries) |-> Entry(i)]
Queries == [k \in 1..Len(P.queries) |-> [P.queries[k] EXCEPT !.tags = SetOf(P.queries[k].tags)]]
HashTab == [k \in 1..Len(P.hashes) |-> P.hashes[k]]
Hreal(w) == LET K == { k \in 1..Len(HashTab) : HashTab[k].w = w } IN IF K = {} THEN "unlisted" ELSE HashTab[CHOOSE k \in K : TRUE].h

\* Accepts is evaluated once per (pattern, match-case, target) and looked up afterwards
AllPats    == { Entries[i].r.pat : i \in { j \in 1..Len(Entries) : Entries[j].kind = "net" } }
AllTargets == { Queries[k].url : k \in 1..Len(Queries) } \cup { JoinDots(Queries[k].host) : k \in 1..Len(Queries) }
PatCache   == [p \in AllPats, m \in BOOLEAN, t \in AllTargets |-> Accepts(p, m, t)]
CacheOK    == \A i \in 1..Len(Entries) : Entries[i].kind = "net" =>
                 \A k \in 1..Len(Queries) : PatCache[Entries[i].r.pat, MatchCase(Entries[i].r), Target(Entries[i].r, Queries[k])] = PatternOK(Entries[i].r, Queries[k])
MatchC(r, q) == ModifiersOK(r, q) /\ PatCache[r.pat, MatchCase(r), Target(r, q)]

MaxOf(s) == IF s = {} THEN 0 ELSE Max(s)
VARIABLE sel
Init == sel = {}
Next == Cardinality(sel) < MaxRules /\ \E i \in (MaxOf(sel) + 1)..Len(Entries) : sel' = sel \cup {i}
LL == { Entries[i] : i \in sel }
IdOfRule(r) == CHOOSE i \in sel : Entries[i].kind = "net" /\ Entries[i].r = r
\* RefAnswer with the cached pattern evaluation
Answer(q) ==
    LET NR == { r \in NetOf(LL) : HostLevel(r) /\ MatchC(r, q) } IN
    IF DNSClass(NR) # "none"
    THEN [net |-> { IdOfRule(r) : r \in NR }, class |-> DNSClass(NR), winners |-> { IdOfRule(r) : r \in DNSWinners(NR) },
          v4 |-> {}, v6 |-> {}, matched |-> TRUE]
    ELSE LET HS == { e \in HostsOf(LL) : q.host \in e.names } IN
         [net |-> { IdOfRule(r) : r \in NR }, class |-> "none", winners |-> {},
          v4 |-> { e.id : e \in { x \in HS : x.fam = "v4" } }, v6 |-> { e.id : e \in { x \in HS : x.fam = "v6" } }, matched |-> HS # {}]
Emit == PrintT(ToJson([kind |-> "CASE", sel |-> sel, exp |-> [k \in 1..Len(Queries) |-> Answer(Queries[k])]]))
\* the hashed host table finds exactly the entries naming the host, whatever collides
HostTableOK == \A k \in 1..Len(Queries) : TableEqualsRef(LL, Queries[k])
\* the cached evaluation is the specification's Match
AnswerIsRef == sel = {} => CacheOK
\* the network rules of the pool are pairwise distinct, so an entry number identifies a rule
Distinct == sel = {} => \A i, j \in 1..Len(Entries) : (i # j /\ Entries[i].kind = "net" /\ Entries[j].kind = "net") => Entries[i].r # Entries[j].r
=============================================================================
