-------------------------- MODULE MC_CosmeticEngine --------------------------
(* C15, spec -> code: every set of at most MaxRules rules of the pool, on     *)
(* every host of the universe and every combination of the option flags.      *)
EXTENDS Cosmetic, Json, FiniteSetsExt, TLC
CONSTANT MaxRules
D(a, b)       == <<a, b>>
exampleOrg    == <<Str("example"), Str("org")>>
subExampleOrg == <<Str("sub"), Str("example"), Str("org")>>
aSubExample   == <<Str("a"), Str("sub"), Str("example"), Str("org")>>
otherOrg      == <<Str("other"), Str("org")>>
exampleCom    == <<Str("example"), Str("com")>>
exampleCoUk   == <<Str("example"), Str("co"), Str("uk")>>
notexampleOrg == <<Str("notexample"), Str("org")>>
exampleWild   == <<Str("example"), <<42>>>>
exampleOther  == <<Str("example"), Str("other"), Str("com")>>     \* "example." followed by something that is no public suffix
subExampleWild == <<Str("sub"), Str("example"), <<42>>>>          \* a name of several labels under any public suffix
myShopExample  == <<Str("my_shop"), Str("example"), Str("org")>>  \* labels of a page's own name need not be letters and digits
dashExample    == <<Str("-cdn"), Str("sub"), Str("example"), Str("org")>>
Hosts == <<exampleOrg, subExampleOrg, aSubExample, otherOrg, exampleCom, exampleCoUk, notexampleOrg, exampleOther, myShopExample, dashExample>>
R(e, c, p, x) == [exc |-> e, content |-> c, permDom |-> p, restDom |-> x]
Pool == << R(FALSE, "s1", {}, {}), R(FALSE, "s2", {}, {}), R(FALSE, "s1", {}, {exampleOrg}),
           R(FALSE, "s1", {exampleOrg}, {}), R(FALSE, "s2", {exampleOrg}, {}), R(FALSE, "s3", {subExampleOrg}, {}),
           R(FALSE, "s3", {exampleOrg, exampleCom}, {}), R(FALSE, "s2", {exampleOrg}, {subExampleOrg}),
           R(FALSE, "s1", {exampleWild}, {}), R(FALSE, "s1", {exampleCom}, {exampleCom}), R(FALSE, "s3", {}, {exampleWild}),
           R(FALSE, "s2", {exampleWild, otherOrg}, {}), R(FALSE, "s3", {subExampleWild}, {}),
           R(FALSE, "s2", {exampleOrg, notexampleOrg}, {}),
           R(TRUE, "s1", {exampleOrg}, {}), R(TRUE, "s1", {subExampleOrg}, {}), R(TRUE, "s2", {exampleCom}, {}),
           R(TRUE, "s3", {exampleWild}, {}), R(TRUE, "s2", {exampleOrg}, {subExampleOrg}) >>
NP == Len(Pool)
Flags == { <<c, g, j>> : c \in BOOLEAN, g \in BOOLEAN, j \in BOOLEAN }
MaxOf(s) == IF s = {} THEN 0 ELSE Max(s)
VARIABLE sel
Init == sel = {}
Next == Cardinality(sel) < MaxRules /\ \E i \in (MaxOf(sel) + 1)..NP : sel' = sel \cup {i}
RS == { Pool[i] : i \in sel }
Row(css, gcss) == [k \in 1..Len(Hosts) |->
                     [g |-> GenericResult(RS, Hosts[k], PublicSuffix(Hosts[k]), css, gcss),
                      s |-> SpecificResult(RS, Hosts[k], PublicSuffix(Hosts[k]), css)]]
Emit == /\ (sel = {} => PrintT(ToJson([kind |-> "POOL", pool |-> Pool, hosts |-> Hosts, psl |-> [k \in 1..Len(Hosts) |-> PublicSuffix(Hosts[k])]])))
        /\ PrintT(ToJson([kind |-> "CASE", sel |-> sel, on |-> Row(TRUE, TRUE), nogeneric |-> Row(TRUE, FALSE)]))
\* with CSS disabled nothing is returned; without generic CSS only the generic part disappears
FlagsOK == \A k \in 1..Len(Hosts) :
             /\ Row(FALSE, TRUE)[k].g = {} /\ Row(FALSE, TRUE)[k].s = {} /\ Row(FALSE, FALSE)[k].s = {}
             /\ Row(TRUE, FALSE)[k].g = {} /\ Row(TRUE, FALSE)[k].s = Row(TRUE, TRUE)[k].s
\* a rule listed for a domain also applies to its sub-domains
SubdomainsCovered == \A i \in sel : (~Pool[i].exc /\ Pool[i].permDom = {exampleOrg} /\ Pool[i].restDom = {}) =>
                        (Applies(Pool[i], subExampleOrg, PublicSuffix(subExampleOrg)) /\ Applies(Pool[i], aSubExample, PublicSuffix(aSubExample)))
=============================================================================
