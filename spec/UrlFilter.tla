------------------------------ MODULE UrlFilter ------------------------------
(* C13 / C19: the engines as a whole, seen through histories.                 *)
(*                                                                           *)
(* Design model (checked by MC_UrlFilter): lists L of rules, each rule kept    *)
(* only as an index; a rule object exists once it has been MATERIALISED        *)
(* (retrieved into the cache, or held directly by the sequential table);       *)
(* hidden state: cache, the pooled request record, lazily compiled patterns;   *)
(* faults: Close / BreakFd make file-backed lists unreadable.                   *)
(*                                                                           *)
(* The binding to the code is by trace validation: Trace_History.tla and       *)
(* Trace_Fault.tla (operators in Histories.tla) state the same properties on   *)
(* recorded histories of the real engines.                                     *)
EXTENDS Integers, Sequences, FiniteSets, TLC

(* ---------------- design model ---------------- *)
CONSTANTS Rules,          \* abstract rule ids
          Queries,        \* abstract query ids
          Acc,            \* Acc[q]: the rules that match q (a pure function of lists and query)
          Cand,           \* Cand[q]: the rules whose index bucket q probes (Acc[q] \subseteq Cand[q])
          InFile,         \* rules kept in a file-backed list (the others are in memory or in the sequential table)
          PoolFields      \* per-request fields of the pooled request record that matching reads

VARIABLES cache, closed, pool, hist
vars == <<cache, closed, pool, hist>>

\* retrieval: cached rules are served; otherwise the list must be readable
Materialise(r) == r \in cache \/ r \notin InFile \/ ~closed
\* the answer to q in the current state: probe the buckets, materialise, re-check
Answer(q) == { r \in Cand[q] : Materialise(r) /\ r \in Acc[q] }
RefAnswer(q) == Acc[q]

InitM == cache = {} /\ closed = FALSE /\ pool = [f \in PoolFields |-> "stale"] /\ hist = <<>>
\* a query: the pooled record is refilled from the request (every field matching reads), candidates are materialised
Query(q) == /\ pool' = [f \in PoolFields |-> q]
            /\ cache' = cache \cup { r \in Cand[q] : Materialise(r) /\ r \in InFile }
            /\ hist' = Append(hist, [q |-> q, a |-> Answer(q), closed |-> closed, cacheBefore |-> cache])
            /\ UNCHANGED closed
\* derived results (verdict, effective rewrites, cosmetic option) change nothing
Derive == UNCHANGED vars
Fault  == ~closed /\ closed' = TRUE /\ UNCHANGED <<cache, pool, hist>>
NextM  == (\E q \in Queries : Query(q)) \/ Fault

\* C13: answers are a pure function of lists and request
Pure == \A k \in 1..Len(hist) : ~hist[k].closed => hist[k].a = RefAnswer(hist[k].q)
\* no per-request data survives in the pooled record: after a query every field matching reads holds the current request's value
PoolRefilled == hist # <<>> => \A f \in PoolFields : pool[f] = hist[Len(hist)].q
\* C19: after the fault answers are a subset of the fault-free answers, and what was materialised is still served
FaultSubset == \A k \in 1..Len(hist) : hist[k].a \subseteq RefAnswer(hist[k].q)
StillServed == \A k \in 1..Len(hist) : (hist[k].cacheBefore \cap RefAnswer(hist[k].q)) \subseteq hist[k].a
MemoryUnaffected == \A k \in 1..Len(hist) : (RefAnswer(hist[k].q) \ InFile) \subseteq hist[k].a

=============================================================================
