----------------------------- MODULE MC_NetIndex -----------------------------
(* C01, spec -> code: every insertion sequence of up to MaxRules rules from    *)
(* the pool exported by the harness (pool.ndjson: rules with real shortcuts   *)
(* and domains, queries, and the REAL djb2 value of every window and domain),  *)
(* checked against IndexEqualsScan in the model and emitted for replay.        *)
EXTENDS NetIndex, Json, TLC
CONSTANTS MaxRules, Dev, SubPool     \* SubPool: numbers of the pool rules that may be inserted ({} = all)
P == ndJsonDeserialize("pool.ndjson")[1]
SetOfS(s) == { s[k] : k \in 1..Len(s) }
Rules == [i \in 1..Len(P.rules) |-> [text |-> P.rules[i].text, sc |-> P.rules[i].sc, doms |-> SetOfS(P.rules[i].doms), id |-> i]]
Queries == [k \in 1..Len(P.queries) |-> P.queries[k]]
HashTab == [k \in 1..Len(P.hashes) |-> P.hashes[k]]
HF == [w \in { HashTab[k].w : k \in 1..Len(HashTab) } |-> (CHOOSE k \in 1..Len(HashTab) : HashTab[k].w = w)]
Hreal(w) == IF w \in DOMAIN HF THEN HashTab[HF[w]].h ELSE "unlisted"

VARIABLE ins          \* sequence of pool rule numbers, in insertion order
Init == ins = <<>>
Allowed == IF SubPool = {} THEN 1..Len(Rules) ELSE SubPool \cap 1..Len(Rules)
Next == Len(ins) < MaxRules /\ \E i \in Allowed : ins' = Append(ins, i)
RS == [k \in 1..Len(ins) |-> Rules[ins[k]]]
IX == Build(EmptyIndex, RS, Dev)
Ids(R) == { r.id : r \in R }
Emit == /\ PrintT(ToJson([kind |-> "CASE", ins |-> ins,
                          exp |-> [k \in 1..Len(Queries) |-> Ids(MatchAll(IX, Queries[k]))],
                          tables |-> [s |-> Cardinality(DOMAIN IX.sTab), d |-> Cardinality(DOMAIN IX.dTab), q |-> Len(IX.seq)]]))
\* every window / domain the model hashes has a real hash value in the pool file
HashesListed == \A k \in 1..Len(ins) : LET r == RS[k] IN
                   /\ \A i \in 1..Len(WindowsSeq(r.sc)) : WindowsSeq(r.sc)[i] \in DOMAIN HF
                   /\ \A d \in r.doms : JoinDots(d) \in DOMAIN HF
LookupEqualsScan == \A k \in 1..Len(Queries) :
                       Ids(MatchAll(IX, Queries[k])) = { i \in SetOfS(ins) : RuleMatch(Rules[i], Queries[k]) }
                       \* ids stand for texts: pool texts are pairwise distinct
=============================================================================
