---------------------------- MODULE ProxyProofs ----------------------------
(* TLAPS proofs about ProxySession.tla for EVERY rule set (BlockedTypes any   *)
(* set, DocException any Boolean) - TLC checks the same statements for the    *)
(* rule sets of the tier only.                                                *)
(*  * StableType: when a request header decides the content type, the         *)
(*    response cannot change it.                                              *)
(*  * NoLeakInductive: Inv is an inductive invariant of the exchange machine  *)
(*    and implies NoLeak (a request blocked on its headers never reaches the  *)
(*    origin) and CondOnlyForStatic.                                          *)
EXTENDS ProxySession, TLAPS

THEOREM StableType ==
    ASSUME NEW q \in Requests, NEW ct \in CTypes, HeaderDecides(q)
    PROVE  AssumeType(q, ct) = AssumeType(q, Absent)
  BY DEF AssumeType, HeaderDecides

Inv == /\ phase \in {"idle", "arrived", "forwarded", "answered", "done"}
       /\ (phase \in {"idle", "arrived"} => ~originHit /\ ~condSeen)
       /\ (originHit => ~Blocks(type1))
       /\ (phase \in {"forwarded", "answered"} => originHit)
       /\ (condSeen => req.cond /\ type1 \in StaticTypes)
       /\ ((phase = "done" /\ ~originHit) => out.body = "blockpage")

THEOREM InvInit == Init => Inv
  BY DEF Init, Inv, NoReq, None

THEOREM InvNext == Inv /\ [Next]_vars => Inv'
<1> SUFFICES ASSUME Inv, [Next]_vars PROVE Inv'
  OBVIOUS
<1>1. CASE Arrive
  BY <1>1 DEF Arrive, Inv
<1>2. CASE OnRequest
  BY <1>2 DEF OnRequest, Inv, SuppressCache
<1>3. CASE Origin
  BY <1>3 DEF Origin, Inv
<1>4. CASE OnResponse
  BY <1>4 DEF OnResponse, Inv
<1>5. CASE UNCHANGED vars
  BY <1>5 DEF vars, Inv
<1> QED
  BY <1>1, <1>2, <1>3, <1>4, <1>5 DEF Next

THEOREM Safety == Spec => []Inv
<1>1. Init => Inv
  BY InvInit
<1>2. Inv /\ [Next]_vars => Inv'
  BY InvNext
<1> QED
  BY <1>1, <1>2, PTL DEF Spec

THEOREM InvImpliesNoLeak == Inv => NoLeak /\ CondOnlyForStatic
  BY DEF Inv, NoLeak, CondOnlyForStatic
=============================================================================
