------------------------- MODULE Trace_ProxySession -------------------------
(* ProxySession, code -> spec: every event is one exchange that went through  *)
(* a real proxy.Server (seeded random request features over the FULL product, *)
(* shadowed headers included): what the origin saw and what the client got.   *)
(* Allowed iff that is the outcome of the model for the run's rule set.       *)
EXTENDS ProxyTypes, Json, Sequences
Trace == ndJsonDeserialize("trace.ndjson")
NCH == 32
VARIABLES ch, l
Init == ch = 0 /\ l = 0
Next == \/ (ch = 0 /\ l = 0 /\ ch' \in 1..NCH /\ l' = 0)
        \/ (ch > 0 /\ l = 0 /\ ch' = ch /\ l' \in { k \in 1..Len(Trace) : k % NCH = ch - 1 })
Proj(o) == [origin |-> o.origin, cond |-> o.cond, status |-> o.status, body |-> o.body, option |-> o.option]
Allowed == l > 0 =>
    LET e == Trace[l]
        x == Proj(Outcome(e.req, e.ct))
    IN (e.got = x) \/ ~PrintT(ToJson([kind |-> "REJECT", l |-> l, spec |-> x, code |-> e.got]))
=============================================================================
