------------------------------ MODULE Rewrites ------------------------------
(* C09: the effective DNS rewrites of a result.  A rewrite rule is            *)
(* [exc, important, val] where val is the parsed $dnsrewrite value            *)
(* [cname, rcode, rrtype, value] (strings; Empty is the empty value).         *)
(* Effective is defined with a quantifier over ALL positions, so that the     *)
(* position of an exception cannot matter; the implementation's in-place loop *)
(* is modelled separately in InPlace for comparison.                          *)
EXTENDS Integers, Sequences, FiniteSets, TLC

Empty == [cname |-> "", rcode |-> "NOERROR", rrtype |-> "", value |-> ""]

\* exception e disables rewrite r
Disables(e, r) ==
    /\ e.exc /\ ~r.exc
    /\ (r.important => e.important)
    /\ \/ e.val = Empty
       \/ e.val.cname # "" /\ r.val.cname = e.val.cname
       \/ /\ e.val.cname = "" /\ e.val # Empty
          /\ r.val.rcode = e.val.rcode
          /\ (e.val.rcode = "NOERROR" => r.val.rrtype = e.val.rrtype /\ r.val.value = e.val.value)

Keep(s, k) == ~s[k].exc /\ ~\E j \in 1..Len(s) : Disables(s[j], s[k])
\* positions of s that survive, in their original order
EffectiveIdx(s) == LET F[k \in 0..Len(s)] == IF k = 0 THEN <<>>
                                              ELSE IF Keep(s, k) THEN Append(F[k - 1], k) ELSE F[k - 1]
                   IN F[Len(s)]
Effective(s) == [i \in 1..Len(EffectiveIdx(s)) |-> s[EffectiveIdx(s)[i]]]

(* ---- algorithmic versions ---- *)
RemoveAt(s, i) == [k \in 1..(Len(s) - 1) |-> IF k < i THEN s[k] ELSE s[k + 1]]
\* two passes: collect the exceptions, then apply each of them to the non-exception rules
ApplyExc(rs, e) == SelectSeq(rs, LAMBDA r : ~Disables(e, r))
RECURSIVE ApplyAll(_, _, _)
ApplyAll(rs, es, k) == IF k > Len(es) THEN rs ELSE ApplyAll(ApplyExc(rs, es[k]), es, k + 1)
TwoPass(s) == ApplyAll(SelectSeq(s, LAMBDA r : ~r.exc), SelectSeq(s, LAMBDA r : r.exc), 1)

\* named deviation "RewriteDeleteWhileIterating": the loop of the pinned tree deleted the exception at index i,
\* applied it (to rewrites and exceptions alike) and then advanced i, skipping whatever had slid into position i
RawDisables(e, r) ==
    /\ (r.important => e.important)
    /\ \/ e.val = Empty
       \/ e.val.cname # "" /\ r.val.cname = e.val.cname
       \/ /\ e.val.cname = "" /\ e.val # Empty /\ r.val.rcode = e.val.rcode
          /\ (e.val.rcode = "NOERROR" => r.val.rrtype = e.val.rrtype /\ r.val.value = e.val.value)
RECURSIVE LoopSkipping(_, _)
LoopSkipping(s, i) == IF i > Len(s) THEN s
                      ELSE IF s[i].exc
                           THEN LoopSkipping(SelectSeq(RemoveAt(s, i), LAMBDA r : ~RawDisables(s[i], r)), i + 1)
                           ELSE LoopSkipping(s, i + 1)
=============================================================================
