---------------------------- MODULE Trace_NetIndex ----------------------------
(* C01, code -> spec: each event is one query against a network engine built   *)
(* from real-world lists: eng = texts of the rules MatchAll reported, scan =   *)
(* texts of the rules of the lists that individually match the request (the    *)
(* reference the property names).  Allowed iff both are the same SET.          *)
EXTENDS Integers, Sequences, FiniteSets, TLC, Json
Trace == ndJsonDeserialize("trace.ndjson")
NCH == 64
SetOf(s) == { s[k] : k \in 1..Len(s) }
VARIABLES ch, l
Init == ch = 0 /\ l = 0
Next == \/ ch = 0 /\ l = 0 /\ ch' \in 1..NCH /\ l' = 0
        \/ ch > 0 /\ l = 0 /\ ch' = ch /\ l' \in { k \in 1..Len(Trace) : k % NCH = ch - 1 }
Allowed == l > 0 =>
    LET e == Trace[l] IN
    (SetOf(e.eng) = SetOf(e.scan))
       \/ ~PrintT(ToJson([kind |-> "REJECT", l |-> l, spec |-> SetOf(e.scan) \ SetOf(e.eng), code |-> SetOf(e.eng) \ SetOf(e.scan)]))
=============================================================================
