---------------------------- MODULE Trace_Request ----------------------------
(* C17, code -> spec: each event is one NewRequest / NewRequestForHostname    *)
(* call on the real code.  Logged: the URL and source (codes), the hostname   *)
(* the standard URL parser reports (labels), the Public Suffix List answers   *)
(* for both hosts, and the fields of the resulting request.                   *)
EXTENDS Request, Json, TLC
Trace == ndJsonDeserialize("trace.ndjson")
NCH == 64
VARIABLES ch, l
Init == ch = 0 /\ l = 0
Next == \/ ch = 0 /\ l = 0 /\ ch' \in 1..NCH /\ l' = 0
        \/ ch > 0 /\ l = 0 /\ ch' = ch /\ l' \in { k \in 1..Len(Trace) : k % NCH = ch - 1 }
ExpOf(e) == IF e.kind = "url" THEN Fields(e.url, e.src, e.hostPsl, e.srcPsl) ELSE HostFields(e.host, e.hostPsl)
Agrees(e, x) ==
    IF e.kind = "url"
    THEN /\ x.host = e.nethost /\ x.srcHost = e.netsrc            \* the scanner agrees with the standard URL parser
         /\ e.got.host = x.host /\ e.got.srcHost = x.srcHost
         /\ e.got.domain = x.domain /\ e.got.srcDomain = x.srcDomain
         /\ e.got.thirdParty = x.thirdParty
         /\ e.got.url = x.url /\ e.got.lower = x.lower
    ELSE /\ e.got.host = x.host /\ e.got.domain = x.domain /\ e.got.thirdParty = x.thirdParty /\ e.got.url = x.url
Allowed == l > 0 =>
    LET e == Trace[l] IN
    Agrees(e, ExpOf(e)) \/ ~PrintT(ToJson([kind |-> "REJECT", l |-> l, spec |-> ExpOf(e), code |-> e.got]))
=============================================================================
