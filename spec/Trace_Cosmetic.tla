---------------------------- MODULE Trace_Cosmetic ----------------------------
(* C15, code -> spec: each event is one CosmeticEngine.Match call on an engine  *)
(* built from a sample of the element-hiding rules of the bundled real-world    *)
(* lists.  Logged: the hostname, the flags, the rules of the engine's lists that *)
(* APPLY to the hostname according to CosmeticRule.Match - the reference the     *)
(* property names - as [content, exc, generic], and the generic / specific       *)
(* selectors the engine returned.  Allowed iff the result is exactly the         *)
(* applicable non-exception rules not cancelled by an applicable exception with  *)
(* the same content, filed by kind and filtered by the flags.                    *)
EXTENDS Integers, Sequences, FiniteSets, TLC, Json
Trace == ndJsonDeserialize("trace.ndjson")
NCH == 64
SetOf(s) == { s[k] : k \in 1..Len(s) }
VARIABLES ch, l
Init == ch = 0 /\ l = 0
Next == \/ ch = 0 /\ l = 0 /\ ch' \in 1..NCH /\ l' = 0
        \/ ch > 0 /\ l = 0 /\ ch' = ch /\ l' \in { k \in 1..Len(Trace) : k % NCH = ch - 1 }
Live(A) == { r \in A : ~r.exc /\ ~\E e \in A : e.exc /\ e.content = r.content }
ExpG(e) == IF e.css /\ e.gcss THEN { r.content : r \in { x \in Live(SetOf(e.applicable)) : x.generic } } ELSE {}
ExpS(e) == IF e.css THEN { r.content : r \in { x \in Live(SetOf(e.applicable)) : ~x.generic } } ELSE {}
Allowed == l > 0 =>
    LET e == Trace[l] IN
    (SetOf(e.generic) = ExpG(e) /\ SetOf(e.specific) = ExpS(e) /\ ~e.panic)
       \/ ~PrintT(ToJson([kind |-> "REJECT", l |-> l, spec |-> [g |-> ExpG(e) \ SetOf(e.generic), s |-> ExpS(e) \ SetOf(e.specific)],
                          code |-> [g |-> SetOf(e.generic) \ ExpG(e), s |-> SetOf(e.specific) \ ExpS(e)]]))
=============================================================================
