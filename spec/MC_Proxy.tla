------------------------------ MODULE MC_Proxy ------------------------------
(* C20, spec -> code: bodies of up to 6 segments with markers placed before,  *)
(* on and beyond the 16 KiB boundary (original and transcoded), all four      *)
(* markers in three letter cases, fillers of ASCII, high and NUL bytes.       *)
EXTENDS Proxy, Json
CONSTANT Deep
Edge  == (Window - 9)..(Window + 1)
Lens  == {0, 5} \cup Edge
Kinds == {"ascii", "high", "nul"}
Cases == {"lower", "upper", "mixed"}
Fill(k, n) == [k |-> k, n |-> n]
Mk(m, cs)  == [k |-> "marker", m |-> m, cs |-> cs]
Near(m)    == [k |-> "near", m |-> m]
MarkSet    == { Mk(m, cs) : m \in Markers, cs \in Cases }
MarkFew    == { Mk("</head", "lower"), Mk("<script", "mixed"), Mk("<link", "upper") }

\* L1: filler, marker, tail
L1 == { <<Fill(k, n), mk, Fill("ascii", 40)>> : k \in Kinds, n \in Lens, mk \in MarkSet }
\* L2: ASCII filler then high bytes then a marker: original and transcoded offsets straddle the boundary differently
L2 == UNION { { <<Fill("ascii", a), Fill("high", hb), mk>> :
                    a \in { Window - 2 * hb + d : d \in -9..1 } \cup { Window - hb + d : d \in -9..1 }, mk \in MarkFew }
              : hb \in {1, 8, 100} }
\* L3: a near-marker first, then a marker, then a second marker that must not be used
L3 == { <<Fill("ascii", n), Near(m), Fill(k, 3), mk, Fill("ascii", 7), Mk("<style", "lower")>> :
          n \in {0, Window - 20, Window - 9, Window - 5}, m \in Markers, k \in Kinds, mk \in MarkFew }
\* L3c: a look-alike made of control bytes in front of the real marker, and alone
Ctl(m) == [k |-> "ctl", m |-> m]
L3c == { <<Fill("ascii", n), Ctl(m), Fill("ascii", 2), mk>> : n \in {0, 9}, m \in Markers, mk \in MarkFew }
       \cup { <<Fill("ascii", 5), Ctl(m), Fill("nul", 3)>> : m \in Markers }
\* L4: no marker at all / only beyond the window / nothing
L4 == { <<Fill(k, n)>> : k \in Kinds, n \in {0, 10, 20000} } \cup { <<Fill("ascii", Window + 50), mk>> : mk \in MarkFew }
      \cup { <<Near(m), Fill("nul", 4)>> : m \in Markers } \cup { <<>> }
\* L5 (thorough): two markers around the boundary, every filler kind in front
L5 == IF Deep THEN { <<Fill(k, n), mk, Fill(k2, d), mk2>> : k \in Kinds, k2 \in Kinds, n \in {Window - 12, Window - 6, Window - 5}, d \in {0, 1, 6},
                                                         mk \in MarkFew, mk2 \in MarkFew } ELSE {}
Bodies == L1 \cup L2 \cup L3 \cup L3c \cup L4 \cup L5

VARIABLE cur
Init == cur = <<[k |-> "root"]>>
Next == cur = <<[k |-> "root"]>> /\ cur' \in Bodies
IsCase == cur # <<[k |-> "root"]>>
Emit == IsCase => PrintT(ToJson([body |-> cur, len |-> BodyLen(cur), res |-> Result(cur)]))
\* the tag goes before a marker that lies in the window, and no marker before it does
FirstMarker == (IsCase /\ Result(cur).inject) =>
                  \E i \in MarkerIdx(cur) : /\ Off(cur, i) = Result(cur).at /\ TOff(cur, i) < Window
                                          /\ \A j \in MarkerIdx(cur) : j < i => FALSE
=============================================================================
