---------------------------- MODULE ScanSession ----------------------------
(* Scanning and retrieval as a state machine (filterlist/rulelist.go,          *)
(* rulescanner.go).  Storage.tla says what ONE scan of a list delivers and    *)
(* what retrieval by an index delivers; it says nothing about readers that    *)
(* are open at the same time.  Here several scanners of one list are open     *)
(* together and rules are retrieved, through the indexes the scanners have    *)
(* reported, in any interleaving - which is what happens when a second        *)
(* engine is built from a storage that a first engine is answering from.      *)
(*                                                                            *)
(*   Open(s)      NewScanner: scanner s starts at the first line              *)
(*   Step(s)      Scan(): the next line is read; a rule line is yielded with  *)
(*                the index the scanner's own byte count gives it             *)
(*   Get(s, n)    RetrieveRule: the n-th rule scanner s has yielded is        *)
(*                retrieved through the index reported with it                *)
(*                                                                            *)
(* Intended design (SharedOffset = FALSE): every reader has a position of     *)
(* its own; a scanner delivers ScanList(L) whatever else happens, retrieval   *)
(* returns the line that starts at the index.  A list held in memory          *)
(* (StringRuleList) is built that way.                                        *)
(*                                                                            *)
(* Named deviation FileOffsetShared (SharedOffset = TRUE): FileRuleList hands *)
(* every scanner the one *os.File of the list, and RetrieveRule seeks in that *)
(* same file: all readers move ONE offset, while each scanner goes on         *)
(* counting bytes as if it were alone.  A Step then reads the line at the     *)
(* shared offset, not the scanner's; the index it reports is the scanner's    *)
(* own count, so it points somewhere else.  TLC refutes Isolation on this     *)
(* variant at once (bin/check C11 runs it with the violation expected); the   *)
(* replay below shows the real FileRuleList doing the same.  The quantifier   *)
(* of C11 speaks of scanning a storage and then retrieving ("every rule       *)
(* produced by scanning ... can be retrieved again"), which both variants     *)
(* satisfy; readers open at the same time are outside it (DESIGN.md section   *)
(* 8), so this is recorded as an observation, not as a verdict.  (The model   *)
(* of the deviation reads one line per Step; the implementation reads ahead   *)
(* in 4 KiB blocks, which changes where the damage lands, not whether.)       *)
EXTENDS Storage, SequencesExt

CONSTANTS L,             \* the list: [id, ic, lines]
          Scanners,      \* names of the scanners
          MaxGets,       \* bound on retrievals in one session
          SharedOffset   \* FALSE: intended design; TRUE: deviation FileOffsetShared

N == Len(L.lines)
VARIABLES cur,    \* scanner -> 0 (not open) | 1..N (next line of ITS OWN count) | N + 1 (Scan returned false)
          pos,    \* scanner -> the byte offset the scanner believes it is at (what it reports as index)
          out,    \* scanner -> the rules it has yielded so far: [line, idx]
          off,    \* the line the one file offset stands at (only read when SharedOffset)
          got,    \* the retrievals made: [idx, line]   (line 0: nothing there)
          hist    \* the schedule so far (replayed by the harness)
vars == <<cur, pos, out, off, got, hist>>

Init == /\ cur = [s \in Scanners |-> 0] /\ pos = [s \in Scanners |-> 0] /\ out = [s \in Scanners |-> <<>>]
        /\ off = 1 /\ got = <<>> /\ hist = <<>>

LineAt(offset) == LET K == { k \in 1..N : StartOf(L.lines, k) = offset } IN IF K = {} THEN 0 ELSE CHOOSE k \in K : TRUE

Open(s) == /\ cur[s] = 0
           /\ cur' = [cur EXCEPT ![s] = 1] /\ pos' = [pos EXCEPT ![s] = 0]
           /\ off' = 1                                       \* NewScanner seeks to the start
           /\ hist' = Append(hist, [op |-> "open", s |-> s, n |-> 0])
           /\ UNCHANGED <<out, got>>

\* One call of Scan(): lines are read, from where the reader stands, up to and including the next one that is yielded
\* (comments, blank and rejected lines are passed over), or to the end.  The index reported is the scanner's own count.
Off(k) == IF k = N + 1 THEN Size(L.lines) ELSE StartOf(L.lines, k)
NextYield(k) == LET J == { j \in k..N : Yields(L, j) } IN IF J = {} THEN N + 1 ELSE CHOOSE j \in J : \A i \in J : j <= i
Seen(s) == IF SharedOffset THEN off ELSE cur[s]          \* where the reader of scanner s stands
Step(s) == /\ cur[s] \in 1..N
           /\ LET k0 == Seen(s)
                  j  == IF k0 > N THEN N + 1 ELSE NextYield(k0)
                  at == pos[s] + (Off(j) - Off(IF k0 > N THEN N + 1 ELSE k0))
              IN IF j = N + 1
                 THEN /\ cur' = [cur EXCEPT ![s] = N + 1] /\ pos' = [pos EXCEPT ![s] = at] /\ off' = N + 1
                      /\ UNCHANGED out
                 ELSE /\ out' = [out EXCEPT ![s] = Append(@, [line |-> j, idx |-> at])]
                      /\ pos' = [pos EXCEPT ![s] = at + LineLen(L.lines[j])]
                      /\ cur' = [cur EXCEPT ![s] = IF SharedOffset THEN (IF j = N THEN N + 1 ELSE @) ELSE j + 1]
                      /\ off' = j + 1
           /\ hist' = Append(hist, [op |-> "step", s |-> s, n |-> 0])
           /\ UNCHANGED got

\* retrieval through the index reported with the n-th rule scanner s has yielded
Get(s, n) == /\ Len(got) < MaxGets /\ n \in 1..Len(out[s])
             /\ LET i == out[s][n].idx IN
                /\ got' = Append(got, [idx |-> i, line |-> LineAt(i)])
                /\ off' = IF LineAt(i) = 0 THEN off ELSE LineAt(i) + 1      \* the seek and the read move the one offset
             /\ hist' = Append(hist, [op |-> "get", s |-> s, n |-> n])
             /\ UNCHANGED <<cur, pos, out>>

Next == \E s \in Scanners : Open(s) \/ Step(s) \/ \E n \in 1..N : Get(s, n)
Spec == Init /\ [][Next]_vars /\ \A s \in Scanners : WF_vars(Open(s) \/ Step(s))

(* ---- properties of the intended design ---- *)
Expected == [n \in 1..Len(ScanList(L)) |-> [line |-> ScanList(L)[n].line, idx |-> ScanList(L)[n].idx[2]]]
\* whatever else is open or retrieved meanwhile, a scanner delivers the scan of the list, in order, with the right indexes
Isolation == \A s \in Scanners : IsPrefix(out[s], Expected)
Complete  == \A s \in Scanners : cur[s] = N + 1 => out[s] = Expected
\* an index a scanner reported leads back to the line it was reported for
RetrievedRight == \A g \in Range(got) : g.line # 0 /\ \E n \in 1..Len(Expected) : Expected[n].idx = g.idx /\ Expected[n].line = g.line
\* every scanner that is opened comes to its end
Done == \A s \in Scanners : cur[s] = N + 1
Terminates == <>Done
=============================================================================
