------------------------------ MODULE Request ------------------------------
(* C17: the fields of a request.  A URL inside the contract is               *)
(*      scheme "://" host [":" port] [tail] where tail is "/path", "?query"   *)
(*      (each optionally followed by "#fragment"); no userinfo, no fragment    *)
(*      directly after the host.                                              *)
(* HostOf is the hostname scanner over the characters of the URL; the fields  *)
(* follow from it, from the Public Suffix List answers (environment inputs,   *)
(* Domains.tla) and from the 4 KiB cap.                                       *)
EXTENDS Domains, SequencesExt

MaxURL == 4096
Cap(u) == IF Len(u) > MaxURL THEN SubSeq(u, 1, MaxURL) ELSE u

\* index of the first occurrence of "//" (0 if none)
FirstSlashes(u) == LET I == { i \in 1..(Len(u) - 1) : u[i] = 47 /\ u[i + 1] = 47 } IN IF I = {} THEN 0 ELSE Min(I)
\* the host: from after "//" up to the first of "/", ":", "?" or the end
HostOf(u) == LET s == FirstSlashes(u) IN
             IF s = 0 THEN <<>>
             ELSE LET b == s + 2
                      E == { i \in b..Len(u) : u[i] \in {47, 58, 63} }
                      e == IF E = {} THEN Len(u) + 1 ELSE Min(E)
                  IN SubSeq(u, b, e - 1)

\* split a dotted name into labels
RECURSIVE SplitDots(_)
SplitDots(s) == IF s = <<>> THEN <<>>
                ELSE LET D == { i \in 1..Len(s) : s[i] = 46 } IN
                     IF D = {} THEN <<s>>
                     ELSE <<SubSeq(s, 1, Min(D) - 1)>> \o SplitDots(SubSeq(s, Min(D) + 1, Len(s)))

\* strings.ToLower on the bytes of a UTF-8 text: ASCII letters, and - of the two-byte letters - the Latin-1
\* supplement (U+00C0..U+00DE without the multiplication sign) and the basic Cyrillic block (U+0400..U+042F);
\* other multi-byte letters are outside the alphabet of the model
\* (written position-wise, without recursion: TLC evaluates it on URLs of several thousand bytes)
LowerText(s) ==
    [k \in 1..Len(s) |->
        LET c == s[k]
            p == IF k > 1 THEN s[k - 1] ELSE 0
            n == IF k < Len(s) THEN s[k + 1] ELSE 0
        IN IF c = 208 /\ (n \in 160..175 \/ n \in 128..143) THEN 209                 \* lead byte of U+0420..U+042F, U+0400..U+040F
           ELSE IF c \in 128..191 /\ p = 195 /\ c \in (128..158) \ {151} THEN c + 32   \* U+00C0..U+00DE
           ELSE IF c \in 128..191 /\ p = 208 /\ c \in 144..159 THEN c + 32             \* U+0410..U+041F
           ELSE IF c \in 128..191 /\ p = 208 /\ c \in 160..175 THEN c - 32             \* U+0420..U+042F
           ELSE IF c \in 128..191 /\ p = 208 /\ c \in 128..143 THEN c + 16             \* U+0400..U+040F
           ELSE Lower(c)]

\* fields of NewRequest(url, source) given the PSL answers for both hosts
Fields(url, src, hostPsl, srcPsl) ==
    LET u  == Cap(url)
        s  == Cap(src)
        h  == SplitDots(HostOf(u))
        sh == SplitDots(HostOf(s))
        d  == DomainOf(h, hostPsl)
        sd == DomainOf(sh, srcPsl)
    IN [url |-> u, lower |-> LowerText(u), host |-> h, domain |-> d, srcHost |-> sh, srcDomain |-> sd,
        thirdParty |-> (sd # <<>> /\ sd # d)]
\* fields of a hostname request
HostFields(h, psl) == [url |-> Str("http://") \o JoinDots(h), host |-> h, domain |-> DomainOf(h, psl), thirdParty |-> FALSE]
=============================================================================
