---------------------------- MODULE Trace_Verdict ----------------------------
(* C06 / C08, code -> spec: each event is one verdict computed by the real     *)
(* code for a random bag of up to 12 matching rules and up to 3 referrer rules  *)
(* (abstract Rule records, generated and rendered by the harness, in a random   *)
(* order): entry point, the class reported (none / block / allow) and the       *)
(* position of the reported rule in the bag (0: none, or the document rule).    *)
(* Allowed iff the class is Verdict!WebClass (resp. DNSClass) of the bag and    *)
(* the reported rule is one of the admissible winners.                          *)
EXTENDS Verdict, Json
Trace == ndJsonDeserialize("trace.ndjson")
NCH == 64
SetOf(s) == { s[k] : k \in 1..Len(s) }
RuleOfJson(j) ==
    [white |-> j.white, important |-> j.important, badfilter |-> j.badfilter, pat |-> j.pat,
     third |-> j.third, mcase |-> j.mcase,
     permTypes |-> SetOf(j.permTypes), restTypes |-> SetOf(j.restTypes),
     permDom |-> SetOf(j.permDom), restDom |-> SetOf(j.restDom), denyallow |-> SetOf(j.denyallow),
     permDns |-> SetOf(j.permDns), restDns |-> SetOf(j.restDns),
     permTag |-> SetOf(j.permTag), restTag |-> SetOf(j.restTag),
     permCli |-> SetOf(j.permCli), restCli |-> SetOf(j.restCli),
     docOpts |-> SetOf(j.docOpts), misc |-> SetOf(j.misc), rewrite |-> j.rewrite]
VARIABLES ch, l
Init == ch = 0 /\ l = 0
Next == \/ ch = 0 /\ l = 0 /\ ch' \in 1..NCH /\ l' = 0
        \/ ch > 0 /\ l = 0 /\ ch' = ch /\ l' \in { k \in 1..Len(Trace) : k % NCH = ch - 1 }
Allowed == l > 0 =>
    LET e  == Trace[l]
        BB == { RuleOfJson(e.rules[k]) : k \in 1..Len(e.rules) }
        SS == { RuleOfJson(e.src[k]) : k \in 1..Len(e.src) }
        cls == IF e.dns THEN DNSClass(BB) ELSE WebClass(BB, SS)
        win == IF e.dns THEN DNSWinners(BB) ELSE WebWinners(BB, SS)
    IN (/\ e.class = cls
        /\ (e.rule > 0 => RuleOfJson(e.rules[e.rule]) \in win))
       \/ ~PrintT(ToJson([kind |-> "REJECT", l |-> l, spec |-> cls, code |-> e.class]))
=============================================================================
