--------------------------- MODULE ShortcutSound ---------------------------
(* C05: the shortcut is only an accelerator.  For every exported rule the    *)
(* product of the determinised compiled program (Pike) with the              *)
(* Knuth-Morris-Pratt automaton of "the lower-cased input contains the       *)
(* rule's shortcut" is explored; Sound says that no string accepted by the   *)
(* pattern lacks the shortcut: L(compiled) \cap complement(contains sc) = {}. *)
EXTENDS Pike, TLC, Json, SequencesExt

Cases == ndJsonDeserialize("cases.ndjson")
N == Len(Cases)
NCH == 64

Progs == [i \in 1..N |-> Cases[i].prog]
Sets  == [i \in 1..N |-> [p \in 1..Len(Cases[i].prog) |-> RangesToSet(Cases[i].prog[p].set)]]
Word  == [i \in 1..N |-> NeedsWord(Cases[i].prog)]
SC(i) == Cases[i].sc

\* KMP automaton: state k = length of the longest prefix of sc that is a suffix of the input
RECURSIVE Kmp(_, _, _)
Kmp(i, k, c) == IF k < Len(SC(i)) /\ SC(i)[k + 1] = c THEN k + 1
                ELSE IF k = 0 THEN 0
                ELSE LET cand == { b \in 0..(k - 1) : SubSeq(SC(i), 1, b) = SubSeq(SC(i), k - b + 1, k) }
                         b    == CHOOSE x \in cand : \A y \in cand : y <= x
                     IN Kmp(i, b, c)

Sig(i, c) == << { p \in 1..Len(Progs[i]) : c \in Sets[i][p] },
                { k \in 1..Len(SC(i)) : SC(i)[k] = Lower(c) }, Word[i] /\ IsWordCh(c) >>
ClassesOK(i) == /\ UNION { ToSet(Cases[i].classes[k]) : k \in 1..Len(Cases[i].classes) } = Alpha
                /\ \A k \in 1..Len(Cases[i].classes) : \A c \in ToSet(Cases[i].classes[k]) :
                       Sig(i, c) = Sig(i, Cases[i].classes[k][1])
RepsOf(i) == { Cases[i].classes[k][1] : k \in 1..Len(Cases[i].classes) }

VARIABLES ch, ci, U, atStart, prevWord, pm, kk, seen, w
vars == <<ch, ci, U, atStart, prevWord, pm, kk, seen, w>>
View == <<ch, ci, U, atStart, prevWord, pm, kk, seen>>

Init == ch = 0 /\ ci = 0 /\ U = {} /\ atStart = TRUE /\ prevWord = FALSE /\ pm = FALSE
        /\ kk = 0 /\ seen = FALSE /\ w = <<>>

Fan == \/ /\ ch = 0 /\ ci = 0
          /\ ch' \in 1..NCH
          /\ UNCHANGED <<ci, U, atStart, prevWord, pm, kk, seen, w>>
       \/ /\ ch > 0 /\ ci = 0
          /\ ci' \in {i \in 1..N : i % NCH = ch - 1 /\ Cases[i].status # "panic"}
          /\ UNCHANGED <<ch, U, atStart, prevWord, pm, kk, seen, w>>

Read == /\ ci > 0
        /\ ~seen      \* once the shortcut has been seen Sound holds for every extension
        /\ ~pm        \* accepted without the shortcut: reported by Sound, shortest witness only
        /\ \E c \in RepsOf(ci) :
             LET PC  == PClosure(Progs[ci], Cases[ci].start, U, atStart, prevWord, c)
                 pm2 == pm \/ HasMatch(Progs[ci], PC)
                 k2  == Kmp(ci, kk, Lower(c))
             IN /\ atStart' = FALSE /\ w' = Append(w, c)
                /\ prevWord' = (Word[ci] /\ IsWordCh(c))
                /\ pm' = pm2
                /\ U' = IF pm2 THEN {} ELSE PStep(Progs[ci], Sets[ci], PC, c)
                /\ seen' = (k2 = Len(SC(ci)))
                /\ kk' = IF seen' THEN 0 ELSE k2
                /\ UNCHANGED <<ch, ci>>
Next == Fan \/ Read

PAccEnd == pm \/ HasMatch(Progs[ci], PClosure(Progs[ci], Cases[ci].start, U, atStart, prevWord, EOT))
Sound == ci > 0 =>
    \/ (PAccEnd => seen)
    \/ ~PrintT(ToJson([kind |-> "DIFF", id |-> Cases[ci].id, w |-> w, prog |-> TRUE, ref |-> FALSE]))
PartitionOK == (ci > 0 /\ w = <<>>) =>
    \/ ClassesOK(ci)
    \/ ~PrintT(ToJson([kind |-> "BADPARTITION", id |-> Cases[ci].id, w |-> <<>>, prog |-> FALSE, ref |-> FALSE]))
=============================================================================
