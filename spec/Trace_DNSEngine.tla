--------------------------- MODULE Trace_DNSEngine ---------------------------
(* C02, code -> spec: each event is one DNSEngine.MatchRequest call on an engine *)
(* built from real-world lists (hosts file, DNS filter).  Logged: the entries of *)
(* the lists that individually match the request (network rules: exception /     *)
(* important / rewrite / stealth flags and whether the rule is DNS-applicable;   *)
(* hosts entries naming the host: address family), each with its number, and the *)
(* answer: numbers of NetworkRules, the basic rule (0: none), both host groups   *)
(* and the matched flag.  Events whose matching rules include a $badfilter rule  *)
(* are not logged (twin-ness of rules the generator did not create cannot be     *)
(* observed); the driver counts them.                                            *)
EXTENDS Verdict, Json
Trace == ndJsonDeserialize("trace.ndjson")
NCH == 64
SetOf(s) == { s[k] : k \in 1..Len(s) }
VARIABLES ch, l
Init == ch = 0 /\ l = 0
Next == \/ ch = 0 /\ l = 0 /\ ch' \in 1..NCH /\ l' = 0
        \/ ch > 0 /\ l = 0 /\ ch' = ch /\ l' \in { k \in 1..Len(Trace) : k % NCH = ch - 1 }
\* an observed network rule as a Rule record: the entry number stands for the (unknown) pattern and modifiers
AsRule(x) == [BaseRule EXCEPT !.pat = <<x.id>>, !.white = x.white, !.important = x.important,
                              !.rewrite = IF x.rewrite THEN << <<>> >> ELSE <<>>,
                              !.misc = IF x.stealth THEN {"stealth"} ELSE {}]
Allowed == l > 0 =>
    LET e   == Trace[l]
        M   == SetOf(e.matching)
        NR  == { x \in M : x.k = "net" /\ x.hostlevel }
        RS  == { AsRule(x) : x \in NR }
        cls == DNSClass(RS)
        win == { x.id : x \in { y \in NR : AsRule(y) \in DNSWinners(RS) } }
        HS  == { x \in M : x.k = "host" }
        v4  == IF cls = "none" THEN { x.id : x \in { y \in HS : y.fam = "v4" } } ELSE {}
        v6  == IF cls = "none" THEN { x.id : x \in { y \in HS : y.fam = "v6" } } ELSE {}
        ok  == /\ SetOf(e.net) = { x.id : x \in NR }
               /\ (e.basic = 0) = (cls = "none")
               /\ (e.basic # 0 => e.basic \in win)
               /\ SetOf(e.v4) = v4 /\ SetOf(e.v6) = v6
               /\ e.matched = (cls # "none" \/ v4 \cup v6 # {})
    IN ok \/ ~PrintT(ToJson([kind |-> "REJECT", l |-> l, spec |-> [net |-> { x.id : x \in NR }, class |-> cls, v4 |-> v4, v6 |-> v6],
                             code |-> [net |-> e.net, basic |-> e.basic, v4 |-> e.v4, v6 |-> e.v6, matched |-> e.matched]]))
=============================================================================
