-------------------------------- MODULE Pike --------------------------------
(* Meaning of a compiled regexp/syntax program (the instruction list of the  *)
(* regular expression the implementation really compiled), as a set-of-      *)
(* threads simulation: Closure follows alt/nop/capture and the six           *)
(* empty-width assertions, Step consumes one character.                       *)
(* A program is a sequence of records [op, out, arg, empty]; instruction p    *)
(* (0-based, as regexp/syntax numbers them) is prog[p + 1].  sets[p + 1] is   *)
(* the set of alphabet characters a "rune" instruction accepts.              *)
EXTENDS Chars

PInst(prog, p) == prog[p + 1]

\* regexp/syntax EmptyOp bits: 1 begin line, 2 end line, 4 begin text, 8 end text,
\* 16 word boundary, 32 no word boundary (the alphabet has no newline: line = text)
Bit(n, b) == (n \div b) % 2 = 1
EmptyOK(need, atStart, prevWord, next) ==
    LET nextWord == next # EOT /\ IsWordCh(next) IN
    /\ (Bit(need, 1) => atStart)
    /\ (Bit(need, 2) => next = EOT)
    /\ (Bit(need, 4) => atStart)
    /\ (Bit(need, 8) => next = EOT)
    /\ (Bit(need, 16) => prevWord # nextWord)
    /\ (Bit(need, 32) => prevWord = nextWord)

RECURSIVE PClo(_, _, _, _, _, _)
PClo(prog, todo, done, atStart, prevWord, next) ==
    IF todo = {} THEN done
    ELSE LET p    == CHOOSE x \in todo : TRUE
             in   == PInst(prog, p)
             rest == todo \ {p}
         IN IF p \in done THEN PClo(prog, rest, done, atStart, prevWord, next)
            ELSE LET d2   == done \cup {p}
                     succ == CASE in.op = "alt"   -> {in.out, in.arg}
                               [] in.op = "nop"   -> {in.out}
                               [] in.op = "empty" -> IF EmptyOK(in.empty, atStart, prevWord, next) THEN {in.out} ELSE {}
                               [] OTHER -> {}
                 IN PClo(prog, rest \cup (succ \ d2), d2, atStart, prevWord, next)

\* unanchored search: a new thread may start at every position
PClosure(prog, start, U, atStart, prevWord, next) == PClo(prog, U \cup {start}, {}, atStart, prevWord, next)
HasMatch(prog, C) == \E p \in C : PInst(prog, p).op = "match"
PStep(prog, sets, C, c) == { PInst(prog, p).out : p \in { q \in C : PInst(prog, q).op = "rune" /\ c \in sets[q + 1] } }
NeedsWord(prog) == \E k \in 1..Len(prog) : prog[k].op = "empty" /\ (Bit(prog[k].empty, 16) \/ Bit(prog[k].empty, 32))

RangesToSet(rs) == UNION { (rs[k][1])..(rs[k][2]) : k \in 1..Len(rs) }
=============================================================================
