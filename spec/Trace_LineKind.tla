--------------------------- MODULE Trace_LineKind ---------------------------
(* LineKind, code -> spec: every event is one call of rules.NewRule on a      *)
(* seeded random line (longer lines, a richer alphabet than the bounded       *)
(* model: real domain names, punycode, malformed and unusual address          *)
(* literals, every marker).  The event logs the line, what came back, and -   *)
(* as environment input - which blank-separated fields net/netip takes for    *)
(* an address and how it prints them.  Allowed iff what came back is the      *)
(* meaning LineKind gives the line.                                           *)
EXTENDS Chars, Json, TLC, SequencesExt
Trace == ndJsonDeserialize("trace.ndjson")
NCH == 48
VARIABLES ch, l
Init == ch = 0 /\ l = 0
Next == \/ (ch = 0 /\ l = 0 /\ ch' \in 1..NCH /\ l' = 0)
        \/ (ch > 0 /\ l = 0 /\ ch' = ch /\ l' \in { k \in 1..Len(Trace) : k % NCH = ch - 1 })

LK(v4, v6) == INSTANCE LineKind WITH IPv4Lits <- v4, IPv6Lits <- v6
Lits(e, fam) == { e.addrs[i].lit : i \in { j \in 1..Len(e.addrs) : e.addrs[j].fam = fam } }
Canon(e, lit) == LET I == { i \in 1..Len(e.addrs) : e.addrs[i].lit = lit } IN IF I = {} THEN <<>> ELSE e.addrs[CHOOSE i \in I : TRUE].canon
Expected(e) == LK(Lits(e, "v4"), Lits(e, "v6"))!Meaning(e.line)
Agrees(e, m) ==
    CASE m.kind = "network" -> e.kind \in {"network", "rejected", "unsupported"} /\ (e.kind = "network" => e.text_ok)
      [] m.kind \in {"nothing", "rejected", "unsupported"} -> e.kind = m.kind
      [] m.kind = "cosmetic" -> e.kind = "cosmetic" /\ e.white = m.white /\ e.content = m.content /\ e.perm = m.perm /\ e.text_ok
      [] m.kind = "host" -> /\ e.kind = "host" /\ e.names = m.names /\ e.text_ok
                            /\ e.ip = (IF m.addr = "unspecified" THEN Str("0.0.0.0") ELSE Canon(e, m.ip))
      [] OTHER -> FALSE
Allowed == l > 0 =>
    LET e == Trace[l] m == Expected(e) IN
    Agrees(e, m) \/ ~PrintT(ToJson([kind |-> "REJECT", l |-> l, spec |-> m, code |-> [kind |-> e.kind, names |-> e.names, ip |-> e.ip, content |-> e.content]]))
=============================================================================
