---------------------------- MODULE Trace_History ----------------------------
(* C13, code -> spec: histories of queries against long-lived engines.         *)
(* Events (one per line, validated in order):                                  *)
(*   reset              a new history on new lists starts                      *)
(*   query  q a rid     engine answered query key q with answer digest a; the  *)
(*                      result object is remembered as rid                     *)
(*   fresh  q a         a FRESH engine on the same lists answered q with a     *)
(*   derive rid k a     a derived result k (effective rewrites, basic result,  *)
(*                      cosmetic option) of result rid has digest a            *)
(*   recheck rid a      the digest of the earlier result object rid is now a   *)
(* The specification: there is one unknown function F (not logged) from query  *)
(* keys to answers; every query and fresh answer agrees with it; derived       *)
(* results are functions of the result; result objects never change.           *)
EXTENDS Histories, Json
Trace == ndJsonDeserialize("trace.ndjson")

VARIABLES l, F, Res, Der
tvars == <<l, F, Res, Der>>
Init == l = 0 /\ F = <<>> /\ Res = <<>> /\ Der = <<>>
Ev == Trace[l + 1]
Reject(why) == PrintT(ToJson([kind |-> "REJECT", l |-> l + 1, spec |-> why, code |-> Ev.a]))
Step ==
    /\ l < Len(Trace) /\ l' = l + 1
    /\ CASE Ev.ev = "reset" -> F' = <<>> /\ Res' = <<>> /\ Der' = <<>>
         [] Ev.ev = "query" ->
              IF Consistent(F, Ev.q, Ev.a)
              THEN F' = Extend(F, Ev.q, Ev.a) /\ Res' = Extend(Res, Ev.rid, Ev.a) /\ Der' = Der
              ELSE Reject(F[Ev.q]) /\ Res' = Extend(Res, Ev.rid, Ev.a) /\ UNCHANGED <<F, Der>>
         [] Ev.ev = "fresh" ->
              IF Consistent(F, Ev.q, Ev.a) THEN F' = Extend(F, Ev.q, Ev.a) /\ UNCHANGED <<Res, Der>>
              ELSE Reject(F[Ev.q]) /\ UNCHANGED <<F, Res, Der>>
         [] Ev.ev = "derive" ->
              LET k == <<Res[Ev.rid], Ev.k>> IN       \* a derived result is a function of the (unchanged) result
              IF Consistent(Der, k, Ev.a) THEN Der' = Extend(Der, k, Ev.a) /\ UNCHANGED <<F, Res>>
              ELSE Reject(Der[k]) /\ UNCHANGED <<F, Res, Der>>
         [] Ev.ev = "recheck" ->
              IF Res[Ev.rid] = Ev.a THEN UNCHANGED <<F, Res, Der>> ELSE Reject(Res[Ev.rid]) /\ UNCHANGED <<F, Res, Der>>
Next == Step
\* the whole trace has been consumed
Done == l = Len(Trace)
=============================================================================
