---------------------------- MODULE Trace_Rewrites ----------------------------
(* C09, code -> spec: each event is one call of DNSResult.DNSRewrites(): it   *)
(* logs the rules DNSRewritesAll() returned, as abstract rewrite rules in the *)
(* order returned (every rule gets a number), and the numbers DNSRewrites()   *)
(* returned, in order.  Allowed iff that is the specification's Effective.    *)
EXTENDS Rewrites, Json, SequencesExt
Trace == ndJsonDeserialize("trace.ndjson")
NCH == 64
VARIABLES ch, l
Init == ch = 0 /\ l = 0
Next == \/ ch = 0 /\ l = 0 /\ ch' \in 1..NCH /\ l' = 0
        \/ ch > 0 /\ l = 0 /\ ch' = ch /\ l' \in { k \in 1..Len(Trace) : k % NCH = ch - 1 }
Allowed == l > 0 =>
    LET e == Trace[l]
        x == EffectiveIdx(e.all)
    IN (e.got = x) \/ ~PrintT(ToJson([kind |-> "REJECT", l |-> l, spec |-> x, code |-> e.got]))
=============================================================================
