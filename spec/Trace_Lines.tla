----------------------------- MODULE Trace_Lines -----------------------------
(* C12, code -> spec: events "parse" (one NewRule call), "match" (one Match    *)
(* call on a parsed rule), "engine" (engine construction + queries over a      *)
(* batch of lines).  A panic is logged as outcome "panic" and is rejected.     *)
EXTENDS Lines, Json
Trace == ndJsonDeserialize("trace.ndjson")
NCH == 64
VARIABLES ch, l
Init == ch = 0 /\ l = 0
Next == \/ ch = 0 /\ l = 0 /\ ch' \in 1..NCH /\ l' = 0
        \/ ch > 0 /\ l = 0 /\ ch' = ch /\ l' \in { k \in 1..Len(Trace) : k % NCH = ch - 1 }
Allowed == l > 0 =>
    LET e == Trace[l] IN
    (IF e.ev = "parse" THEN ParseAllowed(e) ELSE CallAllowed(e))
       \/ ~PrintT(ToJson([kind |-> "REJECT", l |-> l, spec |-> "not allowed", code |-> e.outcome]))
=============================================================================
