----------------------------- MODULE Trace_Rule -----------------------------
(* C04, code -> spec: every event is one execution of the real               *)
(* NetworkRule.Match on a rule built by the real parser from a rendered       *)
(* abstract rule; the event logs the abstract rule, the abstract request      *)
(* (with the Public Suffix List answers and the derived request fields as     *)
(* environment inputs) and the observed result.  An event is allowed iff the  *)
(* result equals Rule!Match.  Events are independent, so they are validated   *)
(* in parallel: root -> chunk -> event.                                       *)
EXTENDS Rule, Json, SequencesExt

Trace == ndJsonDeserialize("trace.ndjson")
NCH == 64

SetOf(s) == { s[k] : k \in 1..Len(s) }
RuleOfJson(j) ==
    [white |-> j.white, important |-> j.important, badfilter |-> j.badfilter, pat |-> j.pat,
     third |-> j.third, mcase |-> j.mcase,
     permTypes |-> SetOf(j.permTypes), restTypes |-> SetOf(j.restTypes),
     permDom |-> SetOf(j.permDom), restDom |-> SetOf(j.restDom), denyallow |-> SetOf(j.denyallow),
     permDns |-> SetOf(j.permDns), restDns |-> SetOf(j.restDns),
     permTag |-> SetOf(j.permTag), restTag |-> SetOf(j.restTag),
     permCli |-> SetOf(j.permCli), restCli |-> SetOf(j.restCli),
     docOpts |-> SetOf(j.docOpts), misc |-> SetOf(j.misc), rewrite |-> j.rewrite]
ReqOfJson(j) == [j EXCEPT !.tags = SetOf(j.tags)]

VARIABLES ch, l
vars == <<ch, l>>
Init == ch = 0 /\ l = 0
Next == \/ ch = 0 /\ l = 0 /\ ch' \in 1..NCH /\ l' = 0
        \/ ch > 0 /\ l = 0 /\ ch' = ch /\ l' \in { k \in 1..Len(Trace) : k % NCH = ch - 1 }

Expected(e) == Match(RuleOfJson(e.rule), ReqOfJson(e.req))
\* the third-party flag the real request carried is logged with the event; it has to be the one Request.tla derives
\* from the two hostnames and their Public Suffix List answers (Request!Fields.thirdParty)
DerivedThird(q) == /\ q.src # <<>>
                   /\ LET d == DomainOf(q.host, q.hostPsl) sd == DomainOf(q.src, q.srcPsl) IN sd # <<>> /\ sd # d
ThirdOKEvent(e) == e.req.hostreq \/ (e.host_ok /\ e.req.thirdParty = DerivedThird(e.req))
Allowed == l > 0 =>
    LET e == Trace[l]
        x == Expected(e)
    IN /\ (e.res = x) \/ ~PrintT(ToJson([kind |-> "REJECT", l |-> l, spec |-> x, code |-> e.res]))
       /\ ThirdOKEvent(e) \/ ~PrintT(ToJson([kind |-> "REJECT", l |-> l, spec |-> [thirdParty |-> DerivedThird(e.req)],
                                                code |-> [thirdParty |-> e.req.thirdParty]]))
=============================================================================
