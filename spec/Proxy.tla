------------------------------- MODULE Proxy -------------------------------
(* C20: HTML injection by the proxy.  A body is a sequence of segments with   *)
(* real integer lengths:                                                      *)
(*   [k |-> "ascii" | "high" | "nul", n]   n filler bytes (no '<' among them)  *)
(*   [k |-> "near", m]                      an incomplete marker ("</hea")     *)
(*   [k |-> "ctl", m]                       a marker whose '<' and '/' are the  *)
(*                                          control bytes 0x1C, 0x0F: no marker *)
(*   [k |-> "marker", m, cs]                one of the four head markers, in   *)
(*                                          lower / upper / mixed letter case  *)
(* The inspected prefix is the first 16 KiB of the body after its Latin-1     *)
(* bytes have been transcoded to UTF-8, where every high byte takes two       *)
(* bytes.  The tag is inserted immediately before the first marker that       *)
(* starts inside that prefix; all original bytes are preserved in order.      *)
EXTENDS Integers, Sequences, FiniteSets, TLC

Window  == 16384
Markers == {"</head", "<link", "<style", "<script"}
MLen(m) == CASE m = "</head" -> 6 [] m = "<link" -> 5 [] m = "<style" -> 6 [] m = "<script" -> 7

SegLen(s)  == CASE s.k = "marker" -> MLen(s.m) [] s.k = "near" -> MLen(s.m) - 1 [] s.k = "ctl" -> MLen(s.m) [] OTHER -> s.n
\* length after transcoding: a high byte becomes two bytes
SegTLen(s) == IF s.k = "high" THEN 2 * s.n ELSE SegLen(s)
RECURSIVE Sum(_, _, _)
Sum(body, upto, trans) == IF upto = 0 THEN 0
                          ELSE Sum(body, upto - 1, trans) + (IF trans THEN SegTLen(body[upto]) ELSE SegLen(body[upto]))
Off(body, i)  == Sum(body, i - 1, FALSE)          \* original offset of segment i
TOff(body, i) == Sum(body, i - 1, TRUE)           \* offset of segment i in the inspected (transcoded) text
BodyLen(body) == Sum(body, Len(body), FALSE)

MarkerIdx(body) == { i \in 1..Len(body) : body[i].k = "marker" }
InWindow(body)  == { i \in MarkerIdx(body) : TOff(body, i) < Window }
\* markers inside the first 16 KiB of the ORIGINAL bytes but beyond the inspected prefix: only after high bytes;
\* the property does not say which reading of "prefix" applies there, either outcome is accepted
Ambiguous(body) == { i \in MarkerIdx(body) : Off(body, i) < Window /\ TOff(body, i) >= Window }
MinOf(S) == CHOOSE x \in S : \A y \in S : x <= y

\* the result: where the tag goes (original offset), or no injection
Result(body) ==
    IF InWindow(body) # {}
    THEN [inject |-> TRUE, at |-> Off(body, MinOf(InWindow(body))), alt |-> -1]
    ELSE IF Ambiguous(body) # {}
         THEN [inject |-> FALSE, at |-> -1, alt |-> Off(body, MinOf(Ambiguous(body)))]    \* alt: also acceptable
         ELSE [inject |-> FALSE, at |-> -1, alt |-> -1]
\* output length for a tag of length t; the Content-Encoding header is always removed
OutLen(body, t) == BodyLen(body) + (IF Result(body).inject THEN t ELSE 0)
=============================================================================
