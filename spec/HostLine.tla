------------------------------ MODULE HostLine ------------------------------
(* C18: hosts(5) lines.  A line is                                            *)
(*      address blanks name (blanks name)* [blanks] [# anything]              *)
(*   or name [blanks] [# anything]                                            *)
(* abstractly [addr, names, sep, comment, trail]: addr in {"v4","v6",         *)
(* "mapped","none"}, names a non-empty sequence of distinct name ids.  The    *)
(* meaning ignores separators, trailing blanks and everything from the        *)
(* comment sign on.                                                           *)
EXTENDS Integers, Sequences, FiniteSets, TLC, Json

CONSTANTS NamePool, MaxNames

Addrs    == {"v4", "v6", "mapped", "none"}
Seps     == {"sp", "tab", "mixed"}
Comments == {"none", "blank_hash_text", "hash_text", "blank_hashhash_text", "blank_hash_words", "hash_only", "blank_hash_only"}

\* the rule a line yields
IPOf(l)    == IF l.addr = "none" THEN "v4-unspecified" ELSE l.addr
NamesOf(l) == l.names
\* the DNS engine reports a host rule in the IPv4 group iff its address is an IPv4 address (an IPv4-mapped one is IPv6)
GroupOf(l) == IF l.addr \in {"v4", "none"} THEN "v4" ELSE "v6"
\* a host rule matches a queried name iff it is one of its names
Matches(l, n) == \E k \in 1..Len(l.names) : l.names[k] = n

SeqsNoRep(S, n) == { q \in [1..n -> S] : \A i, j \in 1..n : i # j => q[i] # q[j] }
Lines == { [addr |-> a, names |-> ns, sep |-> s, comment |-> c, trail |-> t] :
             a \in Addrs, ns \in UNION { SeqsNoRep(NamePool, n) : n \in 1..MaxNames }, s \in Seps, c \in Comments, t \in BOOLEAN }
ValidLine(l) == l.addr = "none" => Len(l.names) = 1      \* a bare domain stands alone

VARIABLE line
Init == line = [addr |-> "root"]
Next == line.addr = "root" /\ line' \in { l \in Lines : ValidLine(l) }
Emit == line.addr # "root" =>
          PrintT(ToJson([line |-> line, ip |-> IPOf(line), names |-> NamesOf(line), group |-> GroupOf(line),
                         match |-> [n \in NamePool |-> Matches(line, n)]]))
\* text after the comment sign, separators and trailing blanks never change the meaning
CommentInert == line.addr # "root" =>
    \A c \in Comments, s \in Seps, t \in BOOLEAN :
        LET l2 == [line EXCEPT !.comment = c, !.sep = s, !.trail = t]
        IN IPOf(l2) = IPOf(line) /\ NamesOf(l2) = NamesOf(line) /\ GroupOf(l2) = GroupOf(line)
=============================================================================
