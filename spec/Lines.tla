-------------------------------- MODULE Lines --------------------------------
(* C12: parsing a line has exactly three outcomes - there is no crash outcome, *)
(* so a panic is an execution the specification does not allow:               *)
(*   "nothing" : the line is blank or a comment                               *)
(*   "rule"    : a rule whose text is the trimmed line and whose list id is   *)
(*               the one given                                                *)
(*   "error"   : the line is rejected                                         *)
(* What counts as blank, and the trimmed text, are taken from the standard    *)
(* library (strings.TrimSpace, logged as environment input "trimmed").        *)
EXTENDS Integers, Sequences, FiniteSets, TLC

Outcomes == {"nothing", "rule", "error"}

\* e: [outcome, trimmed, text, id, gotid, kind]
ParseAllowed(e) ==
    /\ e.outcome \in Outcomes
    /\ (e.trimmed = <<>> => e.outcome = "nothing")                     \* blank lines yield nothing
    /\ (e.trimmed # <<>> /\ e.trimmed[1] = 33 => e.outcome = "nothing")   \* "!" comments yield nothing
    /\ (e.outcome = "rule" => e.text = e.trimmed /\ e.gotid = e.id /\ e.kind \in {"net", "host", "cos"})
\* matching a parsed rule and building / querying an engine terminate normally
CallAllowed(e) == e.outcome = "ok"
=============================================================================
