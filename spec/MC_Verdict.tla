----------------------------- MODULE MC_Verdict -----------------------------
(* C06 / C07 (selection) / C08, spec -> code: TLC enumerates every bag of at  *)
(* most MaxBag rules from a feature-complete pool of rules that all match one *)
(* request, together with every set of at most MaxSrc rules matching its      *)
(* referrer, computes the verdict class and the admissible winners with       *)
(* Verdict.tla and emits each case; the harness replays every permutation     *)
(* and several splits into lists through NewMatchingResult, GetDNSBasicRule   *)
(* and the three engines.                                                     *)
EXTENDS Verdict, Json

CONSTANTS MaxBag, MaxSrc, PoolKind      \* PoolKind: "verdict" (C06) or "badfilter" (C08)

PM     == Str("||h.test^")
PS     == Str("||src.test^")
SrcDom == <<Str("src"), Str("test")>>
OthDom == <<Str("other"), Str("test")>>
Doc5   == {"elemhide", "jsinject", "urlblock", "content", "extension"}
M0     == [BaseRule EXCEPT !.pat = PM]
S0     == [BaseRule EXCEPT !.pat = PS]
Bk(i, s)    == [M0 EXCEPT !.important = i, !.permDom = IF s THEN {SrcDom} ELSE {}]
Al(i, s, d) == [M0 EXCEPT !.white = TRUE, !.important = i, !.permDom = IF s THEN {SrcDom} ELSE {}, !.docOpts = d]
Bf(r)       == [r EXCEPT !.badfilter = TRUE]
RW(v)       == <<v>>

SlashStar == [M0 EXCEPT !.pat = Str("||h.test/*")]
VerdictMain == << Bk(FALSE, FALSE), Bk(FALSE, TRUE), Bk(TRUE, FALSE), Bk(TRUE, TRUE),
                  Al(FALSE, FALSE, {}), Al(FALSE, TRUE, {}), Al(TRUE, FALSE, {}), Al(TRUE, TRUE, {}),
                  Al(FALSE, FALSE, {"urlblock"}), Al(FALSE, FALSE, {"genericblock"}), Al(FALSE, FALSE, Doc5),
                  [M0 EXCEPT !.rewrite = RW(Str("1.2.3.4"))],
                  [M0 EXCEPT !.white = TRUE, !.rewrite = RW(Str("1.2.3.4"))],
                  [M0 EXCEPT !.important = TRUE, !.rewrite = RW(Str("NXDOMAIN"))],
                  [M0 EXCEPT !.white = TRUE, !.misc = {"stealth"}],
                  [M0 EXCEPT !.third = "on"],
                  [M0 EXCEPT !.restTypes = {"script"}, !.restDom = {OthDom}],
                  Bf(Bk(FALSE, FALSE)), Bf(Bk(TRUE, FALSE)), Bf(Al(FALSE, FALSE, {})), Bf(Al(TRUE, FALSE, {})),
                  Bf(Bk(FALSE, TRUE)), Bf(Al(FALSE, FALSE, {"urlblock"})),
                  Bf([M0 EXCEPT !.rewrite = RW(Str("1.2.3.4"))]), Bf([M0 EXCEPT !.third = "on"]),
                  \* the same rule spelled with a trailing "/*", without any option, and the twin of that spelling
                  SlashStar, Bf(SlashStar) >>
SAl(i, d) == [S0 EXCEPT !.white = TRUE, !.important = i, !.docOpts = d]
VerdictSrc  == << SAl(FALSE, {"urlblock"}), SAl(FALSE, {"genericblock"}), SAl(FALSE, Doc5), SAl(FALSE, {}),
                  S0, SAl(TRUE, {"urlblock"}), SAl(TRUE, {"genericblock"}), Bf(SAl(FALSE, {"urlblock"})),
                  Bf(SAl(FALSE, {"genericblock"})), SAl(FALSE, {"elemhide"}),
                  [SAl(FALSE, {"urlblock"}) EXCEPT !.rewrite = RW(Str("1.2.3.4"))] >>

\* C08 pool: a rule x, its badfilter twin, and near twins differing from x in exactly one modifier value
X0 == [M0 EXCEPT !.restTypes = {"script", "image"}, !.permDom = {SrcDom}, !.permTag = {Str("t1")},
                 !.permCli = {[k |-> "name", v |-> Str("phone")]}, !.denyallow = {OthDom}, !.permDns = {"A"}]
Near == << [X0 EXCEPT !.restTypes = {"script"}], [X0 EXCEPT !.important = TRUE], [X0 EXCEPT !.permDom = {SrcDom, OthDom}],
           [X0 EXCEPT !.permTag = {Str("t1"), Str("t2")}], [X0 EXCEPT !.permCli = {[k |-> "name", v |-> Str("tv")], [k |-> "name", v |-> Str("phone")]}],
           [X0 EXCEPT !.denyallow = {OthDom, <<Str("third"), Str("test")>>}], [X0 EXCEPT !.permDns = {"A", "AAAA"}],
           [X0 EXCEPT !.white = TRUE], [X0 EXCEPT !.pat = Str("||h.test^*")], [X0 EXCEPT !.third = "on"],
           [X0 EXCEPT !.restTypes = {"script", "image", "media"}], [X0 EXCEPT !.restDom = {OthDom}],
           \* the same permitted record type plus an excluded one; the same pattern in another letter case
           [X0 EXCEPT !.restDns = {"AAAA"}], [X0 EXCEPT !.pat = Str("||H.test^")],
           \* a negated flag modifier
           [X0 EXCEPT !.mcase = "off"],
           \* a pattern that ends in "/*" twice: only the last "/*" is read as "^"
           [X0 EXCEPT !.pat = Str("||h.test/*/*")] >>
X1 == [M0 EXCEPT !.rewrite = RW(Str("1.2.3.4"))]
BadfilterMain == <<X0, Bf(X0)>> \o Near \o [k \in 1..Len(Near) |-> Bf(Near[k])]
                 \o << M0, Bf(M0), Al(FALSE, FALSE, {}), Bf(Al(FALSE, FALSE, {})), Al(TRUE, FALSE, {}), Bf(Al(TRUE, FALSE, {})), SlashStar, Bf(SlashStar),
                       X1, Bf(X1), [M0 EXCEPT !.rewrite = RW(Str("2.3.4.5"))], Bf([M0 EXCEPT !.rewrite = RW(Str("2.3.4.5"))]) >>
BadfilterSrc  == << SAl(FALSE, {"urlblock"}), Bf(SAl(FALSE, {"urlblock"})), SAl(FALSE, {"genericblock"}) >>

Main == IF PoolKind = "verdict" THEN VerdictMain ELSE BadfilterMain
Src  == IF PoolKind = "verdict" THEN VerdictSrc ELSE BadfilterSrc
NM == Len(Main)
NS == Len(Src)

VARIABLES phase, bag, sb
vars == <<phase, bag, sb>>
MaxOf(s) == IF s = {} THEN 0 ELSE Max(s)
Init == phase = "main" /\ bag = {} /\ sb = {}
Next == \/ /\ phase = "main" /\ Cardinality(bag) < MaxBag
           /\ \E i \in (MaxOf(bag) + 1)..NM : bag' = bag \cup {i}
           /\ UNCHANGED <<phase, sb>>
        \/ /\ phase = "main" /\ phase' = "src" /\ UNCHANGED <<bag, sb>>
        \/ /\ phase = "src" /\ Cardinality(sb) < MaxSrc
           /\ \E j \in (MaxOf(sb) + 1)..NS : sb' = sb \cup {j}
           /\ UNCHANGED <<phase, bag>>

BB == { Main[i] : i \in bag }
\* the rules of the bag that also apply to a script fetched from the same page: document-level rules do not
BScript == { x \in BB : TypeOK(x, [type |-> "script"]) }
SS == { Src[j] : j \in sb }
Idx(R) == { i \in bag : Main[i] \in R }

Emit == /\ (phase = "main" /\ bag = {} => PrintT(ToJson([kind |-> "POOL", main |-> Main, src |-> Src])))
        /\ (phase = "src" => PrintT(ToJson([kind |-> "CASE", bag |-> bag, sb |-> sb,
                                             web |-> WebClass(BB, SS), winners |-> Idx(WebWinners(BB, SS)),
                                             cands |-> Idx(WebCandidates(BB, SS)),
                                             docwinners |-> { j \in sb : Src[j] \in DocWinners(SS) },
                                             web2 |-> WebClass(BScript, SS), winners2 |-> Idx(WebWinners(BScript, SS)),
                                             cands2 |-> Idx(WebCandidates(BScript, SS)),
                                             dns |-> DNSClass(BB), dnswinners |-> Idx(DNSWinners(BB)),
                                             dnscands |-> Idx(Candidates(BB))])))

(* ---- model-level theorems ---- *)
PoolDistinct == phase = "main" /\ bag = {} =>
                   /\ \A i, j \in 1..NM : i # j => Main[i] # Main[j]
                   /\ \A i, j \in 1..NS : i # j => Src[i] # Src[j]
ScanOK == phase = "src" => ScanAgrees(WebCandidates(BB, SS)) /\ ScanAgrees(Candidates(BB))
\* adding a rule together with its $badfilter twin changes nothing (C08)
TwinNeutral == phase = "src" =>
    \A i \in bag : \A j \in bag :
        Twin(Main[j], Main[i]) =>
            LET B2 == { Main[k] : k \in bag \ {i, j} } IN
            (~\E x \in B2 : SameRule(x, Main[i])) => /\ WebClass(BB, SS) = WebClass(B2, SS)
                                   /\ DNSClass(BB) = DNSClass(B2)
\* a $badfilter rule never disables a rule that differs from it in a modifier value
OnlyTwins == phase = "src" => \A i \in bag : (~Main[i].badfilter /\ ~\E j \in bag : Twin(Main[j], Main[i])) => Main[i] \in RemoveBadfilter(BB)
=============================================================================
