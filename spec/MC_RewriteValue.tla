--------------------------- MODULE MC_RewriteValue ---------------------------
(* C10, spec -> code: every abstract value of the grammar with its expected   *)
(* outcome; theorem: every expected shape satisfies the published contract.   *)
EXTENDS RewriteValue, Json
VARIABLE c
Init == c = [form |-> "root"]
Next == /\ c.form = "root"
        /\ \/ \E f \in ShortForms : c' = [form |-> "short", f |-> f, exp |-> ExpectedShort(f)]
           \/ \E rc \in RCodes, rr \in RRTypes : \E vc \in ValClasses(rr) :
                 c' = [form |-> "normal", rc |-> rc, rr |-> rr, vc |-> vc, exp |-> ExpectedNormal(rc, rr, vc)]
Emit == c.form # "root" => PrintT(ToJson(c))
ExpectedShapesOK == (c.form # "root" /\ c.exp # Error) => ShapeOK(c.exp)
=============================================================================
