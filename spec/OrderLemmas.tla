---------------------------- MODULE OrderLemmas ----------------------------
(* Unbounded companions of the bounded TLC checks of C07 and C16, proved     *)
(* with TLAPS (tlapm):                                                        *)
(*  * any relation induced by an integer rank, a > b <=> rank(a) > rank(b),   *)
(*    is a strict weak order (irreflexive, asymmetric, transitive, with       *)
(*    transitive ties), and "replace the best if the next one is higher"      *)
(*    never ends below an element it has seen - for EVERY carrier set;        *)
(*  * the cosmetic option All \ UNION{Disabled(m) : m \in ms} only shrinks    *)
(*    when modifiers are added (antitone), for EVERY Disabled.                *)
(* Rule!Higher is the lexicographic order of the triple Rank; the lemmas are  *)
(* stated for an integer rank, which covers it through the order-preserving   *)
(* encoding Class * K^2 + Specific * K + ModCount for any K above every       *)
(* modifier count (checked by TLC on the pools: MC_Priority!IntendedSWO).     *)
EXTENDS Integers, TLAPS

CONSTANTS S, rank(_)
ASSUME RankInt == \A x \in S : rank(x) \in Int

Hi(a, b)  == rank(a) > rank(b)
Tie(a, b) == ~Hi(a, b) /\ ~Hi(b, a)

THEOREM Irreflexive == \A a \in S : ~Hi(a, a)
  BY RankInt DEF Hi

THEOREM Asymmetric == \A a, b \in S : Hi(a, b) => ~Hi(b, a)
  BY RankInt DEF Hi

THEOREM Transitive == \A a, b, c \in S : Hi(a, b) /\ Hi(b, c) => Hi(a, c)
  BY RankInt DEF Hi

THEOREM TiesTransitive == \A a, b, c \in S : Tie(a, b) /\ Tie(b, c) => Tie(a, c)
  BY RankInt DEF Tie, Hi

\* one step of the selection scan: keep the best unless the next candidate is higher
Pick(best, x) == IF Hi(x, best) THEN x ELSE best

THEOREM PickNotBelow == \A best, x \in S : ~Hi(best, Pick(best, x)) /\ ~Hi(x, Pick(best, x))
  BY RankInt DEF Pick, Hi

\* the invariant of the scan: if nothing seen so far outranks best, nothing seen so far or x outranks Pick(best, x)
THEOREM ScanInvariant ==
    \A best, x, y \in S : ~Hi(y, best) => ~Hi(y, Pick(best, x))
  BY RankInt DEF Pick, Hi

(* ---- C16 ---- *)
CONSTANTS All, Disabled(_)
Option(ms) == All \ UNION { Disabled(m) : m \in ms }

THEOREM Antitone == \A ms, m : Option(ms \cup {m}) \subseteq Option(ms)
  BY DEF Option

THEOREM NeverReEnables == \A ms, m, o : o \notin Option(ms) => o \notin Option(ms \cup {m})
  BY DEF Option
=============================================================================
