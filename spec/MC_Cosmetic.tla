----------------------------- MODULE MC_Cosmetic -----------------------------
(* C16, spec -> code: all 2^9 subsets of the exception modifiers, plus the    *)
(* non-exception and the absent basic rule; Verdict!CosmeticOption gives the  *)
(* expected option set; theorem: the option only shrinks when a modifier is   *)
(* added.                                                                     *)
EXTENDS Verdict, Json

Mods == {"elemhide", "generichide", "jsinject", "document", "urlblock", "genericblock", "content", "extension", "important"}
Doc5 == {"elemhide", "jsinject", "urlblock", "content", "extension"}
PM == Str("||h.test^")
\* ct: a content-type modifier written next to the others.  A rule with a document-level modifier applies to
\* documents whatever content types it names (Rule!EffPermTypes); without one, the content type decides whether
\* the rule matches the page's own (document) request at all.
CTypes == {"none", "subdocument", "script", "~image"}
RuleOfT(white, ms, ct) ==
    [BaseRule EXCEPT !.pat = PM, !.white = white, !.important = "important" \in ms,
                     !.docOpts = (ms \cap DocOpts) \cup (IF "document" \in ms THEN Doc5 ELSE {}),
                     !.permTypes = IF ct \in {"subdocument", "script"} THEN {ct} ELSE {},
                     !.restTypes = IF ct = "~image" THEN {"image"} ELSE {}]
RuleOf(white, ms) == RuleOfT(white, ms, "none")
VARIABLES kind, ms, ct
Init == kind = "root" /\ ms = {} /\ ct = "none"
Next == /\ kind = "root"
        /\ \/ kind' = "exception" /\ ms' \in SUBSET Mods /\ ct' \in CTypes
           \/ kind' = "block" /\ ms' \in {{}, {"important"}} /\ ct' \in CTypes
           \/ kind' = "absent" /\ ms' = {} /\ ct' = "none"
PageReq == [type |-> "document"]      \* TypeOK reads nothing else
TheRule == RuleOfT(kind = "exception", ms, ct)
\* the basic rule of the page's own request / of a verdict built directly from the rule
Basic == IF kind = "absent" \/ ~TypeOK(TheRule, PageReq) THEN Nil ELSE TheRule
Direct == IF kind = "absent" THEN Nil ELSE TheRule
Emit == kind # "root" => PrintT(ToJson([kind |-> kind, mods |-> ms, ctype |-> ct, option |-> CosmeticOption(Basic),
                                         direct |-> CosmeticOption(Direct)]))
\* the content type never changes what a document-level exception does to its page
CTypeIrrelevant == (kind = "exception" /\ TheRule.docOpts # {}) => CosmeticOption(Basic) = CosmeticOption(RuleOf(TRUE, ms))
\* what the page a request comes from is excepted from changes which blocking rules count (Verdict!Admitted), never the
\* cosmetic option of the request: that is decided by the request's own basic rule
RefRules == { [BaseRule EXCEPT !.pat = Str("||ref.test^"), !.white = TRUE, !.docOpts = o] :
                o \in { Doc5, {"urlblock"}, {"genericblock"}, {"elemhide"} } }
ReferrerIrrelevant == kind # "root" =>
    \A x \in RefRules : CosmeticOption(IF Direct # Nil /\ Admitted(Direct, {x}) THEN Direct ELSE Nil) = CosmeticOption(Direct)
\* no combination re-enables an option: adding a modifier only shrinks the option
Antitone == kind = "exception" => \A m \in Mods : CosmeticOption(RuleOf(TRUE, ms \cup {m})) \subseteq CosmeticOption(Direct)
\* the option is All minus the union of what each modifier disables ("document" includes elemhide and jsinject)
UnionOfParts == kind = "exception" =>
    CosmeticOption(Direct) = AllCosmetic \ UNION { CosmeticOption(RuleOf(TRUE, {})) \ CosmeticOption(RuleOf(TRUE, {m})) : m \in ms }
=============================================================================
