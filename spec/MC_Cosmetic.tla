----------------------------- MODULE MC_Cosmetic -----------------------------
(* C16, spec -> code: all 2^9 subsets of the exception modifiers, plus the    *)
(* non-exception and the absent basic rule; Verdict!CosmeticOption gives the  *)
(* expected option set; theorem: the option only shrinks when a modifier is   *)
(* added.                                                                     *)
EXTENDS Verdict, Json

Mods == {"elemhide", "generichide", "jsinject", "document", "urlblock", "genericblock", "content", "extension", "important"}
Doc5 == {"elemhide", "jsinject", "urlblock", "content", "extension"}
PM == Str("||h.test^")
RuleOf(white, ms) == [BaseRule EXCEPT !.pat = PM, !.white = white, !.important = "important" \in ms,
                                      !.docOpts = (ms \cap DocOpts) \cup (IF "document" \in ms THEN Doc5 ELSE {})]
VARIABLES kind, ms
Init == kind = "root" /\ ms = {}
Next == /\ kind = "root"
        /\ \/ kind' = "exception" /\ ms' \in SUBSET Mods
           \/ kind' = "block" /\ ms' \in {{}, {"important"}}
           \/ kind' = "absent" /\ ms' = {}
Basic == IF kind = "absent" THEN Nil ELSE RuleOf(kind = "exception", ms)
Emit == kind # "root" => PrintT(ToJson([kind |-> kind, mods |-> ms, option |-> CosmeticOption(Basic)]))
\* no combination re-enables an option: adding a modifier only shrinks the option
Antitone == kind = "exception" => \A m \in Mods : CosmeticOption(RuleOf(TRUE, ms \cup {m})) \subseteq CosmeticOption(Basic)
\* the option is All minus the union of what each modifier disables ("document" includes elemhide and jsinject)
UnionOfParts == kind = "exception" =>
    CosmeticOption(Basic) = AllCosmetic \ UNION { CosmeticOption(RuleOf(TRUE, {})) \ CosmeticOption(RuleOf(TRUE, {m})) : m \in ms }
=============================================================================
