----------------------------- MODULE MC_Request -----------------------------
(* C17, spec -> code: URL shapes of the contract x hosts over every kind of   *)
(* Public Suffix List rule x sources; theorems: the scanner recovers the host *)
(* of every URL of the contract; third-party is symmetric.                    *)
EXTENDS Request, Json, TLC

Hosts == { <<Str("localhost")>>, <<Str("example"), Str("org")>>, <<Str("a"), Str("example"), Str("org")>>,
           <<Str("b"), Str("a"), Str("example"), Str("org")>>, <<Str("example"), Str("co"), Str("uk")>>,
           <<Str("a"), Str("example"), Str("co"), Str("uk")>>, <<Str("co"), Str("uk")>>, <<Str("foo"), Str("ck")>>,
           <<Str("a"), Str("foo"), Str("ck")>>, <<Str("www"), Str("ck")>>, <<Str("a"), Str("www"), Str("ck")>>,
           <<Str("x"), Str("blogspot"), Str("com")>>, <<Str("blogspot"), Str("com")>>, <<Str("google"), Str("zz")>>,
           <<Str("other"), Str("example"), Str("com")>>, <<Str("1"), Str("2"), Str("3"), Str("4")>>, <<Str("org")>> }
\* hostname requests are also made for addresses (a DNS engine is asked for whatever a CNAME points at): an IPv6 literal
\* is one label without a public suffix, and it is the hostname as it stands - nothing of it is a port
AddressHosts == { <<Str("2001:db8::1")>>, <<Str("::1")>>, <<Str("::ffff:1"), Str("2"), Str("3"), Str("4")>> }
Schemes == { Str("http"), Str("https"), Str("ws"), Str("wss"), Str("ftp") }
Ports   == { <<>>, Str(":8080") }
Tails   == { <<>>, Str("/"), Str("/path/x.js"), Str("?q=1"), Str("/p?q=1"), Str("/p#frag"), Str("?q#frag"), Str("/a:b/c"),
             Str("/p?u=http://other.org/x"), Str("/p//double"), Str("/UPPER/Case.JS?Q=Z"), Str("/@user:pw"),
             Str("?email=john@mail.example.net"), Str("?x=/a@b.example/c") }
LongTail == Str("/") \o [k \in 1..4100 |-> IF k % 7 = 0 THEN 65 + (k % 26) ELSE 97 + (k % 26)]

MkURL(sc, h, p, t) == sc \o Str("://") \o JoinDots(h) \o p \o t
\* sources: none, or a plain page on one of a few hosts
SrcHosts == { <<>>, <<Str("example"), Str("org")>>, <<Str("c"), Str("example"), Str("org")>>, <<Str("example"), Str("co"), Str("uk")>>,
              <<Str("b"), Str("foo"), Str("ck")>>, <<Str("y"), Str("blogspot"), Str("com")>>, <<Str("localhost")>>, <<Str("9"), Str("9"), Str("3"), Str("4")>> }
MkSrc(sh) == IF sh = <<>> THEN <<>> ELSE Str("https://") \o JoinDots(sh) \o Str("/page?x#y")

VARIABLES st, c
Init == st = "root" /\ c = <<>>
Next == /\ st = "root" /\ st' = "case"
        /\ \/ \E sc \in Schemes, h \in Hosts, p \in Ports, t \in Tails, sh \in SrcHosts :
                 c' = [kind |-> "url", url |-> MkURL(sc, h, p, t), src |-> MkSrc(sh), host |-> h, srcHost |-> sh]
           \/ \E h \in Hosts, sh \in SrcHosts :
                 c' = [kind |-> "url", url |-> MkURL(Str("https"), h, <<>>, LongTail), src |-> MkSrc(sh), host |-> h, srcHost |-> sh]
           \/ \E h \in Hosts \cup AddressHosts : c' = [kind |-> "host", url |-> <<>>, src |-> <<>>, host |-> h, srcHost |-> <<>>]
Exp == IF c.kind = "url" THEN Fields(c.url, c.src, PublicSuffix(c.host), PublicSuffix(c.srcHost))
       ELSE HostFields(c.host, PublicSuffix(c.host))
Emit == st = "case" => PrintT(ToJson([kind |-> c.kind, url |-> c.url, src |-> c.src, host |-> c.host,
                                        hostPsl |-> PublicSuffix(c.host), srcPsl |-> PublicSuffix(c.srcHost), exp |-> Exp]))
\* the scanner recovers exactly the host the URL was built from
ScannerOK == (st = "case" /\ c.kind = "url") => /\ SplitDots(HostOf(Cap(c.url))) = c.host
                                                  /\ SplitDots(HostOf(Cap(c.src))) = c.srcHost
\* third-party is symmetric in (url, source)
Symmetric == (st = "case" /\ c.kind = "url" /\ c.src # <<>>) =>
                Fields(c.url, c.src, PublicSuffix(c.host), PublicSuffix(c.srcHost)).thirdParty
                  = Fields(c.src, c.url, PublicSuffix(c.srcHost), PublicSuffix(c.host)).thirdParty
=============================================================================
