------------------------------ MODULE DNSEngine ------------------------------
(* C02: the answer of the DNS engine.  A list entry is either a network rule  *)
(* [kind |-> "net", r |-> Rule record] or a hosts entry                        *)
(* [kind |-> "host", fam |-> "v4" | "v6", names |-> set of hostnames (labels)] *)
(* (an IPv4-mapped address counts as IPv6; a bare domain is 0.0.0.0, "v4").    *)
(* RefAnswer is the reference resolution over ALL entries; TableAnswer is the  *)
(* implementation's host table keyed by a hash H with the name re-check.       *)
EXTENDS Verdict

CONSTANT H(_)

NetOf(L)  == { e.r : e \in { x \in L : x.kind = "net" } }
HostsOf(L) == { x \in L : x.kind = "host" }

\* DNS-applicable network rules that match the request (rules with browser-only modifiers are ignored)
MatchingNet(L, q) == { r \in NetOf(L) : HostLevel(r) /\ Match(r, q) }

RefAnswer(L, q) ==
    LET NR == MatchingNet(L, q) IN
    IF DNSClass(NR) # "none"
    THEN [net |-> NR, class |-> DNSClass(NR), winners |-> DNSWinners(NR), v4 |-> {}, v6 |-> {}, matched |-> TRUE]
    ELSE LET HS == { e \in HostsOf(L) : q.host \in e.names } IN
         [net |-> NR, class |-> "none", winners |-> {},
          v4 |-> { e \in HS : e.fam = "v4" }, v6 |-> { e \in HS : e.fam = "v6" }, matched |-> HS # {}]

\* the host table: every name of every hosts entry is filed under its hash; a query probes the bucket of the queried
\* name and keeps the entries that really list it
Bucket(L, b) == { e \in HostsOf(L) : \E n \in e.names : H(JoinDots(n)) = b }
TableHosts(L, q) == { e \in Bucket(L, H(JoinDots(q.host))) : q.host \in e.names }
TableEqualsRef(L, q) == TableHosts(L, q) = { e \in HostsOf(L) : q.host \in e.names }
=============================================================================
