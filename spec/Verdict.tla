------------------------------- MODULE Verdict -------------------------------
(* What a set of matching rules means (C06, C08, C16) - stated on BAGS (sets *)
(* of rules, all of which are assumed to match the request resp. its          *)
(* referrer), so that order- and split-independence is a fact of the          *)
(* specification - and, separately, the left-to-right scan the implementation *)
(* uses, so that TLC can check that the scan computes the bag meaning for     *)
(* every permutation.                                                         *)
EXTENDS Rule, FiniteSetsExt, SequencesExt

(* ---- $badfilter (C08) ---- *)
RemoveBadfilter(BB) == { r \in BB : ~r.badfilter /\ ~\E f \in BB : Twin(f, r) }

(* ---- candidates for the basic verdict (C06) ---- *)
\* rewrite rules, rules disabled by $badfilter and special-purpose ($stealth) rules never become the basic result
Candidates(BB) == { r \in RemoveBadfilter(BB) : r.rewrite = <<>> /\ "stealth" \notin r.misc }
\* referrer-level exceptions that change how sub-requests are blocked
DocRules(SS) == { x \in Candidates(SS) : x.white /\ x.docOpts \cap {"urlblock", "genericblock"} # {} }
\* the referrer-level exception reported when no rule of the request itself decides: never one that another one outranks
DocWinners(SS) == { x \in DocRules(SS) : ~\E y \in DocRules(SS) : Higher(y, x) }
DocFlags(SS) == UNION { x.docOpts \cap {"urlblock", "genericblock"} : x \in DocRules(SS) }
\* urlblock suppresses every blocking rule, genericblock the blocking rules without a $domain restriction
Admitted(r, SS) == r.white \/ ("urlblock" \notin DocFlags(SS) /\ ("genericblock" \notin DocFlags(SS) \/ Specific(r)))
WebCandidates(BB, SS) == { r \in Candidates(BB) : Admitted(r, SS) }
ClassName(c) == IF c \in {1, 3} THEN "allow" ELSE "block"
TopClass(C) == Max({ Class(r) : r \in C })
\* block / allow / none for a web request with matching rules BB and referrer rules SS
WebClass(BB, SS) == LET C == WebCandidates(BB, SS) IN
                    IF C = {} THEN (IF DocRules(SS) # {} THEN "allow" ELSE "none")
                    ELSE ClassName(TopClass(C))
\* the rules that may be reported as the basic rule: the candidates of the top class
WebWinners(BB, SS) == LET C == WebCandidates(BB, SS) IN { r \in C : Class(r) = TopClass(C) }
\* DNS requests have no referrer
DNSClass(BB)   == LET C == Candidates(BB) IN IF C = {} THEN "none" ELSE ClassName(TopClass(C))
DNSWinners(BB) == LET C == Candidates(BB) IN { r \in C : Class(r) = TopClass(C) }

(* ---- the implementation's left-to-right scan with "replace if higher" ---- *)
RECURSIVE ScanFrom(_, _, _)
ScanFrom(s, k, best) == IF k > Len(s) THEN best
                        ELSE ScanFrom(s, k + 1, IF Higher(s[k], best) THEN s[k] ELSE best)
ScanBest(s) == ScanFrom(s, 2, s[1])        \* s non-empty
\* theorem checked by TLC on every enumerated bag: whatever the order, the scan ends in the top class
ScanAgrees(C) == C # {} => \A p \in { q \in [1..Cardinality(C) -> C] : \A i, j \in DOMAIN q : i # j => q[i] # q[j] } :
                              Class(ScanBest(p)) = TopClass(C)

(* ---- cosmetic options of a verdict (C16) ---- *)
AllCosmetic == {"css", "gcss", "js"}
Disabled(m) == CASE m = "elemhide"    -> {"css", "gcss"}
                 [] m = "generichide" -> {"gcss"}
                 [] m = "jsinject"    -> {"js"}
                 [] OTHER             -> {}
\* basic: the basic rule of the verdict, or Nil when there is none
CosmeticOption(basic) == IF basic = Nil \/ ~basic.white THEN AllCosmetic
                         ELSE AllCosmetic \ UNION { Disabled(m) : m \in basic.docOpts }
=============================================================================
