---------------------------- MODULE MC_LineKind ----------------------------
(* LineKind, spec -> code: every line made of at most MaxTok tokens of the    *)
(* harness's token alphabet (letters, a one-letter and a two-letter name,     *)
(* digits, address literals, blanks, the comment and marker characters, list  *)
(* separators) with the meaning LineKind!Meaning gives it; the harness hands  *)
(* each line to rules.NewRule and compares.  The token alphabet and the set   *)
(* of address literals among all possible fields come from the harness        *)
(* (linekind-env.ndjson; the literals are decided by net/netip itself).         *)
EXTENDS LineKind, Json, TLC

Env == ndJsonDeserialize("linekind-env.ndjson")[1]
TokenSet == { Env.tokens[i] : i \in 1..Len(Env.tokens) }
V4 == { Env.v4[i] : i \in 1..Len(Env.v4) }
V6 == { Env.v6[i] : i \in 1..Len(Env.v6) }
CONSTANT MaxTok

VARIABLES text, n
Init == text = <<>> /\ n = 0
Next == /\ n < MaxTok
        /\ \E t \in TokenSet : text' = text \o t
        /\ n' = n + 1
View == text

Emit == PrintT(ToJson([kind |-> "LINE", line |-> text, exp |-> Meaning(text)]))
Laws == /\ TrimInert(text)
        /\ HostCommentInert(text)
        /\ \A t \in TokenSet : CommentStable(text, t)
=============================================================================
