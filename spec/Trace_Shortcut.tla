--------------------------- MODULE Trace_Shortcut ---------------------------
(* C05, code -> spec: the request side of the shortcut pre-check.            *)
(* ShortcutSound.tla decides per rule that every text the compiled pattern   *)
(* accepts contains the shortcut once lower-cased.  That is an argument      *)
(* about one text; the library evaluates the two sides on two fields of the  *)
(* request (Request.URL, Request.URLLowerCase).  Every event is one real     *)
(* request built by NewRequest from an instantiated rule pattern, asked with *)
(* the rule's shortcut and with the shortcut cleared:                         *)
(*   - the two answers are equal (the pre-check is invisible),               *)
(*   - URLLowerCase is the lower-cased URL (the premise of ShortcutSound),    *)
(*   - for short URLs the answer is Mask!Accepts of the logged pattern.      *)
EXTENDS Rule, Json, SequencesExt

Trace == ndJsonDeserialize("trace.ndjson")
NCH == 32
VARIABLES ch, l
vars == <<ch, l>>
Init == ch = 0 /\ l = 0
Next == \/ ch = 0 /\ l = 0 /\ ch' \in 1..NCH /\ l' = 0
        \/ ch > 0 /\ l = 0 /\ ch' = ch /\ l' \in { k \in 1..Len(Trace) : k % NCH = ch - 1 }

\* (the index of an engine that holds the rule is the same kind of accelerator: it reports the rule iff the rule matches)
Invisible(e) == e.with = e.without /\ e.lower_ok /\ e.engine = e.with
\* a rule is a value: an object that has answered other requests before (the same one; the web request and the hostname
\* request for the same name) answers like a fresh one
Stateless(e) == e.used = e.with
\* for a hostname request (a DNS query) the text the pattern is applied to is Rule!Target: the bare hostname, unless
\* the pattern pins down a scheme or has the "/label." shape - then it is "http://<hostname>", the request's URL
TextOf(e) == IF e.hostreq /\ TargetIsHostname([pat |-> e.pat], [hostreq |-> TRUE]) THEN e.hostname ELSE e.url
Semantic(e) == e.url = <<>> \/ e.with = Accepts(e.pat, e.mcase, TextOf(e))
Allowed == l > 0 =>
    LET e == Trace[l] IN
    /\ Invisible(e) \/ ~PrintT(ToJson([kind |-> "REJECT", l |-> l, why |-> "pre-check visible",
                                        spec |-> [with |-> e.without, lower_ok |-> TRUE, engine |-> e.without],
                                        code |-> [with |-> e.with, lower_ok |-> e.lower_ok, engine |-> e.engine]]))
    /\ Stateless(e) \/ ~PrintT(ToJson([kind |-> "REJECT", l |-> l, why |-> "a used rule answers differently",
                                        spec |-> [used |-> e.with], code |-> [used |-> e.used]]))
    /\ Semantic(e) \/ ~PrintT(ToJson([kind |-> "REJECT", l |-> l, why |-> "mask semantics",
                                       spec |-> [with |-> Accepts(e.pat, e.mcase, TextOf(e))], code |-> [with |-> e.with]]))
=============================================================================
