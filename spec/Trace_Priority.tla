---------------------------- MODULE Trace_Priority ----------------------------
(* C07, code -> spec: the trace is the complete relation R observed by        *)
(* calling the real IsHigherPriority on every ordered pair of the pool        *)
(* (R[a][b] = 1 iff rule a is reported higher than rule b), together with the *)
(* abstract rules.  The property-level contract is checked on R itself:       *)
(* irreflexive, asymmetric, and the rank characterisation                     *)
(*      R(a,b) <=> |{x : R(a,x)}| > |{x : R(b,x)}|                            *)
(* which holds iff R is a strict weak order (transitive with transitive       *)
(* ties); plus the documented criteria.  With Triples = TRUE transitivity and *)
(* transitivity of ties are also checked directly on every triple.            *)
EXTENDS Verdict, Json, TLC

CONSTANT Triples
T == ndJsonDeserialize("trace.ndjson")[1]
R == T.rows
N == Len(R)
SetOf(s) == { s[k] : k \in 1..Len(s) }
RuleOfJson(j) ==
    [white |-> j.white, important |-> j.important, badfilter |-> j.badfilter, pat |-> j.pat,
     third |-> j.third, mcase |-> j.mcase,
     permTypes |-> SetOf(j.permTypes), restTypes |-> SetOf(j.restTypes),
     permDom |-> SetOf(j.permDom), restDom |-> SetOf(j.restDom), denyallow |-> SetOf(j.denyallow),
     permDns |-> SetOf(j.permDns), restDns |-> SetOf(j.restDns),
     permTag |-> SetOf(j.permTag), restTag |-> SetOf(j.restTag),
     permCli |-> SetOf(j.permCli), restCli |-> SetOf(j.restCli),
     docOpts |-> SetOf(j.docOpts), misc |-> SetOf(j.misc), rewrite |-> j.rewrite]
Rules == [i \in 1..N |-> RuleOfJson(T.rules[i])]
Hi(x, y) == R[x][y] = 1
Out == [x \in 1..N |-> Cardinality({ y \in 1..N : Hi(x, y) })]
Cls == [x \in 1..N |-> Class(Rules[x])]
Spc == [x \in 1..N |-> Specific(Rules[x])]
Cnt == [x \in 1..N |-> ModCount(Rules[x])]

NCH == 32
VARIABLES ch, a
Init == ch = 0 /\ a = 0
Next == \/ ch = 0 /\ a = 0 /\ ch' \in 1..NCH /\ a' = 0
        \/ ch > 0 /\ a = 0 /\ ch' = ch /\ a' \in { i \in 1..N : i % NCH = ch - 1 }

Bad(law, x, y, z) == ~PrintT(ToJson([kind |-> "REJECT", law |-> law, a |-> x, b |-> y, c |-> z]))

Irreflexive == a > 0 => (~Hi(a, a) \/ Bad("irreflexive", a, a, 0))
Asymmetric  == a > 0 => \A b \in 1..N : (~(Hi(a, b) /\ Hi(b, a)) \/ Bad("asymmetric", a, b, 0))
\* strict weak order, via the rank characterisation
RankChar    == a > 0 => \A b \in 1..N : ((Hi(a, b) <=> Out[a] > Out[b]) \/ Bad("strict-weak-order", a, b, 0))
\* documented criteria: class first, then domain-specific over generic, then more modifiers over fewer
ByClass     == a > 0 => \A b \in 1..N : ((Cls[a] > Cls[b] => Hi(a, b)) \/ Bad("class-first", a, b, 0))
BySpecific  == a > 0 => \A b \in 1..N : ((Cls[a] = Cls[b] /\ Spc[a] /\ ~Spc[b] => Hi(a, b)) \/ Bad("specific-over-generic", a, b, 0))
ByCount     == a > 0 => \A b \in 1..N : ((Cls[a] = Cls[b] /\ Spc[a] = Spc[b] /\ Cnt[a] > Cnt[b] => Hi(a, b)) \/ Bad("more-modifiers-higher", a, b, 0))
Tie(x, y)   == ~Hi(x, y) /\ ~Hi(y, x)
Transitive  == (a > 0 /\ Triples) =>
    /\ \A b \in 1..N : Hi(a, b) => \A c \in 1..N : ((Hi(b, c) => Hi(a, c)) \/ Bad("transitive", a, b, c))
    /\ \A b \in 1..N : Tie(a, b) => \A c \in 1..N : ((Tie(b, c) => Tie(a, c)) \/ Bad("ties-transitive", a, b, c))
=============================================================================
