-------------------------- MODULE Trace_RewriteValue --------------------------
(* C10, code -> spec: each event is one parse of "||h^$dnsrewrite=<v>" by the *)
(* real code: ok = FALSE (error) or the projected shape of the accepted       *)
(* value.  Allowed iff an accepted value has the published shape.             *)
EXTENDS RewriteValue, Json
Trace == ndJsonDeserialize("trace.ndjson")
NCH == 64
VARIABLES ch, l
Init == ch = 0 /\ l = 0
Next == \/ ch = 0 /\ l = 0 /\ ch' \in 1..NCH /\ l' = 0
        \/ ch > 0 /\ l = 0 /\ ch' = ch /\ l' \in { k \in 1..Len(Trace) : k % NCH = ch - 1 }
Allowed == l > 0 =>
    LET e == Trace[l] IN
    (~e.ok \/ ShapeOK(e.shape)) \/ ~PrintT(ToJson([kind |-> "REJECT", l |-> l, spec |-> FALSE, code |-> TRUE]))
=============================================================================
