-------------------------------- MODULE Mask --------------------------------
(* The documented mask language of basic (non-regex) rule patterns:          *)
(*   ||   start of address: scheme (http, https, ws, wss) "://" and an        *)
(*        optional run of sub-domain characters ending in a dot              *)
(*   |    at the very beginning / very end: anchor                            *)
(*   *    any string                                                          *)
(*   ^    one separator character, or the end of the address                  *)
(*   a trailing "/*" is read as "^"                                           *)
(*   every other character (including a pipe elsewhere and every regular-     *)
(*   expression operator) is a literal, compared case-insensitively unless    *)
(*   match-case is set.                                                       *)
(* The language is given as an NFA over token positions so that it can be     *)
(* run on a string (Accepts) or explored symbolically (MaskEquiv).            *)
EXTENDS Chars

PIPE == 124  STAR == 42  CARET == 94  SLASH == 47

Rewritten(p) == IF Len(p) >= 2 /\ p[Len(p) - 1] = SLASH /\ p[Len(p)] = STAR
                THEN SubSeq(p, 1, Len(p) - 2) \o <<CARET>> ELSE p
\* patterns that match every address
IsAny(p) == p \in {<<>>, <<PIPE>>, <<PIPE, PIPE>>, <<STAR>>}

Tok(c) == IF c = STAR THEN [t |-> "star", c |-> 0]
          ELSE IF c = CARET THEN [t |-> "sep", c |-> 0]
          ELSE [t |-> "lit", c |-> c]

Tokenize(p0) ==
    LET p     == Rewritten(p0)
        surl  == Len(p) >= 2 /\ p[1] = PIPE /\ p[2] = PIPE
        bol   == ~surl /\ Len(p) >= 1 /\ p[1] = PIPE
        first == IF surl THEN 3 ELSE IF bol THEN 2 ELSE 1
        eol   == Len(p) >= first /\ p[Len(p)] = PIPE
        last  == IF eol THEN Len(p) - 1 ELSE Len(p)
        pre   == IF surl THEN <<[t |-> "surl", c |-> 0]>> ELSE IF bol THEN <<[t |-> "bol", c |-> 0]>> ELSE <<>>
        mid   == [k \in 1..(last - first + 1) |-> Tok(p[first + k - 1])]
        post  == IF eol THEN <<[t |-> "eol", c |-> 0]>> ELSE <<>>
    IN IF IsAny(p) THEN <<>> ELSE pre \o mid \o post

Anchored(toks) == Len(toks) > 0 /\ toks[1].t \in {"surl", "bol"}

\* NFA state = 100*k + j : k tokens consumed, j = sub-state inside a "surl" token
\* surl sub-states: 0 start, 1 h, 2 ht, 3 htt, 4 http, 5 https, 6 w, 7 ws, 8 wss,
\*                  10 ':', 11 ':/', 12 '://', 13 inside the sub-domain run
SurlStep(j, c, mc) ==
    LET e(d) == EqCh(c, d, mc) IN
    CASE j = 0  -> (IF e(104) THEN {1} ELSE {}) \cup (IF e(119) THEN {6} ELSE {})
      [] j = 1  -> IF e(116) THEN {2} ELSE {}
      [] j = 2  -> IF e(116) THEN {3} ELSE {}
      [] j = 3  -> IF e(112) THEN {4} ELSE {}
      [] j = 4  -> (IF e(115) THEN {5} ELSE {}) \cup (IF c = 58 THEN {10} ELSE {})
      [] j = 5  -> IF c = 58 THEN {10} ELSE {}
      [] j = 6  -> IF e(115) THEN {7} ELSE {}
      [] j = 7  -> (IF e(115) THEN {8} ELSE {}) \cup (IF c = 58 THEN {10} ELSE {})
      [] j = 8  -> IF c = 58 THEN {10} ELSE {}
      [] j = 10 -> IF c = 47 THEN {11} ELSE {}
      [] j = 11 -> IF c = 47 THEN {12} ELSE {}
      [] j = 12 -> IF IsSubCh(c, mc) THEN {13} ELSE {}
      [] j = 13 -> (IF IsSubCh(c, mc) THEN {13} ELSE {}) \cup (IF c = 46 THEN {100} ELSE {})
      [] OTHER  -> {}

RECURSIVE RClo(_, _, _, _, _)
RClo(toks, todo, done, atStart, next) ==
    IF todo = {} THEN done
    ELSE LET s    == CHOOSE x \in todo : TRUE
             rest == todo \ {s}
         IN IF s \in done THEN RClo(toks, rest, done, atStart, next)
            ELSE LET d2   == done \cup {s}
                     k    == s \div 100
                     j    == s % 100
                     tk   == IF k < Len(toks) THEN toks[k + 1].t ELSE "end"
                     succ == CASE tk = "star" -> {100 * (k + 1)}
                               [] tk = "bol"  -> IF atStart THEN {100 * (k + 1)} ELSE {}
                               [] tk = "eol"  -> IF next = EOT THEN {100 * (k + 1)} ELSE {}
                               [] tk = "sep"  -> IF next = EOT THEN {100 * (k + 1)} ELSE {}
                               [] tk = "surl" -> IF j = 12 THEN {100 * (k + 1)} ELSE {}
                               [] OTHER -> {}
                 IN RClo(toks, rest \cup (succ \ d2), d2, atStart, next)

\* an unanchored pattern may start anywhere, an anchored one only at the start
RSeed(toks, S, atStart) == IF Anchored(toks) THEN (IF atStart THEN S \cup {0} ELSE S) ELSE S \cup {0}
RClosure(toks, S, atStart, next) == RClo(toks, RSeed(toks, S, atStart), {}, atStart, next)
RStep(toks, mc, C, c) ==
    UNION { LET k  == s \div 100
                j  == s % 100
                tk == IF k < Len(toks) THEN toks[k + 1] ELSE [t |-> "end", c |-> 0]
            IN CASE tk.t = "lit"  -> IF EqCh(c, tk.c, mc) THEN {100 * (k + 1)} ELSE {}
                 [] tk.t = "sep"  -> IF IsSepCh(c) THEN {100 * (k + 1)} ELSE {}
                 [] tk.t = "star" -> {s}
                 [] tk.t = "surl" -> { IF x = 100 THEN 100 * (k + 1) ELSE 100 * k + x : x \in SurlStep(j, c, mc) }
                 [] OTHER -> {}
          : s \in C }
\* all tokens consumed: the match may end anywhere unless the last token is "eol" (consumed only at the end)
RDone(toks, C) == (100 * Len(toks)) \in C

\* Run the reference on a whole string (used by the rule-level models).
RECURSIVE RunFrom(_, _, _, _, _, _)
RunFrom(toks, mc, u, k, S, done) ==
    \* k characters consumed so far; S = state set before closure
    LET next == IF k < Len(u) THEN u[k + 1] ELSE EOT
        C    == RClosure(toks, S, k = 0, next)
        d2   == done \/ RDone(toks, C)
    IN IF d2 THEN TRUE
       ELSE IF k = Len(u) THEN FALSE
       ELSE RunFrom(toks, mc, u, k + 1, RStep(toks, mc, C, next), d2)
Accepts(p, mc, u) == RunFrom(Tokenize(p), mc, u, 0, {}, FALSE)

\* The longest run of literal characters between mask specials, lower-cased; at least two characters.
RECURSIVE LongestRun(_, _, _, _)
LongestRun(p, k, cur, best) ==
    IF k > Len(p) THEN (IF Len(cur) > Len(best) THEN cur ELSE best)
    ELSE IF p[k] \in {STAR, CARET, PIPE}
         THEN LongestRun(p, k + 1, <<>>, IF Len(cur) > Len(best) THEN cur ELSE best)
         ELSE LongestRun(p, k + 1, Append(cur, p[k]), best)
ShortcutOf(p) == LET r == LongestRun(Rewritten(p), 1, <<>>, <<>>) IN IF Len(r) >= 2 THEN LowerSeq(r) ELSE <<>>
=============================================================================
