------------------------------ MODULE Domains ------------------------------
(* Host names are sequences of labels, a label is a sequence of ASCII codes. *)
(* A Public Suffix List answer for a host is an ENVIRONMENT INPUT of the      *)
(* form [n |-> number of labels of the public suffix, icann |-> BOOLEAN]:     *)
(* in models it comes from the small abstract PSL below (one rule of every    *)
(* kind the real list has), in traces it is logged from                       *)
(* publicsuffix.PublicSuffix and the harness checks that both agree on every  *)
(* host of the model.                                                         *)
EXTENDS Chars

STARLBL == <<42>>                                    \* the label "*"

IsLabelSuffix(d, h) == Len(d) <= Len(h) /\ SubSeq(h, Len(h) - Len(d) + 1, Len(h)) = d
\* h is d or a sub-domain of d
Sub(h, d) == d # <<>> /\ IsLabelSuffix(d, h)
\* every label-suffix of h, h itself included
HostSuffixes(h) == { SubSeq(h, k, Len(h)) : k \in 1..Len(h) }
LastN(h, n) == SubSeq(h, Len(h) - n + 1, Len(h))

IsWild(d) == Len(d) >= 2 /\ d[Len(d)] = STARLBL
WildBase(d) == SubSeq(d, 1, Len(d) - 1)

\* "name.*" stands for name.<any ICANN public suffix>: h = [sub-domains.] name . suffix(h)
WildMatch(h, d, psl) ==
    /\ psl.icann /\ psl.n >= 1 /\ psl.n < Len(h)
    /\ IsLabelSuffix(WildBase(d), SubSeq(h, 1, Len(h) - psl.n))
\* h is one of the domains of D or a sub-domain of one; psl is the PSL answer for h
SubOfAny(h, D, psl) == h # <<>> /\ \E d \in D : IF IsWild(d) THEN WildMatch(h, d, psl) ELSE Sub(h, d)

(* ---- abstract PSL: one rule of each kind ---- *)
PSLNormal    == { <<Str("org")>>, <<Str("com")>>, <<Str("net")>>, <<Str("uk")>>, <<Str("ck")>>, <<Str("be")>> }   \* ICANN, one label
PSLTwo       == { <<Str("co"), Str("uk")>> }                                            \* ICANN, two labels
PSLWildcard  == { <<Str("ck")>> }                                                    \* *.ck
PSLException == { <<Str("www"), Str("ck")>> }                                          \* !www.ck
PSLPrivate   == { <<Str("blogspot"), Str("com")>> }                                    \* private section

PublicSuffix(h) ==
    IF h = <<>> THEN [n |-> 0, icann |-> FALSE]
    ELSE IF \E e \in PSLException : IsLabelSuffix(e, h)
         THEN [n |-> 1, icann |-> TRUE]                       \* exception rule: suffix is the rule minus its first label
    ELSE IF \E w \in PSLWildcard : IsLabelSuffix(w, h) /\ Len(h) >= Len(w) + 1
         THEN [n |-> 2, icann |-> TRUE]
    ELSE IF \E p \in PSLPrivate : IsLabelSuffix(p, h) THEN [n |-> 2, icann |-> FALSE]
    ELSE IF \E t \in PSLTwo : IsLabelSuffix(t, h) THEN [n |-> 2, icann |-> TRUE]
    ELSE IF \E t \in PSLNormal : IsLabelSuffix(t, h) THEN [n |-> 1, icann |-> TRUE]
    ELSE [n |-> 1, icann |-> FALSE]                           \* no rule: the default rule "*", not ICANN

\* registrable domain (eTLD+1) of h given its PSL answer, or <<>> when there is none
ETLD1(h, psl) == IF h = <<>> \/ psl.n >= Len(h) THEN <<>> ELSE LastN(h, psl.n + 1)
\* what the request exposes as its "domain": the registrable domain, or the host itself when there is none
DomainOf(h, psl) == IF ETLD1(h, psl) = <<>> THEN h ELSE ETLD1(h, psl)

RECURSIVE JoinDots(_)
JoinDots(h) == IF h = <<>> THEN <<>> ELSE IF Len(h) = 1 THEN h[1] ELSE h[1] \o <<46>> \o JoinDots(Tail(h))
=============================================================================
