------------------------------ MODULE Storage ------------------------------
(* C11 / C12 / C19: rule lists, scanning, the storage index and retrieval.    *)
(* A list is [id, ic, lines]: a 32-bit id, the ignore-cosmetic flag and a     *)
(* sequence of lines.  A line is abstracted to what determines byte offsets   *)
(* and its meaning:                                                           *)
(*    [kind, body, padL, padR, eol]                                           *)
(* kind : what parsing the trimmed text yields - "net" | "host" | "cos" rules, *)
(*        "comment" | "blank" (nothing), "bad" (rejected with an error);      *)
(* body : number of bytes of the trimmed text; padL / padR : blanks around it; *)
(* eol  : "lf" | "crlf" | "none" (only the last line of a list may lack one). *)
(* Offsets are real byte offsets, so the 4 KiB read buffer boundaries fall     *)
(* where they fall in the implementation.                                     *)
EXTENDS Integers, Sequences, FiniteSets, TLC

RuleKinds == {"net", "host", "cos"}
EolLen(l)  == CASE l.eol = "lf" -> 1 [] l.eol = "crlf" -> 2 [] OTHER -> 0
LineLen(l) == l.padL + l.body + l.padR + EolLen(l)

RECURSIVE StartOf(_, _)
StartOf(lines, k) == IF k = 1 THEN 0 ELSE StartOf(lines, k - 1) + LineLen(lines[k - 1])   \* offset of line k
Size(lines) == IF lines = <<>> THEN 0 ELSE StartOf(lines, Len(lines)) + LineLen(lines[Len(lines)])

\* does scanning list L yield line k ?
Yields(L, k) == L.lines[k].kind \in RuleKinds /\ ~(L.ic /\ L.lines[k].kind = "cos")
\* the storage index of a rule: the pair (list id, offset of its line); ids are 32-bit, offsets below 2^31
Idx(L, k) == <<L.id, StartOf(L.lines, k)>>

\* scanning one list: the yielded lines in order, with their index
ScanList(L) == LET F[k \in 0..Len(L.lines)] ==
                     IF k = 0 THEN <<>>
                     ELSE IF Yields(L, k) THEN Append(F[k - 1], [list |-> L.id, line |-> k, kind |-> L.lines[k].kind, idx |-> Idx(L, k)])
                     ELSE F[k - 1]
               IN F[Len(L.lines)]
\* scanning the storage: the lists one after the other
RECURSIVE ScanAll(_)
ScanAll(lists) == IF lists = <<>> THEN <<>> ELSE ScanList(Head(lists)) \o ScanAll(Tail(lists))

\* retrieval by index: the line of that list that starts at that offset (Nothing if there is none)
Nothing == [nothing |-> TRUE]
Retrieve(lists, idx) ==
    LET C == { i \in 1..Len(lists) : lists[i].id = idx[1] } IN
    IF C = {} THEN Nothing
    ELSE LET L == lists[CHOOSE i \in C : TRUE]
             K == { k \in 1..Len(L.lines) : StartOf(L.lines, k) = idx[2] }
         IN IF K = {} THEN Nothing
            ELSE LET k == CHOOSE x \in K : TRUE IN
                 IF L.lines[k].kind \in RuleKinds THEN [list |-> L.id, line |-> k, kind |-> L.lines[k].kind] ELSE Nothing

(* ---- theorems ---- *)
DistinctIds(lists) == \A i, j \in 1..Len(lists) : i # j => lists[i].id # lists[j].id
\* every scanned rule can be retrieved again through its index
RoundTrip(lists) == LET s == ScanAll(lists) IN
    \A n \in 1..Len(s) : LET r == Retrieve(lists, s[n].idx) IN
        r # Nothing /\ r.list = s[n].list /\ r.line = s[n].line /\ r.kind = s[n].kind
\* the index is injective over the yielded rules
Injective(lists) == LET s == ScanAll(lists) IN \A m, n \in 1..Len(s) : m # n => s[m].idx # s[n].idx

(* ---- C12: comments, blank and rejected lines are inert ---- *)
IsNoise(l) == l.kind \in {"comment", "blank", "bad"}
Denoise(L) == [L EXCEPT !.lines = SelectSeq(L.lines, LAMBDA l : ~IsNoise(l))]
\* what a scan delivers, disregarding where the rules sit: (list id, kind) of the yielded lines in order, numbering only rule lines
RuleSeq(L) == LET D == Denoise(L) IN [n \in 1..Len(ScanList(D)) |-> [list |-> D.id, line |-> ScanList(D)[n].line, kind |-> ScanList(D)[n].kind]]
RuleNo(L, k) == Cardinality({ j \in 1..k : ~IsNoise(L.lines[j]) })      \* position of line k among the non-noise lines
NoiseInert(L) == LET s == ScanList(L) IN
    /\ Len(s) = Len(RuleSeq(L))
    /\ \A n \in 1..Len(s) : RuleNo(L, s[n].line) = RuleSeq(L)[n].line /\ s[n].kind = RuleSeq(L)[n].kind
=============================================================================
