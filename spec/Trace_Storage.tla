---------------------------- MODULE Trace_Storage ----------------------------
(* C11, code -> spec: each event is one storage built from random byte         *)
(* contents (byte order marks, NUL, CR without LF, multi-byte UTF-8, U+0085,    *)
(* long lines, no final newline).  Logged per list: its id (abstract), the      *)
(* ignore-cosmetic flag and the REFERENCE PARSE of the content line by line -   *)
(* for every '\n'-terminated line its byte offset and the kind the real NewRule *)
(* reports for it; then what the real scanner yielded (list, offset decoded     *)
(* from the index, kind, and whether text and list id equal the reference       *)
(* line's) and what RetrieveRule returned for every yielded index.              *)
(* Allowed iff the scan is exactly the rule lines of the reference parse in     *)
(* order (cosmetic rules dropped where asked), indexes are pairwise distinct    *)
(* and every retrieval reproduces its rule.                                     *)
EXTENDS Integers, Sequences, FiniteSets, TLC, Json
Trace == ndJsonDeserialize("trace.ndjson")
NCH == 64
RuleKinds == {"net", "host", "cos"}
VARIABLES ch, l
Init == ch = 0 /\ l = 0
Next == \/ ch = 0 /\ l = 0 /\ ch' \in 1..NCH /\ l' = 0
        \/ ch > 0 /\ l = 0 /\ ch' = ch /\ l' \in { k \in 1..Len(Trace) : k % NCH = ch - 1 }

RECURSIVE ExpectedOf(_, _)
\* the rule lines of list L from line k on
ExpectedOf(L, k) == IF k > Len(L.lines) THEN <<>>
                    ELSE LET x == L.lines[k] IN
                         IF x.kind \in RuleKinds /\ ~(L.ic /\ x.kind = "cos")
                         THEN <<[list |-> L.id, off |-> x.off, kind |-> x.kind]>> \o ExpectedOf(L, k + 1)
                         ELSE ExpectedOf(L, k + 1)
RECURSIVE ExpectedAll(_, _)
ExpectedAll(lists, i) == IF i > Len(lists) THEN <<>> ELSE ExpectedOf(lists[i], 1) \o ExpectedAll(lists, i + 1)

Good(e) ==
    LET exp == ExpectedAll(e.lists, 1) IN
    /\ Len(e.scan) = Len(exp)
    /\ \A n \in 1..Len(exp) : /\ e.scan[n].list = exp[n].list /\ e.scan[n].off = exp[n].off /\ e.scan[n].kind = exp[n].kind
                              /\ e.scan[n].same                          \* text = trimmed reference line, id = list id
    /\ \A m, n \in 1..Len(e.scan) : m # n => e.scan[m].raw # e.scan[n].raw    \* the index is injective
    /\ Len(e.retr) = Len(e.scan)
    /\ \A n \in 1..Len(e.retr) : e.retr[n].ok /\ e.retr[n].kind = e.scan[n].kind /\ e.retr[n].same
    /\ ~e.panic
Allowed == l > 0 =>
    LET e == Trace[l] IN
    Good(e) \/ ~PrintT(ToJson([kind |-> "REJECT", l |-> l, spec |-> ExpectedAll(e.lists, 1), code |-> e.scan]))
=============================================================================
