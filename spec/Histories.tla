------------------------------ MODULE Histories ------------------------------
(* Operators for validating recorded histories (C13, C19): a history is pure   *)
(* iff there is ONE function F from query keys to answers that every answer    *)
(* agrees with - F is not logged, it is filled on first observation and        *)
(* compared afterwards.                                                        *)
EXTENDS Integers, Sequences, FiniteSets, TLC
Extend(f, k, v) == [x \in DOMAIN f \cup {k} |-> IF x = k THEN v ELSE f[x]]
Consistent(F, q, a) == q \in DOMAIN F => F[q] = a
SetOf(s) == { s[k] : k \in 1..Len(s) }
=============================================================================
