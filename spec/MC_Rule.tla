------------------------------ MODULE MC_Rule ------------------------------
(* C04, spec -> code: TLC enumerates a pool of abstract rules (every value   *)
(* set of each modifier family over a small universe, and pairs of families)  *)
(* and evaluates Rule!Match against a structured universe of requests; each   *)
(* rule is emitted with its row of expected match bits and replayed by the    *)
(* harness into rules.NewNetworkRule / NetworkRule.Match.                     *)
EXTENDS Rule, Json, SequencesExt, FiniteSetsExt

CONSTANT MaxSet,      \* maximal number of values in one list-valued modifier
         PairVals     \* how many representatives of each family enter the pairwise part

(* ---------------- hosts ---------------- *)
H(a)          == <<a>>
exampleOrg    == <<Str("example"), Str("org")>>
subExampleOrg == <<Str("sub"), Str("example"), Str("org")>>
notexampleOrg == <<Str("notexample"), Str("org")>>
exampleCom    == <<Str("example"), Str("com")>>
exampleCoUk   == <<Str("www"), Str("example"), Str("co"), Str("uk")>>
googleCom     == <<Str("google"), Str("com")>>
mailGoogleUk  == <<Str("mail"), Str("google"), Str("co"), Str("uk")>>
trickGoogle   == <<Str("a"), Str("google"), Str("x"), Str("notgoogle"), Str("com")>>
googleBlog    == <<Str("google"), Str("blogspot"), Str("com")>>
googleCk      == <<Str("google"), Str("foo"), Str("ck")>>
googleZz      == <<Str("google"), Str("zz")>>
notGoogleGoogle == <<Str("notgoogle"), Str("google"), Str("com")>>
ipHost        == <<Str("1"), Str("2"), Str("3"), Str("4")>>
googleWild    == <<Str("google"), <<42>>>>
exampleWild   == <<Str("example"), <<42>>>>

(* ---------------- requests ---------------- *)
WebReq(url, host, src, type) ==
    LET hp == PublicSuffix(host)
        sp == PublicSuffix(src)
    IN [hostreq |-> FALSE, url |-> url, host |-> host, src |-> src, hostIsIP |-> host = ipHost,
        hostPsl |-> hp, srcPsl |-> sp,
        thirdParty |-> (src # <<>> /\ DomainOf(src, sp) # DomainOf(host, hp)),
        type |-> type, dnsType |-> "none", tags |-> {}, cname |-> <<>>, cip |-> Nil]
HostReq(host, dt, tags, cname, cip) ==
    [hostreq |-> TRUE, url |-> Str("http://") \o JoinDots(host), host |-> host, src |-> <<>>,
     hostIsIP |-> host = ipHost, hostPsl |-> PublicSuffix(host), srcPsl |-> PublicSuffix(<<>>),
     thirdParty |-> FALSE, type |-> "document", dnsType |-> dt, tags |-> tags, cname |-> cname, cip |-> cip]

Urls == { <<Str("http://example.org/ad.js"), exampleOrg>>,
          <<Str("https://sub.example.org/ads/banner.png?x=1"), subExampleOrg>>,
          <<Str("http://example.com/Ad.JS"), exampleCom>>,
          <<Str("http://1.2.3.4/ad.js"), ipHost>> }
Srcs == { <<>>, exampleOrg, subExampleOrg, notexampleOrg, exampleCom, googleCom, mailGoogleUk,
          trickGoogle, googleBlog, googleCk, googleZz, exampleCoUk, notGoogleGoogle }
QTypes == {"script", "image", "document", "subdocument"}

V4(a, b, c, d) == [fam |-> 4, bytes |-> <<a, b, c, d>>]
V6(bs)         == [fam |-> 6, bytes |-> bs]
Zeros(n) == [k \in 1..n |-> 0]
ipLan     == V4(192, 168, 1, 5)
ipTen     == V4(10, 0, 0, 1)
ipLink    == V6(<<254, 128>> \o Zeros(13) \o <<1>>)
ipMapped  == V6(Zeros(10) \o <<255, 255, 192, 168, 1, 5>>)
namePhone == Str("phone")
nameFrank == Str("Frank's laptop")
Clients == { <<<<>>, Nil>>, <<namePhone, Nil>>, <<nameFrank, Nil>>, <<<<>>, ipLan>>, <<<<>>, ipTen>>,
             <<<<>>, ipLink>>, <<<<>>, ipMapped>>, <<namePhone, ipTen>> }
Tag1 == Str("t1")  Tag2 == Str("t2")  Tag3 == Str("t_3")
TagSets == { {}, {Tag1}, {Tag2, Tag3} }
DnsTypes == {"none", "A", "AAAA", "CNAME"}
hexOnly   == <<Str("cafe"), Str("be")>>          \* only hexadecimal digits and dots, yet a host name
HostNames == { exampleOrg, subExampleOrg, notexampleOrg, ipHost, hexOnly }

QWeb  == { WebReq(u[1], u[2], s, t) : u \in Urls, s \in Srcs, t \in QTypes }
QHost == { HostReq(h, dt, tg, c[1], c[2]) : h \in HostNames, dt \in DnsTypes, tg \in TagSets, c \in Clients }
Q == SetToSeq(QWeb) \o SetToSeq(QHost)
NQ == Len(Q)

(* ---------------- rules ---------------- *)
AnyPat == Str("://")                      \* matches every request of the universe
R0 == [BaseRule EXCEPT !.pat = AnyPat]

\* all (perm, rest) splits of subsets of U with at most MaxSet values in total, not both empty
Splits(U) == { pr \in (SUBSET U) \X (SUBSET U) :
                  /\ pr[1] \cap pr[2] = {} /\ pr[1] \cup pr[2] # {}
                  /\ Cardinality(pr[1]) + Cardinality(pr[2]) <= MaxSet }

FThird == { [R0 EXCEPT !.third = t] : t \in {"on", "off"} }
TypeU  == {"script", "image", "subdocument"}
\* include and exclude lists may overlap for content types
FTypes == { [R0 EXCEPT !.permTypes = p, !.restTypes = x] :
              p \in {s \in SUBSET TypeU : Cardinality(s) <= 2}, x \in {s \in SUBSET TypeU : Cardinality(s) <= 2} }
          \ {R0}
blogspotCom == <<Str("blogspot"), Str("com")>>       \* a public suffix of the private section, as a plain $domain value
DomU   == { exampleOrg, subExampleOrg, exampleCom, googleWild, exampleWild, blogspotCom }
FDomain == { [R0 EXCEPT !.permDom = pr[1], !.restDom = pr[2]] : pr \in Splits(DomU) }
DenyU  == { exampleOrg, subExampleOrg, exampleCom, exampleWild }
FDeny  == { [R0 EXCEPT !.denyallow = d] : d \in {s \in SUBSET DenyU : s # {} /\ Cardinality(s) <= MaxSet} }
DnsU   == {"A", "AAAA", "CNAME"}
FDns   == { [R0 EXCEPT !.permDns = pr[1], !.restDns = pr[2]] : pr \in Splits(DnsU) }
TagU   == {Tag1, Tag2, Tag3}
FTag   == { [R0 EXCEPT !.permTag = pr[1], !.restTag = pr[2]] : pr \in Splits(TagU) }
Name(v) == [k |-> "name", v |-> v]
Net(f, bs, n) == [k |-> "net", fam |-> f, bytes |-> bs, bits |-> n]
CliU   == { Name(namePhone), Name(nameFrank), Net(4, <<192, 168, 1, 5>>, 32), Net(4, <<192, 168, 0, 0>>, 16),
            Net(4, <<10, 0, 0, 0>>, 7), Net(6, <<254, 128>> \o Zeros(14), 10),
            Net(6, Zeros(10) \o <<255, 255, 192, 168, 1, 5>>, 128) }
FClient == { [R0 EXCEPT !.permCli = pr[1], !.restCli = pr[2]] : pr \in Splits(CliU) }
PatU   == { Str("||example.org^"), Str("example.org"), Str("|http://example."), Str("://example"), Str("/ad.js|"),
            Str("ad.JS"), Str("||example.org/*"), Str("^ad"), Str("/example."), Str("/exam_ple."), Str("http://example.org"),
            Str("|sub."), Str("org|") }
FPattern == { [R0 EXCEPT !.pat = p, !.mcase = m] : p \in PatU, m \in {"none", "on"} }
FFlags == { [R0 EXCEPT !.white = w, !.important = i, !.misc = m] : w \in BOOLEAN, i \in BOOLEAN, m \in {{}, {"popup"}} }
          \ { r \in { [R0 EXCEPT !.white = TRUE, !.important = i, !.misc = {"popup"}] : i \in BOOLEAN } : TRUE }
FDoc   == { [R0 EXCEPT !.white = TRUE, !.docOpts = d, !.permTypes = p] :
              d \in { {o} : o \in DocOpts } \cup {{"urlblock", "genericblock"}, DocOpts \ {"generichide", "genericblock"}},
              p \in {{}, {"script"}} }

Families == [third |-> FThird, types |-> FTypes, domain |-> FDomain, deny |-> FDeny, dns |-> FDns,
             tag |-> FTag, client |-> FClient, pattern |-> FPattern, flags |-> FFlags, doc |-> FDoc]
FamNames == DOMAIN Families

\* pairwise part: combine representatives of two different families field by field
Merge(a, b) == [f \in DOMAIN R0 |-> IF a[f] # R0[f] THEN a[f] ELSE b[f]]
Reps(fn) == LET s == SetToSeq(Families[fn]) IN { s[k] : k \in 1..Min({PairVals, Len(s)}) }
PairNames == { pr \in FamNames \X FamNames : pr[1] # pr[2] /\ pr[1] \notin {"flags", "doc"} /\ pr[2] \notin {"flags", "doc"} }
PairRules(pr) == { Merge(a, b) : a \in Reps(pr[1]), b \in Reps(pr[2]) }

VARIABLES st, fam, r
vars == <<st, fam, r>>
Init == st = "root" /\ fam = <<>> /\ r = R0
Next == \/ /\ st = "root" /\ st' = "fam" /\ fam' \in { <<n>> : n \in FamNames } \cup PairNames /\ r' = r
        \/ /\ st = "fam" /\ st' = "rule" /\ fam' = fam
           /\ r' \in IF Len(fam) = 1 THEN Families[fam[1]] ELSE PairRules(fam)

\* Accepts is evaluated once per (pattern, match-case, target) and looked up afterwards
AllPats    == PatU \cup {AnyPat}
AllTargets == { Q[k].url : k \in 1..NQ } \cup { JoinDots(Q[k].host) : k \in 1..NQ }
PatCache   == [p \in AllPats, m \in BOOLEAN, t \in AllTargets |-> Accepts(p, m, t)]
MatchC(x, q) == ModifiersOK(x, q) /\ PatCache[x.pat, MatchCase(x), Target(x, q)]

Row(x) == [k \in 1..NQ |-> B(MatchC(x, Q[k]))]

\* emission (always TRUE)
Emit == /\ (st = "root" => PrintT(ToJson([kind |-> "REQS", reqs |-> Q])))
        /\ (st = "rule" => PrintT(ToJson([kind |-> "ROW", fam |-> fam, rule |-> r, exp |-> Row(r)])))

(* ---- model-level theorems ---- *)
\* adding a value to any exclude list never turns a non-match into a match
AddRest(x) == { [x EXCEPT !.restDom = @ \cup {d}] : d \in DomU } \cup { [x EXCEPT !.restDns = @ \cup {d}] : d \in DnsU }
              \cup { [x EXCEPT !.restTag = @ \cup {t}] : t \in TagU } \cup { [x EXCEPT !.restCli = @ \cup {c}] : c \in CliU }
              \cup { [x EXCEPT !.restTypes = @ \cup {t}] : t \in TypeU } \cup { [x EXCEPT !.denyallow = @ \cup {d}] : d \in DenyU }
Monotone == st = "rule" => \A y \in AddRest(r) : \A k \in 1..NQ : ModifiersOK(y, Q[k]) => ModifiersOK(r, Q[k])
\* the any-pattern really matches every request of the universe, so rows are decided by the modifiers
AnyPatOK == st = "root" => \A k \in 1..NQ : PatternOK(R0, Q[k]) /\ MatchC(R0, Q[k]) = Match(R0, Q[k])
\* the axioms the index models rely on (DESIGN.md section 5): a matching rule's $domain restriction is witnessed by a
\* label-suffix of the source host - unless the domain is a wildcard-TLD one
DomainAxiom == st = "rule" => \A k \in 1..NQ :
                  (MatchC(r, Q[k]) /\ r.permDom # {} /\ ~\E d \in r.permDom : IsWild(d))
                     => \E d \in r.permDom : d \in HostSuffixes(Q[k].src)
=============================================================================
