---------------------------- MODULE RewriteValue ----------------------------
(* C10: the published shape of a parsed $dnsrewrite value.                    *)
(* A parse result is either Error or a shape                                  *)
(*   [cname : BOOLEAN, rcode : name, rrtype : name or "", vtype : type name]  *)
(* projected from the real DNSRewrite (vtype is the DYNAMIC type of Value).   *)
(* ShapeOK is the property itself and is what traces are validated against;   *)
(* Expected gives the outcome for the abstract value grammar                  *)
(*   short form: keyword | address | host,   normal form: RCODE;RRTYPE;VALUE  *)
(* whose value classes the harness renders in several concrete spellings.     *)
EXTENDS Integers, Sequences, FiniteSets, TLC

Error == [error |-> TRUE]
Shape(c, rc, rr, vt) == [cname |-> c, rcode |-> rc, rrtype |-> rr, vtype |-> vt]

\* dynamic type of the value as a function of the record type
VTypeOf(rr) == CASE rr = "A" -> "ipv4" [] rr = "AAAA" -> "ipv6" [] rr = "MX" -> "mx" [] rr = "SRV" -> "srv"
                 [] rr \in {"HTTPS", "SVCB"} -> "svcb" [] rr = "PTR" -> "fqdn" [] rr = "TXT" -> "string"
                 [] OTHER -> "nil"

ShapeOK(s) ==
    /\ (s.cname => s.rcode = "NOERROR" /\ s.rrtype = "" /\ s.vtype = "nil")     \* a new CNAME carries nothing else
    /\ (s.rrtype # "" => s.rcode = "NOERROR")                                   \* a record type only with success
    /\ s.vtype = (IF s.cname THEN "nil" ELSE VTypeOf(s.rrtype))                  \* value type fixed by the record type

(* ---- abstract grammar ---- *)
Keywords   == {"NOERROR", "SERVFAIL", "NXDOMAIN", "REFUSED"}
ShortForms == Keywords \cup {"empty", "OTHERUPPER", "v4", "v6", "mapped", "host", "len63", "badhost", "len64", "onesemi"}
ExpectedShort(f) ==
    CASE f = "empty"      -> Shape(FALSE, "NOERROR", "", "nil")
      [] f \in Keywords   -> Shape(FALSE, f, "", "nil")
      [] f = "OTHERUPPER" -> Error
      [] f = "v4"         -> Shape(FALSE, "NOERROR", "A", "ipv4")
      [] f \in {"v6", "mapped"} -> Shape(FALSE, "NOERROR", "AAAA", "ipv6")
      [] f \in {"host", "len63"} -> Shape(TRUE, "NOERROR", "", "nil")
      [] OTHER            -> Error                           \* badhost, len64, a single ';'

RCodes  == {"NOERROR", "noerror", "NXDOMAIN", "REFUSED", "SERVFAIL", "FORMERR", "BOGUSRC"}
RRTypes == {"A", "AAAA", "CNAME", "MX", "PTR", "TXT", "HTTPS", "SVCB", "SRV", "NS", "", "FOO", "NONE"}
ValClasses(rr) ==
    CASE rr \in {"A", "AAAA"}     -> {"v4", "v6", "mapped", "garbage", "empty"}
      [] rr \in {"CNAME", "PTR"}  -> {"host", "hostdot", "badhost", "len63", "len64", "empty"}
      [] rr = "MX"                -> {"mx_ok", "mx_max", "mx_1field", "mx_over", "mx_neg", "mx_nan", "mx_badhost", "empty"}
      [] rr = "TXT"               -> {"text", "spaces", "empty"}
      [] rr = "SRV"               -> {"srv_ok", "srv_dot", "srv_3fields", "srv_5fields", "srv_over_prio", "srv_over_weight",
                                      "srv_over_port", "srv_nan", "srv_badhost", "empty"}
      [] rr \in {"HTTPS", "SVCB"} -> {"svcb_ok", "svcb_dot", "svcb_params", "svcb_1field", "svcb_nan", "svcb_over",
                                      "svcb_badhost", "svcb_badparam", "svcb_3eq", "empty"}
      [] OTHER                    -> {"empty", "text"}
GoodVal(rr, vc) ==
    CASE rr = "A"     -> vc = "v4"
      [] rr = "AAAA"  -> vc \in {"v6", "mapped"}
      [] rr = "CNAME" -> vc \in {"host", "len63"}
      [] rr = "PTR"   -> vc \in {"host", "hostdot", "len63"}
      [] rr = "MX"    -> vc \in {"mx_ok", "mx_max"}
      [] rr = "TXT"   -> TRUE
      [] rr = "SRV"   -> vc \in {"srv_ok", "srv_dot", "srv_5fields"}
      [] rr \in {"HTTPS", "SVCB"} -> vc \in {"svcb_ok", "svcb_dot", "svcb_params"}
      [] OTHER        -> TRUE
Upper(rc) == IF rc = "noerror" THEN "NOERROR" ELSE rc
ExpectedNormal(rc, rr, vc) ==
    IF rc = "BOGUSRC" THEN Error
    ELSE IF Upper(rc) # "NOERROR" THEN Shape(FALSE, rc, "", "nil")          \* a non-success code carries nothing else
    ELSE IF rr = "" /\ vc = "empty" THEN Shape(FALSE, "NOERROR", "", "nil")
    ELSE IF rr \in {"", "FOO", "NONE"} THEN Error
    ELSE IF ~GoodVal(rr, vc) THEN Error
    ELSE IF rr = "CNAME" THEN Shape(TRUE, "NOERROR", "", "nil")
    ELSE Shape(FALSE, "NOERROR", rr, VTypeOf(rr))
=============================================================================
