CONSTANT MaxSet = 2
CONSTANT PairVals = 4
INIT Init
NEXT Next
INVARIANT Emit
INVARIANT Monotone
INVARIANT AnyPatOK
INVARIANT DomainAxiom
CHECK_DEADLOCK FALSE
