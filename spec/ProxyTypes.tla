----------------------------- MODULE ProxyTypes -----------------------------
(* The variable-free part of ProxySession.tla: how the proxy assumes a        *)
(* content type from request and response headers, the engine abstraction of  *)
(* a run, the outcome of a whole exchange as one function, and the status of  *)
(* the content-script endpoint.  ProxySession.tla (the step-wise machine) and *)
(* Trace_ProxySession.tla (trace validation) both build on it.                *)
EXTENDS Naturals, FiniteSets, TLC

Types == {"document", "subdocument", "script", "stylesheet", "image", "object", "media", "font",
          "xmlhttprequest", "websocket", "ping", "other"}

(* ---- what the proxy reads off the request and the response ---- *)
Upgrades   == {"none", "websocket"}
FetchDests == {"none", "document", "iframe", "script", "style", "image", "empty", "embed", "bogus"}
Accepts    == {"none", "html", "css", "image", "json", "any"}
Exts       == {"none", "js", "png", "css", "woff", "json", "xyz"}
CTypes     == {"none", "html", "html-charset", "xhtml", "css", "js", "image", "json", "m3u", "plain"}

\* fetchDestValues of session.go, restricted to FetchDests; "embed" maps to other, unknown values too
FromFetchDest(fd) == CASE fd = "document" -> "document" [] fd = "iframe" -> "subdocument" [] fd = "script" -> "script"
                       [] fd = "style" -> "stylesheet" [] fd = "image" -> "image" [] fd = "empty" -> "xmlhttprequest"
                       [] OTHER -> "other"
\* assumeRequestTypeFromMediaType; used for the Accept header and for the Content-Type alike
FromMedia(m) == CASE m \in {"html", "html-charset", "xhtml", "m3u"} -> "document" [] m = "css" -> "stylesheet"
                  [] m = "js" -> "script" [] m = "image" -> "image" [] m = "json" -> "xmlhttprequest" [] OTHER -> "other"
\* ... for a response's Content-Type (after mime.ParseMediaType): M3uResponseIsMedia
FromContentType(m) == IF m = "m3u" THEN "media" ELSE FromMedia(m)
\* assumeRequestTypeFromURL
FromExt(e) == CASE e = "js" -> "script" [] e = "png" -> "image" [] e = "css" -> "stylesheet" [] e = "woff" -> "font"
                [] e = "json" -> "xmlhttprequest" [] OTHER -> "other"

Absent == "absent"                         \* no response yet
\* assumeRequestType(req, res)
AssumeType(req, res) ==
    IF req.upgrade = "websocket" THEN "websocket"
    ELSE IF req.ping THEN "ping"
    ELSE IF FromFetchDest(req.fetchDest) # "other" THEN FromFetchDest(req.fetchDest)
    ELSE IF res # Absent THEN FromContentType(res)                        \* ResponseTypeIgnoresRequest
    ELSE IF FromMedia(req.accept) # "other" THEN FromMedia(req.accept)
    ELSE FromExt(req.ext)
\* a request header decides the type at both stages
HeaderDecides(req) == req.upgrade = "websocket" \/ req.ping \/ FromFetchDest(req.fetchDest) # "other"

(* ---- the engine, abstracted by the run's rule set ---- *)
CONSTANTS BlockedTypes,     \* subset of Types \ {"document"}
          DocException      \* BOOLEAN
Blocks(t) == t \in BlockedTypes
\* the cosmetic option of the page's verdict, as the number the content-script URL carries (generic CSS 1, CSS 2, JS 4):
\* everything, nothing under the $document exception, and - in the part of the site that has an $elemhide exception of
\* its own (area "nocss") - scripts only.  Exceptions of this kind apply to document requests only.
Areas == {"main", "nocss"}
Option(t, area) == IF t # "document" THEN 7 ELSE IF DocException THEN 0 ELSE IF area = "nocss" THEN 4 ELSE 7
CosmeticOff(t) == DocException /\ t = "document"

StaticTypes == {"image", "font", "script", "stylesheet", "media"}
SuppressCache(t) == t \notin StaticTypes                                   \* SuppressWindowForever

Requests == [upgrade : Upgrades, ping : BOOLEAN, fetchDest : FetchDests, accept : Accepts, ext : Exts, cond : BOOLEAN, area : Areas]

(* ---- the function the conformance harness replays: the whole exchange at once ---- *)
Outcome(q, ct) ==
    LET t1 == AssumeType(q, Absent) t2 == AssumeType(q, ct) IN
    IF Blocks(t1) THEN [type1 |-> t1, type2 |-> "-", origin |-> FALSE, cond |-> FALSE, status |-> 500, body |-> "blockpage", option |-> 0]
    ELSE IF t1 = "websocket" THEN [type1 |-> t1, type2 |-> "-", origin |-> TRUE, cond |-> q.cond /\ ~SuppressCache(t1), status |-> 101, body |-> "tunnel", option |-> 0]
    ELSE [type1 |-> t1, type2 |-> t2, origin |-> TRUE, cond |-> q.cond /\ ~SuppressCache(t1),
          status |-> IF Blocks(t2) THEN 500 ELSE 200,
          body |-> IF Blocks(t2) THEN "blockpage"
                   ELSE IF t2 \in {"document", "subdocument"} /\ ~CosmeticOff(t2) THEN "filtered" ELSE "origin",
          \* the option the injected tag names (0: nothing injected)
          option |-> IF ~Blocks(t2) /\ t2 \in {"document", "subdocument"} /\ ~CosmeticOff(t2) THEN Option(t2, q.area) ELSE 0]
(* ---- the content script endpoint (contentscript.go buildContentScript) ---- *)
\* method: "GET" | "POST"; hostname, option, ts: how the query parameter looks; ims: If-Modified-Since present
\*   hostname: "absent" | "one" | "twice"      (getQueryParameter wants exactly one value)
\*   option:   "absent" | "zero" | "garbage" | a cosmetic option 1..7 given as "o1".."o7"
\*             (bit 1: generic element hiding, bit 2: element hiding, bit 4: scripts - rules/match.go)
\*   ts:       "absent" | "zero" | "created" (the server's creation time) | "other"
OptionValue(option) == CASE option = "o1" -> 1 [] option = "o2" -> 2 [] option = "o3" -> 3 [] option = "o4" -> 4
                         [] option = "o5" -> 5 [] option = "o6" -> 6 [] option = "o7" -> 7 [] OTHER -> 0
ScriptStatus(method, hostname, option, ts, ims) ==
    IF method # "GET" THEN 404
    ELSE IF hostname # "one" \/ OptionValue(option) = 0 \/ ts \in {"absent", "zero"} THEN 404
    ELSE IF ts = "created" /\ ims THEN 304
    ELSE 200
\* what the served script hides (engine.go GetCosmeticResult, cosmeticengine.go Match): the rules of the page's own host
\* when element hiding is on, the generic ones when both element hiding and generic element hiding are on; the
\* scripts bit does not touch either
ScriptHides(option) ==
    LET v == OptionValue(option) IN
    [specific |-> (v \div 2) % 2 = 1, generic |-> (v \div 2) % 2 = 1 /\ v % 2 = 1]
=============================================================================
