------------------------------ MODULE RuleText ------------------------------
(* The meaning of a rule TEXT: from the syntax tree of a basic rule            *)
(*     [white, pat, opts]   opts: sequence of [name, neg, vals]                *)
(*     vals: sequence of [neg, v] (the "|"-separated values after "=")         *)
(* to the abstract Rule record of Rule.tla, or Error.  This makes the          *)
(* reference of C04 a function of the rule text itself: the harness renders    *)
(* the tree literally (name, "~", "=", "|", ","), it chooses nothing.          *)
(* Options are folded left to right: flags accumulate, a list-valued modifier  *)
(* written twice is replaced by its last occurrence.                           *)
EXTENDS Rule

Error == [error |-> TRUE]
\* contradicting flags ($third-party together with $first-party) have no documented meaning: such texts are not cases
Unspecified == [unspecified |-> TRUE]
SetFlag(r, field, v) == IF r[field] \notin {"none", v} THEN Unspecified ELSE [r EXCEPT ![field] = v]
ContentTypes == Types \ {"document"}
WhiteOnly == DocOpts \cup {"stealth"}
BlackOnly == {"popup", "empty", "mp4"}
Doc5 == {"elemhide", "jsinject", "urlblock", "content", "extension"}

Perm(vals) == { vals[k].v : k \in { i \in 1..Len(vals) : ~vals[i].neg } }
Rest(vals) == { vals[k].v : k \in { i \in 1..Len(vals) : vals[i].neg } }

\* one option applied to the rule built so far (r is a Rule record or Error)
Apply(r, o) ==
    IF r \in {Error, Unspecified} THEN r
    ELSE LET n == o.name IN
    CASE n = "third-party" -> SetFlag(r, "third", IF o.neg THEN "off" ELSE "on")
      [] n = "first-party" -> SetFlag(r, "third", IF o.neg THEN "on" ELSE "off")
      [] n = "match-case"  -> SetFlag(r, "mcase", IF o.neg THEN "off" ELSE "on")
      [] n = "important"   -> IF o.neg THEN Error ELSE [r EXCEPT !.important = TRUE]
      [] n = "badfilter"   -> IF o.neg THEN Error ELSE [r EXCEPT !.badfilter = TRUE]
      [] n \in ContentTypes -> IF o.neg THEN [r EXCEPT !.restTypes = @ \cup {n}] ELSE [r EXCEPT !.permTypes = @ \cup {n}]
      [] n = "domain"      -> IF o.neg \/ o.vals = <<>> THEN Error
                              ELSE [r EXCEPT !.permDom = Perm(o.vals), !.restDom = Rest(o.vals)]
      [] n = "denyallow"   -> IF o.neg \/ o.vals = <<>> \/ Rest(o.vals) # {} THEN Error
                              ELSE [r EXCEPT !.denyallow = Perm(o.vals)]
      [] n = "dnstype"     -> IF o.neg \/ o.vals = <<>> THEN Error
                              ELSE [r EXCEPT !.permDns = Perm(o.vals), !.restDns = Rest(o.vals)]
      [] n = "ctag"        -> IF o.neg \/ o.vals = <<>> THEN Error
                              ELSE [r EXCEPT !.permTag = Perm(o.vals), !.restTag = Rest(o.vals)]
      [] n = "client"      -> IF o.neg \/ o.vals = <<>> THEN Error
                              ELSE [r EXCEPT !.permCli = Perm(o.vals), !.restCli = Rest(o.vals)]
      [] n \in DocOpts     -> IF o.neg \/ ~r.white THEN Error ELSE [r EXCEPT !.docOpts = @ \cup {n}]
      [] n = "document"    -> IF o.neg \/ ~r.white THEN Error ELSE [r EXCEPT !.docOpts = @ \cup Doc5]
      [] n = "stealth"     -> IF o.neg \/ ~r.white THEN Error ELSE [r EXCEPT !.misc = @ \cup {n}]
      [] n \in BlackOnly   -> IF o.neg \/ r.white THEN Error ELSE [r EXCEPT !.misc = @ \cup {n}]
      [] OTHER             -> Error                                   \* unknown modifier

RECURSIVE Fold(_, _, _)
Fold(r, opts, k) == IF k > Len(opts) THEN r ELSE Fold(Apply(r, opts[k]), opts, k + 1)

Restricted(r) == r.permDom # {} \/ r.restDom # {} \/ r.permCli # {} \/ r.restCli # {} \/ r.permTag # {} \/ r.restTag # {}
                 \/ r.permDns # {} \/ r.restDns # {} \/ r.denyallow # {}
\* a pattern that matches (nearly) everything needs a restricting modifier
TooWide(r) == (Len(r.pat) < 3 \/ IsAny(r.pat)) /\ ~Restricted(r)

Meaning(rt) ==
    LET r == Fold([BaseRule EXCEPT !.white = rt.white, !.pat = rt.pat], rt.opts, 1)
    IN IF r \in {Error, Unspecified} THEN r ELSE IF TooWide(r) THEN Error ELSE r
=============================================================================
