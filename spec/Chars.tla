------------------------------- MODULE Chars -------------------------------
(* Characters are ASCII codes, strings are sequences of codes, so that the    *)
(* specification can index, slice and fold case.  Printable alphabet 33..126. *)
EXTENDS Integers, Sequences, FiniteSets

Alpha == 33..126
EOT   == 0                      \* "no next character" marker used by the automata

\* Str("text") denotes the tuple of ASCII codes of text: TLA+ strings are atomic, so bin/check
\* replaces every Str("..") textually by that tuple in the scratch copy it hands to TLC.
Str(str) == str

IsLowerCh(c) == c >= 97 /\ c <= 122
IsUpperCh(c) == c >= 65 /\ c <= 90
IsDigitCh(c) == c >= 48 /\ c <= 57
IsAlnumCh(c) == IsLowerCh(c) \/ IsUpperCh(c) \/ IsDigitCh(c)
IsWordCh(c)  == IsAlnumCh(c) \/ c = 95
Lower(c)     == IF IsUpperCh(c) THEN c + 32 ELSE c
LowerSeq(s)  == [k \in 1..Len(s) |-> Lower(s[k])]

\* Documented separator: any character but a letter, a digit, or one of _ - . %
\* (the blank, 32, is outside the URL alphabet; it is the one place where the code's
\* constant and the documentation differ and it cannot occur in a URL)
IsSepCh(c) == ~(IsAlnumCh(c) \/ c \in {95, 45, 46, 37, 32})

\* Characters of the optional sub-domain part of the start-of-address mask.
\* The class is written in lower case; without match-case the comparison folds case.
IsSubCh(c, mc) == IsLowerCh(c) \/ IsDigitCh(c) \/ c \in {45, 95, 46} \/ (~mc /\ IsUpperCh(c))

EqCh(c, d, mc) == IF mc THEN c = d ELSE Lower(c) = Lower(d)

ContainsSeq(s, t) == \E i \in 0..(Len(s) - Len(t)) : SubSeq(s, i + 1, i + Len(t)) = t
HasPrefix(s, t) == Len(s) >= Len(t) /\ SubSeq(s, 1, Len(t)) = t
HasSuffix(s, t) == Len(s) >= Len(t) /\ SubSeq(s, Len(s) - Len(t) + 1, Len(s)) = t
Windows(s, k)  == { SubSeq(s, i, i + k - 1) : i \in 1..(Len(s) - k + 1) }
=============================================================================
