----------------------------- MODULE MC_Priority -----------------------------
(* C07, spec -> code: the pool of rules is the cartesian product of the       *)
(* features the priority comparison reads.  TLC emits the pool (and checks    *)
(* that the intended rank-induced relation is a strict weak order on it); the *)
(* harness evaluates the real IsHigherPriority on every ordered pair and      *)
(* Trace_Priority validates the observed relation.                            *)
EXTENDS Verdict, Json

CONSTANT Full        \* TRUE: 1728-rule pool, FALSE: 288-rule sub-pool

PM == Str("||h.test^")
SrcDom == <<Str("src"), Str("test")>>
P0 == [BaseRule EXCEPT !.pat = PM]
DomF == {"none", "perm", "rest"}
TypF == IF Full THEN {0, 1, 2, 11} ELSE {0, 11}         \* 11: nearly every content type excluded - a generic rule with many modifiers
ThrF == IF Full THEN {"none", "on", "off"} ELSE {"none", "on"}
Mk(w, i, d, t, th, dt, tg, cl, da) ==
    [P0 EXCEPT !.white = w, !.important = i,
               !.permDom = IF d = "perm" THEN {SrcDom} ELSE {}, !.restDom = IF d = "rest" THEN {SrcDom} ELSE {},
               !.restTypes = IF t = 0 THEN {} ELSE IF t = 1 THEN {"script"} ELSE IF t = 2 THEN {"script", "image"}
                             ELSE Types \ {"document"},
               !.third = th, !.permDns = IF dt THEN {"A"} ELSE {}, !.permTag = IF tg THEN {Str("t1")} ELSE {},
               !.permCli = IF cl THEN {[k |-> "name", v |-> Str("phone")]} ELSE {},
               !.denyallow = IF da THEN {<<Str("other"), Str("test")>>} ELSE {}]
PoolSet == { Mk(w, i, d, t, th, dt, tg, cl, da) : w \in BOOLEAN, i \in BOOLEAN, d \in DomF, t \in TypF, th \in ThrF,
                                                 dt \in BOOLEAN, tg \in BOOLEAN, cl \in BOOLEAN, da \in BOOLEAN }
\* ... and the deprecated blocking-only modifiers, which the comparison must treat like any other modifier
MiscSet == { [Mk(FALSE, i, d, 0, "none", FALSE, tg, FALSE, FALSE) EXCEPT !.misc = {m}] :
                 i \in BOOLEAN, d \in DomF, tg \in BOOLEAN, m \in {"empty", "mp4", "popup"} }
\* ... and rules with two negated modifiers (~third-party, ~match-case): each counts
NegSet == { [Mk(w, i, d, 0, "off", FALSE, FALSE, FALSE, FALSE) EXCEPT !.mcase = mc] :
                w \in BOOLEAN, i \in BOOLEAN, d \in DomF, mc \in {"none", "off", "on"} }
\* ... and exceptions with document-level modifiers - the ones that only switch cosmetic filtering off, the ones that
\* change how sub-requests are blocked, and $document: an exception is an exception, whatever it is for
DocSet == { [Mk(TRUE, i, d, 0, "none", FALSE, FALSE, FALSE, FALSE) EXCEPT !.docOpts = o] :
                i \in BOOLEAN, d \in DomF,
                o \in { {"elemhide"}, {"generichide"}, {"jsinject"}, {"content"}, {"urlblock"}, {"genericblock"},
                        {"elemhide", "jsinject", "urlblock", "content", "extension"} } }
Pool == SetToSeq(PoolSet \cup MiscSet \cup NegSet \cup DocSet)
N == Len(Pool)

Rk == [i \in 1..N |-> Rank(Pool[i])]
Hi(i, j)  == LexGreater(Rk[i], Rk[j])         \* = Higher(Pool[i], Pool[j])
Tie(i, j) == ~Hi(i, j) /\ ~Hi(j, i)
NCH == 32

VARIABLES ch, a
Init == ch = 0 /\ a = 0
Next == \/ ch = 0 /\ a = 0 /\ ch' \in 1..NCH /\ a' = 0
        \/ ch > 0 /\ a = 0 /\ ch' = ch /\ a' \in { i \in 1..N : i % NCH = ch - 1 }
Emit == (ch = 0 /\ a = 0) => PrintT(ToJson([kind |-> "POOL", rules |-> Pool]))

\* the intended relation is a strict weak order (irreflexive, asymmetric, transitive, ties transitive) on the pool
IntendedSWO == a > 0 =>
    /\ ~Hi(a, a) /\ Hi(a, a) = Higher(Pool[a], Pool[a])
    /\ \A j \in 1..N : Hi(a, j) => ~Hi(j, a)
    /\ \A j \in 1..N : Hi(a, j) => \A k \in 1..N : Hi(j, k) => Hi(a, k)
    /\ \A j \in 1..N : Tie(a, j) => \A k \in 1..N : Tie(j, k) => Tie(a, k)
=============================================================================
