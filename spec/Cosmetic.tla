------------------------------ MODULE Cosmetic ------------------------------
(* C15: the element-hiding result of the cosmetic engine.  A cosmetic rule is *)
(* [exc, content, permDom, restDom] (domains as label sequences, last label   *)
(* "*" = wildcard TLD).  Rules are given as a SET: order and multiplicity of  *)
(* the lists cannot matter.                                                   *)
EXTENDS Domains

\* the rule may be used on host h (psl: Public Suffix List answer for h)
Applies(r, h, psl) == /\ ~SubOfAny(h, r.restDom, psl)
                      /\ (r.permDom # {} => SubOfAny(h, r.permDom, psl))
IsGenericRule(r) == r.permDom = {}
\* cancelled by an exception with the same content that applies to h
Excepted(L, r, h, psl) == \E e \in L : e.exc /\ e.content = r.content /\ Applies(e, h, psl)
Live(L, h, psl) == { r \in L : ~r.exc /\ Applies(r, h, psl) /\ ~Excepted(L, r, h, psl) }

\* flags: css (everything), gcss (generic rules), js
GenericResult(L, h, psl, css, gcss)  == IF css /\ gcss THEN { r.content : r \in { x \in Live(L, h, psl) : IsGenericRule(x) } } ELSE {}
SpecificResult(L, h, psl, css)       == IF css THEN { r.content : r \in { x \in Live(L, h, psl) : ~IsGenericRule(x) } } ELSE {}
=============================================================================
