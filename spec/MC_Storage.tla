----------------------------- MODULE MC_Storage -----------------------------
(* C11 / C12, spec -> code: every storage of up to MaxLists lists with up to  *)
(* MaxLines lines in total, line lengths chosen so that the line ends before, *)
(* on and after the 4 KiB buffer boundaries.                                  *)
EXTENDS Storage, Json
CONSTANTS MaxLines, MaxLists, Long      \* Long: set of long body lengths
\* list ids are abstract: the harness maps them to MinInt32, MaxInt32, 0, -5, 7 (TLC integers are 32-bit anyway)
Ids == <<"min", "max", "zero", "neg", "pos">>

Ln(kind, body, pl, pr, eol) == [kind |-> kind, body |-> body, padL |-> pl, padR |-> pr, eol |-> eol]
Eols == {"lf", "crlf"}
LineTypes ==
    { Ln("net", 12, 0, 0, e) : e \in Eols } \cup { Ln("net", 12, 2, 3, e) : e \in Eols }
    \cup { Ln("net", n, 0, 0, e) : n \in Long, e \in Eols } \cup { Ln("net", n, 1, 1, "lf") : n \in Long }
    \cup { Ln("host", 16, 0, 1, e) : e \in Eols } \cup { Ln("cos", 17, 0, 0, e) : e \in Eols }
    \cup { Ln("cos", n, 0, 0, "lf") : n \in Long }
    \cup { Ln("comment", 9, 0, 0, e) : e \in Eols } \cup { Ln("comment", n, 0, 0, "lf") : n \in Long }
    \cup { Ln("blank", 0, 0, 0, e) : e \in Eols } \cup { Ln("blank", 0, 3, 0, "lf") } \cup { Ln("bad", 19, 0, 0, e) : e \in Eols }
LastTypes == { Ln("net", 12, 0, 0, "none"), Ln("host", 16, 0, 0, "none"), Ln("comment", 9, 0, 0, "none"), Ln("net", 12, 1, 2, "none") }
               \cup { Ln("net", n, 0, 0, "none") : n \in Long }

VARIABLES lists, closed        \* closed: the last list ended with a line without end-of-line: nothing may follow in it
Init == lists = <<>> /\ closed = TRUE
Total == LET RECURSIVE T(_)
             T(ls) == IF ls = <<>> THEN 0 ELSE Len(Head(ls).lines) + T(Tail(ls))
         IN T(lists)
NewList == /\ Len(lists) < MaxLists
           /\ lists' = Append(lists, [id |-> Ids[Len(lists) + 1], ic |-> (Len(lists) % 2 = 1), lines |-> <<>>])
           /\ closed' = FALSE
AddLine == /\ lists # <<>> /\ ~closed /\ Total < MaxLines
           /\ \E l \in LineTypes \cup LastTypes :
                /\ lists' = [lists EXCEPT ![Len(lists)].lines = Append(@, l)]
                /\ closed' = (l.eol = "none")
Next == NewList \/ AddLine

Emit == PrintT(ToJson([lists |-> lists, scan |-> ScanAll(lists), sizes |-> [i \in 1..Len(lists) |-> Size(lists[i].lines)]]))
Theorems == /\ DistinctIds(lists) /\ RoundTrip(lists) /\ Injective(lists)
            /\ \A i \in 1..Len(lists) : NoiseInert(lists[i])
=============================================================================
