-------------------------- MODULE MC_ScanSession --------------------------
(* ScanSession, spec -> code.  TLC explores every interleaving of the         *)
(* scanners' steps and of up to MaxGets retrievals over one list, checks the  *)
(* invariants of the intended design in every state, and prints each          *)
(* complete schedule; the harness replays the schedules on a list held in     *)
(* memory and on the same list in a file (lines of about 3 KB, so that the    *)
(* 4 KiB read-ahead of a scanner never covers the rest of the list).          *)
EXTENDS ScanSession, Json

Ln(kind, body) == [kind |-> kind, body |-> body, padL |-> 0, padR |-> 0, eol |-> "lf"]
\* each body is the number of bytes the harness makes the line long
List6 == [id |-> "pos", ic |-> FALSE,
          lines |-> << Ln("net", 3000), Ln("comment", 2900), Ln("host", 3100), Ln("bad", 3050), Ln("net", 2950), Ln("net", 3075) >>]
List4 == [id |-> "pos", ic |-> FALSE, lines |-> << Ln("net", 3000), Ln("comment", 2900), Ln("host", 3100), Ln("net", 2950) >>]

Emit == Done => PrintT(ToJson([kind |-> "SCHEDULE", ops |-> hist, expected |-> Expected,
                                sizes |-> [k \in 1..N |-> LineLen(L.lines[k])], kinds |-> [k \in 1..N |-> L.lines[k].kind]]))
=============================================================================
