----------------------------- MODULE Trace_Fault -----------------------------
(* C19, code -> spec: histories with a fault.  Events:                         *)
(*   reset                 new lists, new engines (a faulted one and a twin)   *)
(*   fault kind            the backing lists of the faulted engine become      *)
(*                         unreadable (kind: "close" | "closed-fd" |           *)
(*                         "transient")                                        *)
(*   recover               a transient fault is over: retrievals work again,   *)
(*                         and from here on both engines agree again - nothing *)
(*                         that failed in between may stick                    *)
(*   query q got gotnet twin twinnet ref                                        *)
(*        got / gotnet : every rule (network and hosts) / the matching network  *)
(*        rules the FAULTED engine returned (texts; or the marker "PANIC");     *)
(*        twin / twinnet: the same for the fault-free twin;                     *)
(*        ref : the rules of the lists that truly match the request, found by   *)
(*        a linear scan with the rules' own Match (the oracle of the property)  *)
(* Allowed: no crash; every returned rule truly matches (got is a subset of     *)
(* ref); before the fault both engines agree; after it the matching network     *)
(* rules are a subset of the twin's, and every rule (network or hosts entry) the *)
(* faulted engine had already returned before the fault - so it was materialised *)
(* - is still returned whenever the twin returns it (a hosts entry the twin      *)
(* returns is consulted by the faulted engine too: it has no more basic rules    *)
(* than the twin).                                                               *)
EXTENDS Histories, Json
Trace == ndJsonDeserialize("trace.ndjson")
VARIABLES l, faulted, seen
Init == l = 0 /\ faulted = FALSE /\ seen = {}
Ev == Trace[l + 1]
Reject(why) == PrintT(ToJson([kind |-> "REJECT", l |-> l + 1, spec |-> why, code |-> Ev.got]))
Step ==
    /\ l < Len(Trace) /\ l' = l + 1
    /\ CASE Ev.ev = "reset" -> faulted' = FALSE /\ seen' = {}
         [] Ev.ev = "fault" -> faulted' = TRUE /\ seen' = seen
         [] Ev.ev = "recover" -> faulted' = FALSE /\ seen' = seen      \* a transient fault is over: the lists are readable again
         [] Ev.ev = "query" ->
              LET got == SetOf(Ev.got)   gotnet == SetOf(Ev.gotnet)
                  twin == SetOf(Ev.twin) twinnet == SetOf(Ev.twinnet)
                  ref == SetOf(Ev.ref)
                  why == IF "PANIC" \in got THEN "no crash"
                         ELSE IF ~(got \subseteq ref) THEN "every returned rule truly matches"
                         ELSE IF ~faulted /\ (got # twin \/ gotnet # twinnet) THEN "equal while the lists are readable"
                         ELSE IF ~(gotnet \subseteq twinnet) THEN "subset of the fault-free answer"
                         ELSE IF ~((seen \cap twin) \subseteq got) THEN "materialised rules still served"
                         ELSE "ok"
              IN /\ faulted' = faulted
                 /\ seen' = IF faulted THEN seen ELSE seen \cup got
                 /\ (why = "ok" \/ Reject(why))
Next == Step
=============================================================================
