------------------------------ MODULE NetIndex ------------------------------
(* C01: the three lookup tables of the network engine.  Rules are abstract:   *)
(*   [text, sc, doms, wild]  sc: the rule's shortcut (lower-case codes, may be *)
(*   empty), doms: permitted $domain values (label sequences), the rule       *)
(*   matches a query q = [url, src, srcPsl] iff url (lower-cased) contains sc *)
(*   and, when doms is not empty, src is one of doms or a sub-domain          *)
(*   (wildcard TLD through the PSL answer).                                   *)
(* The hash is a PARAMETER: H maps a window / domain name (codes) to a bucket; *)
(* the model is run with the REAL djb2 values exported by the harness, which   *)
(* include genuinely colliding windows and domain names.                      *)
(* State: histo (uses of each shortcut bucket), sTab, dTab (bucket -> rules), *)
(* seq (sequential list).  AddRule offers a rule to the tables in order, just *)
(* as the implementation does; MatchAll probes every 5-window of the URL,     *)
(* every label-suffix of the source host and the sequential list, re-checking *)
(* the rule itself.                                                           *)
EXTENDS Domains, SequencesExt, FiniteSetsExt

CONSTANT H(_)          \* bucket of a code sequence
WLen == 5

RuleMatch(r, q) == /\ ContainsSeq(q.url, r.sc)
                   /\ (r.doms # {} => SubOfAny(q.src, r.doms, q.srcPsl))

WindowsSeq(s) == [i \in 1..(Len(s) - WLen + 1) |-> SubSeq(s, i, i + WLen - 1)]
\* shortcuts that would match almost every URL are not indexed
AnyURLShortcut(sc) ==
    \/ Len(sc) < 6 /\ HasPrefix(sc, Str("ws:"))
    \/ Len(sc) < 7 /\ HasPrefix(sc, Str("wss:"))
    \/ Len(sc) < 8 /\ HasPrefix(sc, Str("|ws"))
    \/ Len(sc) < 9 /\ HasPrefix(sc, Str("http"))
    \/ Len(sc) < 10 /\ HasPrefix(sc, Str("|http"))
ShortcutEligible(r) == Len(r.sc) >= WLen /\ ~AnyURLShortcut(r.sc)
\* wildcard-TLD domains cannot be found by probing the suffixes of a host, so such rules stay out of the domain table
DomainEligible(r, dev) == r.doms # {} /\ (dev \/ ~\E d \in r.doms : IsWild(d))

Get(tab, b) == IF b \in DOMAIN tab THEN tab[b] ELSE <<>>
Put(tab, b, x) == [k \in DOMAIN tab \cup {b} |-> IF k = b THEN Append(Get(tab, b), x) ELSE tab[k]]
Cnt(h, b) == IF b \in DOMAIN h THEN h[b] ELSE 0

\* the least used window, the first one among equals
BestWindow(histo, ws) == LET m == Min({ Cnt(histo, H(ws[i])) : i \in 1..Len(ws) })
                             k == Min({ i \in 1..Len(ws) : Cnt(histo, H(ws[i])) = m })
                         IN ws[k]

EmptyIndex == [histo |-> <<>>, sTab |-> <<>>, dTab |-> <<>>, seq |-> <<>>]
RECURSIVE PutAll(_, _, _)
PutAll(tab, bs, x) == IF bs = <<>> THEN tab ELSE PutAll(Put(tab, Head(bs), x), Tail(bs), x)

\* dev = TRUE is the named deviation "WildcardInDomainsTable" of the pinned tree
AddRule(ix, r, dev) ==
    IF ShortcutEligible(r)
    THEN LET b == H(BestWindow(ix.histo, WindowsSeq(r.sc))) IN
         [ix EXCEPT !.histo = [k \in DOMAIN ix.histo \cup {b} |-> IF k = b THEN Cnt(ix.histo, b) + 1 ELSE ix.histo[k]],
                    !.sTab = Put(ix.sTab, b, r)]
    ELSE IF DomainEligible(r, dev)
    THEN [ix EXCEPT !.dTab = PutAll(ix.dTab, SetToSeq({ H(JoinDots(d)) : d \in r.doms }), r)]
    ELSE IF \E k \in 1..Len(ix.seq) : ix.seq[k].text = r.text THEN ix
    ELSE [ix EXCEPT !.seq = Append(ix.seq, r)]

RangeOf(s) == { s[k] : k \in 1..Len(s) }
MatchAll(ix, q) ==
    LET fromS == UNION { { r \in RangeOf(Get(ix.sTab, H(w))) : RuleMatch(r, q) } : w \in RangeOf(WindowsSeq(q.url)) }
        fromD == IF q.src = <<>> THEN {}
                 ELSE UNION { { r \in RangeOf(Get(ix.dTab, H(JoinDots(d)))) : RuleMatch(r, q) } : d \in HostSuffixes(q.src) }
        fromQ == { r \in RangeOf(ix.seq) : RuleMatch(r, q) }
    IN fromS \cup fromD \cup fromQ

RECURSIVE Build(_, _, _)
Build(ix, rs, dev) == IF rs = <<>> THEN ix ELSE Build(AddRule(ix, Head(rs), dev), Tail(rs), dev)

\* the property: lookup = linear scan, compared as sets of rule texts
Texts(R) == { r.text : r \in R }
IndexEqualsScan(rs, q, dev) == Texts(MatchAll(Build(EmptyIndex, rs, dev), q)) = Texts({ r \in RangeOf(rs) : RuleMatch(r, q) })
=============================================================================
