----------------------------- MODULE MC_UrlFilter -----------------------------
(* Exhaustive design model for C13 / C19: 4 rules (two file-backed, one in     *)
(* memory, one in the sequential table), 3 queries with overlapping candidate  *)
(* buckets, histories up to MaxHist with the fault at any point.               *)
EXTENDS UrlFilter
CONSTANT MaxHist
RulesC   == {"f1", "f2", "m1", "s1"}
QueriesC == {"q1", "q2", "q3"}
AccC  == [q \in QueriesC |-> CASE q = "q1" -> {"f1", "m1"} [] q = "q2" -> {"f1", "f2", "s1"} [] OTHER -> {}]
CandC == [q \in QueriesC |-> CASE q = "q1" -> {"f1", "f2", "m1"} [] q = "q2" -> {"f1", "f2", "m1", "s1"} [] OTHER -> {"f2"}]
InFileC == {"f1", "f2"}
PoolFieldsC == {"hostname", "url", "clientName", "clientIP", "tags", "dnsType", "sourceHostname", "thirdParty", "requestType"}
Bound == Len(hist) <= MaxHist
SpecM == InitM /\ [][NextM]_vars
=============================================================================
