---------------------------- MODULE ProxySession ----------------------------
(* The filtering proxy's view of one HTTP exchange (proxy/session.go,         *)
(* proxy/handlers.go, proxy/httpcache.go, proxy/contentscript.go).            *)
(*                                                                            *)
(* An exchange is filtered twice: when the request headers arrive the content *)
(* type is ASSUMED from the request alone (type1) and the engine is asked;    *)
(* when the response headers arrive the type is assumed again with the        *)
(* response's Content-Type known (type2) and the engine is asked again.       *)
(* The steps of the code are the actions below, one per critical section:     *)
(*                                                                            *)
(*   Arrive      a request shows up at the proxy                              *)
(*   OnRequest   handlers.go onRequest: serve the content script, block with  *)
(*               the 500 page, or forward (after stripping the conditional    *)
(*               headers of non-static resources, httpcache.go)               *)
(*   Origin      the origin server answers a forwarded request                *)
(*   OnResponse  handlers.go onResponse: block with the 500 page, run the     *)
(*               HTML filter (Proxy.tla / C20 say what it does to the bytes), *)
(*               or hand the origin's response through                       *)
(*                                                                            *)
(* The engine is abstracted by the rule set of the run: BlockedTypes (the     *)
(* content types some blocking rule of the site names) and DocException (a    *)
(* $document exception for the site, which applies to document requests only  *)
(* and switches every cosmetic option off).                                   *)
(*                                                                            *)
(* Deliberate deviations of the code, modelled as they are and named:         *)
(*   FiltersByAssumedType  the HTML filter runs whenever the ASSUMED type is  *)
(*       document/subdocument - Sec-Fetch-Dest wins over the Content-Type, so *)
(*       an image fetched into a frame goes through the filter as well.       *)
(*   ResponseTypeIgnoresRequest  once a response is there and no request      *)
(*       header decides, only its Content-Type counts: a .js URL answered     *)
(*       without Content-Type is "other", not "script".                       *)
(*   SuppressWindowForever  httpcache.go compares seconds with                *)
(*       int64(time.Minute) (6e10), so "the first minute" never ends.         *)
(*   M3uResponseIsMedia  session.go means to treat "audio/x-mpegURL" as a     *)
(*       page (so that play lists can be filtered), and does so for the       *)
(*       Accept header; the Content-Type however goes through                 *)
(*       mime.ParseMediaType first, which lower-cases it, the mixed-case      *)
(*       prefix test no longer matches and the answer falls through to        *)
(*       "audio/" = media.  Found when the first replay of this model was     *)
(*       rejected by the real proxy; modelled as the code behaves.            *)
EXTENDS ProxyTypes

(* ---- one exchange ---- *)
VARIABLES phase,      \* "idle" | "arrived" | "forwarded" | "answered" | "done"
          req, res,   \* the request; the origin's Content-Type class (Absent before / without an answer)
          type1, type2,
          originHit,  \* the origin server saw the request
          condSeen,   \* ... with its conditional headers (If-Modified-Since, If-None-Match, ...)
          out         \* what the client gets: [status, body]; body: "blockpage" | "origin" | "filtered" | "tunnel"
vars == <<phase, req, res, type1, type2, originHit, condSeen, out>>

NoReq == [upgrade |-> "none", ping |-> FALSE, fetchDest |-> "none", accept |-> "none", ext |-> "none", cond |-> FALSE, area |-> "main"]
None == [status |-> 0, body |-> "none", option |-> 0]
Init == /\ phase = "idle" /\ req = NoReq /\ res = Absent /\ type1 = "other" /\ type2 = "other"
        /\ originHit = FALSE /\ condSeen = FALSE /\ out = None

Arrive == /\ phase = "idle"
          /\ req' \in Requests
          /\ phase' = "arrived"
          /\ UNCHANGED <<res, type1, type2, originHit, condSeen, out>>

OnRequest ==
    /\ phase = "arrived"
    /\ LET t == AssumeType(req, Absent) IN
       /\ type1' = t
       /\ IF Blocks(t)
          THEN /\ phase' = "done" /\ out' = [status |-> 500, body |-> "blockpage", option |-> 0]
               /\ UNCHANGED <<res, type2, originHit, condSeen>>
          ELSE IF t = "websocket"
          THEN \* the connection is upgraded and piped; nothing more is filtered
               /\ phase' = "done" /\ out' = [status |-> 101, body |-> "tunnel", option |-> 0] /\ originHit' = TRUE
               /\ condSeen' = (req.cond /\ ~SuppressCache(t))
               /\ UNCHANGED <<res, type2>>
          ELSE /\ phase' = "forwarded" /\ originHit' = TRUE
               /\ condSeen' = (req.cond /\ ~SuppressCache(t))
               /\ UNCHANGED <<res, type2, out>>
    /\ UNCHANGED req

Origin == /\ phase = "forwarded"
          /\ res' \in CTypes
          /\ phase' = "answered"
          /\ UNCHANGED <<req, type1, type2, originHit, condSeen, out>>

OnResponse ==
    /\ phase = "answered"
    /\ LET t == AssumeType(req, res) IN
       /\ type2' = t
       /\ out' = IF Blocks(t) THEN [status |-> 500, body |-> "blockpage", option |-> 0]
                 ELSE IF t \in {"document", "subdocument"} /\ ~CosmeticOff(t)
                      THEN [status |-> 200, body |-> "filtered", option |-> Option(t, req.area)]   \* FiltersByAssumedType
                 ELSE [status |-> 200, body |-> "origin", option |-> 0]
    /\ phase' = "done"
    /\ UNCHANGED <<req, res, type1, originHit, condSeen>>

Next == Arrive \/ OnRequest \/ Origin \/ OnResponse
Spec == Init /\ [][Next]_vars /\ WF_vars(Next)

(* ---- properties ---- *)
TypeOK == /\ phase \in {"idle", "arrived", "forwarded", "answered", "done"}
          /\ type1 \in Types /\ type2 \in Types /\ res \in CTypes \cup {Absent}
          /\ out.body \in {"none", "blockpage", "origin", "filtered", "tunnel"}
\* a request blocked on its headers never reaches the origin
NoLeak == (phase = "done" /\ Blocks(type1)) => (~originHit /\ out.body = "blockpage")
\* nothing reaches the client before the exchange is decided, and every decided exchange has an answer
Decided == (phase = "done") <=> (out # None)
\* the client gets the origin's bytes untouched unless the exchange is a page (or frame) with cosmetic filtering on
Untouched == (phase = "done" /\ out.body = "filtered") =>
                 /\ type2 \in {"document", "subdocument"} /\ ~CosmeticOff(type2) /\ ~Blocks(type1) /\ ~Blocks(type2) /\ originHit
\* the injected tag names the cosmetic option of this very page: never an option of another page of the site
TagNamesThisPage == (phase = "done" /\ out.body = "filtered") => out.option = Option(type2, req.area) /\ out.option # 0
\* a $document exception keeps its page byte-for-byte
ExceptionKeepsPage == (phase = "done" /\ DocException /\ type2 = "document" /\ res # Absent) => out.body # "filtered"
\* when a request header decides the type, the second look cannot change the verdict: no late block
StableWhenHeaderDecides == (phase = "done" /\ HeaderDecides(req) /\ res # Absent) => (type2 = type1 /\ out.body # "blockpage")
\* conditional headers survive only for static resources
CondOnlyForStatic == condSeen => (req.cond /\ type1 \in StaticTypes)
CondKeptForStatic == (originHit /\ req.cond /\ type1 \in StaticTypes) => condSeen
\* every exchange ends
Terminates == <>(phase = "done")

\* the step-wise machine and the function agree
OutcomeAgrees == phase = "done" =>
    LET o == Outcome(req, IF res = Absent THEN "none" ELSE res) IN
    /\ o.type1 = type1 /\ o.origin = originHit /\ o.cond = condSeen /\ o.status = out.status /\ o.body = out.body
    /\ o.option = out.option
    /\ (res # Absent => o.type2 = type2)

=============================================================================
