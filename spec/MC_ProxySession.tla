-------------------------- MODULE MC_ProxySession --------------------------
(* ProxySession, spec -> code.  TLC explores every exchange of the model for  *)
(* one rule set (the constants) and checks the invariants on it; the          *)
(* exchanges whose shadowed request features are at their defaults (a header  *)
(* that a higher-priority one overrules is varied only a little) are printed  *)
(* with the outcome the model gives them, and the harness replays each one    *)
(* through a real proxy.Server on the loopback interface with a real origin   *)
(* server behind it.  The content-script endpoint's cases are printed from    *)
(* the initial state.                                                         *)
EXTENDS ProxySession, Json

\* shadowed features take few values: the priority order itself is exercised by the un-shadowed ones
Canonical(q) ==
    /\ q.area = "nocss" => (q.upgrade = "none" /\ ~q.ping /\ ~q.cond)
    /\ q.upgrade = "websocket" => (~q.ping /\ q.fetchDest \in {"none", "document"} /\ q.accept \in {"none", "html"} /\ q.ext = "none")
    /\ q.ping => (q.fetchDest \in {"none", "script"} /\ q.accept \in {"none", "css"} /\ q.ext = "none")
    /\ FromFetchDest(q.fetchDest) # "other" => (q.accept \in {"none", "image"} /\ q.ext \in {"none", "js"})
    /\ FromMedia(q.accept) # "other" => q.ext \in {"none", "js"}

Methods == {"GET", "POST"}
HostParams == {"absent", "one", "twice"}
OptParams == {"absent", "zero", "garbage", "o1", "o2", "o3", "o4", "o5", "o6", "o7"}
TsParams == {"absent", "zero", "created", "other"}
\* ae: the Accept-Encoding header of the client.  The answer has to be readable the way its own Content-Encoding header
\* says, whatever the client accepts and whether or not the server is configured to compress the script (the harness
\* runs every case against both configurations)
AcceptEncodings == {"none", "gzip", "identity"}
ScriptCases == [method : Methods, hostname : HostParams, option : OptParams, ts : TsParams, ims : BOOLEAN, ae : AcceptEncodings]

Emit == /\ phase = "idle" =>
             \A c \in ScriptCases :
                 PrintT(ToJson([kind |-> "SCRIPT", c |-> c, status |-> ScriptStatus(c.method, c.hostname, c.option, c.ts, c.ims),
                                hides |-> ScriptHides(c.option)]))
        /\ (phase = "done" /\ Canonical(req)) =>
             PrintT(ToJson([kind |-> "CASE", req |-> req, ct |-> IF res = Absent THEN "none" ELSE res,
                            exp |-> Outcome(req, IF res = Absent THEN "none" ELSE res)]))
=============================================================================
