-------------------------------- MODULE Rule --------------------------------
(* Abstract network rules and requests, and the meaning of "rule r matches   *)
(* request q" as the conjunction of its pattern and every modifier (C04),    *)
(* plus the rule features the verdict logic reads (C06, C07, C08, C16, C02). *)
(*                                                                           *)
(* Rule record (every list-valued modifier is a SET: value order never       *)
(* matters by construction, and the harness renders several orders):         *)
(*   white, important, badfilter : BOOLEAN                                    *)
(*   pat      : pattern, sequence of ASCII codes (mask syntax, Mask.tla)      *)
(*   third    : "none" | "on" | "off"      ($third-party / $~third-party)     *)
(*   mcase    : "none" | "on" | "off"      ($match-case)                      *)
(*   permTypes, restTypes : sets of content-type names                        *)
(*   permDom, restDom, denyallow : sets of domains (sequences of labels;      *)
(*              a last label "*" is the wildcard TLD)                         *)
(*   permDns, restDns : sets of record-type names                             *)
(*   permTag, restTag : sets of tags                                          *)
(*   permCli, restCli : sets of client specs [k |-> "name", v |-> codes] or   *)
(*              [k |-> "net", fam |-> 4 | 6, bytes |-> <<..>>, bits |-> n]    *)
(*   docOpts  : subset of DocOpts, misc : subset of MiscOpts                  *)
(*   rewrite  : <<>> (none) or <<v>>: $dnsrewrite whose value text is v (codes)  *)
(*                                                                           *)
(* Request record:                                                           *)
(*   hostreq  : BOOLEAN  (request for a bare hostname: DNS, CONNECT, SNI)     *)
(*   url      : codes of the URL used for matching (for hostreq: "http://"+h) *)
(*   host, src: request / source hostname as labels (src = <<>>: no source)   *)
(*   hostIsIP : the request host is an IP literal                             *)
(*   hostPsl, srcPsl : PSL answers (environment inputs, Domains.tla)          *)
(*   thirdParty : BOOLEAN;  type : content-type name                          *)
(*   dnsType  : record-type name or "none";  tags : set of tags               *)
(*   cname    : client name codes (<<>> none);  cip : [fam, bytes] or Nil     *)
EXTENDS Domains, Mask, TLC

Nil == [nil |-> TRUE]

Types    == {"document", "subdocument", "script", "stylesheet", "object", "image",
             "xmlhttprequest", "media", "font", "websocket", "ping", "other"}
DocOpts  == {"elemhide", "generichide", "genericblock", "jsinject", "urlblock", "content", "extension"}
MiscOpts == {"stealth", "popup", "empty", "mp4"}

BaseRule == [white |-> FALSE, important |-> FALSE, badfilter |-> FALSE, pat |-> <<>>,
             third |-> "none", mcase |-> "none", permTypes |-> {}, restTypes |-> {},
             permDom |-> {}, restDom |-> {}, denyallow |-> {}, permDns |-> {}, restDns |-> {},
             permTag |-> {}, restTag |-> {}, permCli |-> {}, restCli |-> {},
             docOpts |-> {}, misc |-> {}, rewrite |-> <<>>]   \* rewrite: <<>> none, <<v>> $dnsrewrite with value text v

(* ---- modifiers ---- *)
\* document-level and popup modifiers apply to documents only
EffPermTypes(r) == IF r.docOpts # {} \/ "popup" \in r.misc THEN {"document"} ELSE r.permTypes

TypeOK(r, q) == /\ (EffPermTypes(r) # {} => q.type \in EffPermTypes(r))
                /\ q.type \notin r.restTypes
ThirdOK(r, q) == /\ (r.third = "on"  => q.thirdParty)
                 /\ (r.third = "off" => ~q.thirdParty)
\* $denyallow: the rule does not apply to the listed request hosts (and their sub-domains);
\* for hostname requests an IP literal never satisfies a $denyallow rule
DenyallowOK(r, q) == r.denyallow # {} =>
                        /\ ~(q.hostreq /\ q.hostIsIP)
                        /\ ~SubOfAny(q.host, r.denyallow, q.hostPsl)
DomainOK(r, q) == /\ ~SubOfAny(q.src, r.restDom, q.srcPsl)
                  /\ (r.permDom # {} => SubOfAny(q.src, r.permDom, q.srcPsl))
DnsTypeOK(r, q) == /\ q.dnsType \notin r.restDns
                   /\ (r.permDns # {} => q.dnsType \in r.permDns)
TagOK(r, q) == /\ r.restTag \cap q.tags = {}
               /\ (r.permTag # {} => r.permTag \cap q.tags # {})

\* first n bits of two byte sequences are equal
RECURSIVE Pow2(_)
Pow2(n) == IF n = 0 THEN 1 ELSE 2 * Pow2(n - 1)
PrefixEq(a, b, n) ==
    LET full == n \div 8
        rem  == n % 8
    IN /\ \A k \in 1..full : a[k] = b[k]
       /\ (rem > 0 => (a[full + 1] \div Pow2(8 - rem)) = (b[full + 1] \div Pow2(8 - rem)))
CliSpecHas(c, q) ==
    IF c.k = "name" THEN q.cname # <<>> /\ q.cname = c.v
    ELSE q.cip # Nil /\ q.cip.fam = c.fam /\ PrefixEq(q.cip.bytes, c.bytes, c.bits)
ClientIn(q, C) == \E c \in C : CliSpecHas(c, q)
ClientOK(r, q) == /\ ~ClientIn(q, r.restCli)
                  /\ (r.permCli # {} => ClientIn(q, r.permCli))

(* ---- pattern ---- *)
MatchCase(r) == r.mcase = "on"
\* For hostname requests a pattern that does not pin down a scheme is applied to the bare hostname
HostChars(p) == \A k \in 2..(Len(p) - 1) : IsAlnumCh(p[k]) \/ p[k] \in {46, 45}
TargetIsHostname(r, q) ==
    /\ q.hostreq
    /\ ~HasPrefix(r.pat, Str("||")) /\ ~HasPrefix(r.pat, Str("http://"))
    /\ ~HasPrefix(r.pat, Str("https://")) /\ ~HasPrefix(r.pat, Str("://"))
    /\ ~(Len(r.pat) > 3 /\ r.pat[1] = 47 /\ r.pat[Len(r.pat)] = 46 /\ HostChars(r.pat))
Target(r, q) == IF TargetIsHostname(r, q) THEN JoinDots(q.host) ELSE q.url
PatternOK(r, q) == Accepts(r.pat, MatchCase(r), Target(r, q))

(* ---- C04: the rule matches iff its pattern and every modifier hold ---- *)
ModifiersOK(r, q) == /\ ThirdOK(r, q) /\ TypeOK(r, q) /\ DenyallowOK(r, q) /\ DomainOK(r, q)
                     /\ DnsTypeOK(r, q) /\ TagOK(r, q) /\ ClientOK(r, q)
Match(r, q) == ModifiersOK(r, q) /\ PatternOK(r, q)

(* ---- features read by the verdict logic ---- *)
\* DNS-applicable: no browser-only modifier
HostLevel(r) == /\ r.permDom = {} /\ r.restDom = {}
                /\ ~(EffPermTypes(r) # {} /\ r.restTypes # {})
                /\ r.third = "none" /\ r.mcase = "none" /\ r.docOpts = {} /\ r.misc = {}
Generic(r)  == r.permDom = {}
Specific(r) == ~Generic(r)
\* 3 important exception > 2 important block > 1 exception > 0 block
Class(r) == IF r.white /\ r.important THEN 3 ELSE IF r.important THEN 2 ELSE IF r.white THEN 1 ELSE 0
B(x) == IF x THEN 1 ELSE 0
\* number of modifiers a rule carries (each option, each content type, each list-valued modifier once)
ModCount(r) ==
    B(r.important) + B(r.badfilter) + B(r.third # "none") + B(r.mcase # "none")
    + Cardinality(r.docOpts) + Cardinality(r.misc)
    + Cardinality(EffPermTypes(r)) + Cardinality(r.restTypes)
    + B(r.permDom # {} \/ r.restDom # {}) + B(r.permDns # {} \/ r.restDns # {})
    + B(r.permTag # {} \/ r.restTag # {}) + B(r.permCli # {} \/ r.restCli # {}) + B(r.denyallow # {})
Rank(r) == <<Class(r), B(Specific(r)), ModCount(r)>>
LexGreater(a, b) == \E k \in 1..Len(a) : a[k] > b[k] /\ \A j \in 1..(k - 1) : a[j] = b[j]
\* the intended priority relation; the code is held to the strict-weak-order laws and the documented criteria
Higher(a, b) == LexGreater(Rank(a), Rank(b))

\* $badfilter: f disables exactly the rules equal to it apart from the badfilter modifier
\* (a pattern that ends in "/*" is read as the same pattern ending in "^" - Mask.tla - so the two spellings are one rule)
NormPat(p) == IF Len(p) >= 2 /\ p[Len(p) - 1] = 47 /\ p[Len(p)] = 42 THEN SubSeq(p, 1, Len(p) - 2) \o <<94>> ELSE p
SameRule(a, b) == [a EXCEPT !.pat = NormPat(a.pat)] = [b EXCEPT !.pat = NormPat(b.pat)]
Twin(f, r) == f.badfilter /\ ~r.badfilter /\ SameRule([f EXCEPT !.badfilter = FALSE], r)
=============================================================================
